package checks

// Model-aware generators: every random choice is a rapid draw, so cases
// shrink and replay; arguments are constructed from the model's current
// state (live / dead / forged handles, existing / fresh / illegal names,
// boundary offsets), never filtered.

import (
	"fmt"
	"strings"

	nt "github.com/mit-pdos/go-nfsd/nfstypes"
	"pgregory.net/rapid"
)

type GenCfg struct {
	BadRefs           int  // percentage of handle draws that are dead/forged/garbage (0 = never)
	WrongKind         int  // percentage of draws that pick an object of the wrong kind
	LongNames         bool // names at and beyond name_max
	DotNames          bool // "." and ".."
	HugeOffsets       bool // offsets up to maxfilesize and beyond
	BigWrites         bool // writes of hundreds of blocks
	MaxWriteBlks      int  // cap for ordinary writes (blocks)
	Restarts          bool
	CrossDirDirRename bool // allow KF2/KF3 renames (normally excluded)
	MaxDepth          int
	Stable            []nt.Stable_how
	Excluded          *int // counts draws re-routed because of a known finding
	// RegrowAfterCut: a SETATTR that cuts off less than two blocks may be followed at once by growing back and reading
	// (three requests in one action: not for units whose timeline takes an action as one step)
	RegrowAfterCut bool
}

func DefaultCfg() GenCfg {
	return GenCfg{BadRefs: 8, WrongKind: 6, LongNames: true, DotNames: true, HugeOffsets: true, BigWrites: true,
		MaxWriteBlks: 24, Restarts: true, MaxDepth: 3,
		Stable: []nt.Stable_how{nt.UNSTABLE, nt.DATA_SYNC, nt.FILE_SYNC}}
}

type Gen struct {
	X   *Exec
	Cfg GenCfg
	tag uint32
	// feature flags of the case so far (for the non-triviality rule)
	CrossedIndirect bool
	ShrinkThenGrow  bool
	shrunk          map[int]bool
	FailedThenMore  bool
	sawFail         bool
	Kinds           map[string]int
	bulkSeq         int
	// Skip: objects (by model id) the generator does not pick
	Skip map[int]bool
}

func nameOfLenG(n int, prefix string) string {
	if n <= len(prefix) {
		return prefix[:n]
	}
	return prefix + strings.Repeat("z", n-len(prefix))
}

func NewGen(x *Exec, cfg GenCfg) *Gen {
	return &Gen{X: x, Cfg: cfg, shrunk: map[int]bool{}, Kinds: map[string]int{}}
}

var smallNames = []string{"a", "b", "c", "d", "e"}

func pct(t *rapid.T, p int, label string) bool {
	if p <= 0 {
		return false
	}
	return rapid.IntRange(0, 99).Draw(t, label) < p
}

func pick[T any](t *rapid.T, xs []T, label string) T {
	return xs[rapid.IntRange(0, len(xs)-1).Draw(t, label)]
}

// badRef draws a handle that names no live object.
func (g *Gen) badRef(t *rapid.T) Ref {
	dead := g.X.M.Dead()
	live := g.X.M.Live()
	switch k := rapid.IntRange(0, 9).Draw(t, "badkind"); {
	case k < 5 && len(dead) > 0:
		return DeadRef(pick(t, dead, "dead"))
	case k < 8:
		n := pick(t, live, "forge")
		return g.X.SafeForged(n, pick(t, []uint64{1, ^uint64(0), 2, 1 << 32}, "delta"))
	default:
		n := pick(t, []int{0, 1, 7, 8, 15, 16, 17, 32, 64}, "fhlen")
		b := rapid.SliceOfN(rapid.Byte(), n, n).Draw(t, "fhbytes")
		if _, ok := g.X.allFH[string(b)]; ok {
			b = append(b, 0xff)
		}
		return GarbageRef(b)
	}
}

func (g *Gen) refOfKind(t *rapid.T, kind nt.Ftype3) Ref {
	if pct(t, g.Cfg.BadRefs, "bad?") {
		return g.badRef(t)
	}
	cands := g.unskipped(g.X.M.LiveKind(kind))
	if len(cands) == 0 || pct(t, g.Cfg.WrongKind, "wrongkind?") {
		cands = g.unskipped(g.X.M.Live())
	}
	return LiveRef(pick(t, cands, "obj"))
}

// unskipped leaves out the objects the generator is told not to pick (a pool of files that only serves to
// push other inodes out of the cache); if nothing else is left, the list is returned as it is.
func (g *Gen) unskipped(ns []*MNode) []*MNode {
	if len(g.Skip) == 0 {
		return ns
	}
	var out []*MNode
	for _, n := range ns {
		if !g.Skip[n.ID] {
			out = append(out, n)
		}
	}
	if len(out) == 0 {
		return ns
	}
	return out
}

func (g *Gen) DirRef(t *rapid.T) Ref  { return g.refOfKind(t, nt.NF3DIR) }
func (g *Gen) FileRef(t *rapid.T) Ref { return g.refOfKind(t, nt.NF3REG) }
func (g *Gen) LinkRef(t *rapid.T) Ref { return g.refOfKind(t, nt.NF3LNK) }
func (g *Gen) AnyRef(t *rapid.T) Ref {
	if pct(t, g.Cfg.BadRefs, "bad?") {
		return g.badRef(t)
	}
	return LiveRef(pick(t, g.unskipped(g.X.M.Live()), "obj"))
}

func longName(n int, salt int) string {
	if salt == 2 {
		// n bytes, but far fewer characters: the limit is one of bytes
		s := fmt.Sprintf("U%d_", n)
		for len(s)+2 <= n {
			s += "\u00e9"
		}
		return s + strings.Repeat("x", n-len(s))
	}
	s := fmt.Sprintf("L%d_%d_", n, salt)
	if len(s) >= n {
		return strings.Repeat("x", n)
	}
	return s + strings.Repeat("x", n-len(s))
}

// NewName draws a name for a new entry in dir: mostly a short one (often
// free, sometimes taken), sometimes one at or beyond the length limit.
func (g *Gen) NewName(t *rapid.T, dir *MNode) string {
	k := rapid.IntRange(0, 99).Draw(t, "namekind")
	nm := int(g.X.M.Lim.NameMax)
	switch {
	case k < 80:
		return pick(t, smallNames, "name")
	case k < 90 && g.Cfg.LongNames:
		return longName(pick(t, []int{nm - 1, nm, nm + 1, nm + 2, 200, 255, 256, 300}, "len"), rapid.IntRange(0, 2).Draw(t, "salt"))
	case k < 94 && g.Cfg.DotNames:
		return pick(t, []string{".", ".."}, "dot")
	case k < 96:
		return pick(t, []string{"", "a/b", "a\x00b", " ", "\xff\xfe"}, "odd")
	default:
		return rapid.StringMatching("[a-h]{1,3}").Draw(t, "rname")
	}
}

// OldName draws a name to look up / remove / rename in dir: mostly an existing one.
func (g *Gen) OldName(t *rapid.T, dir *MNode) string {
	if dir != nil && dir.IsDir() && len(dir.Children) > 0 && !pct(t, 20, "missing?") {
		return pick(t, sortedNames(dir.Children), "exist")
	}
	return g.NewName(t, dir)
}

const (
	blkDirect   = 8   // first block in the indirect range
	blkIndirect = 520 // first block in the double-indirect range
)

// Offset draws a write/read offset: dense at 0, at block boundaries, at the
// indirection boundaries, around the current size, and (rarely) at the top.
func (g *Gen) Offset(t *rapid.T, n *MNode) uint64 {
	max := g.X.M.Lim.MaxFileSize
	var size uint64
	if n != nil {
		size = n.Size
	}
	base := []uint64{0, 0, 0, BlockSize, 2 * BlockSize, 7 * BlockSize, blkDirect * BlockSize, (blkDirect + 1) * BlockSize,
		size, size, size / 2}
	if g.Cfg.HugeOffsets {
		base = append(base, blkIndirect*BlockSize, (blkIndirect-1)*BlockSize, (blkIndirect+512)*BlockSize, 300*BlockSize)
	}
	k := rapid.IntRange(0, 99).Draw(t, "offkind")
	var off uint64
	switch {
	case k < 75:
		off = pick(t, base, "offbase")
	case k < 85:
		off = rapid.Uint64Range(0, 40*BlockSize).Draw(t, "offsmall")
	case k < 95 && g.Cfg.HugeOffsets:
		off = pick(t, []uint64{max - 2*BlockSize, max - BlockSize, max - 1, max, max + 1, max / 2, 1 << 31, 1<<32 - 1, 1 << 32}, "offhuge")
	case g.Cfg.HugeOffsets:
		off = pick(t, []uint64{1 << 40, 1 << 63, ^uint64(0) - 10, ^uint64(0)}, "offover")
	default:
		off = rapid.Uint64Range(0, 40*BlockSize).Draw(t, "offsmall2")
	}
	d := pick(t, []int64{0, 0, 0, 1, -1, 100, -100, 4095}, "offdelta")
	if d < 0 && uint64(-d) > off {
		return off
	}
	if d > 0 && off > ^uint64(0)-uint64(d) {
		return off
	}
	return uint64(int64(off) + d)
}

// Count draws a transfer size in bytes, clamped by the space budget.
func (g *Gen) Count(t *rapid.T) uint32 {
	wt := uint32(g.X.M.Lim.WtMax)
	k := rapid.IntRange(0, 99).Draw(t, "cntkind")
	var c uint32
	switch {
	case k < 55:
		c = pick(t, []uint32{0, 1, 2, 100, 4095, 4096, 4097, 8192, 8191, 3 * 4096, 10000}, "cnt")
	case k < 85:
		c = uint32(rapid.IntRange(1, g.Cfg.MaxWriteBlks*BlockSize).Draw(t, "cntr"))
	case k < 96 && g.Cfg.BigWrites:
		c = pick(t, []uint32{100 * 4096, 300 * 4096, wt - 4096, wt - 1, wt, wt + 1, wt + 4096}, "cntbig")
	default:
		c = uint32(rapid.IntRange(0, 64*BlockSize).Draw(t, "cntr2"))
	}
	if g.X.Budget < 600 && c > 8*BlockSize {
		c = 8 * BlockSize
	}
	return c
}

func (g *Gen) nextTag() uint32 {
	g.tag++
	return g.tag
}

func (g *Gen) note(before int) {
	if g.X.NFailed > before {
		g.sawFail = true
	} else if g.sawFail && g.X.NOk > 0 {
		g.FailedThenMore = true
	}
}

func (g *Gen) fileFeatures(n *MNode, oldSize uint64) {
	if n == nil || n.Kind != nt.NF3REG {
		return
	}
	if n.Size > blkDirect*BlockSize {
		g.CrossedIndirect = true
	}
	if n.Size < oldSize {
		g.shrunk[n.ID] = true
	}
	if n.Size > oldSize && g.shrunk[n.ID] {
		g.ShrinkThenGrow = true
	}
}

// Actions returns the rapid state-machine actions over all procedures.
// errp receives the first oracle failure; the caller's invariant action reports it.
func (g *Gen) Actions(fail func(t *rapid.T, err error)) map[string]func(*rapid.T) {
	x := g.X
	do := func(kind string, f func(t *rapid.T) error) func(*rapid.T) {
		return func(t *rapid.T) {
			before := x.NFailed
			g.Kinds[kind]++
			err := f(t)
			g.note(before)
			if err != nil {
				fail(t, err)
			}
		}
	}
	write := do("WRITE", func(t *rapid.T) error {
		r := g.FileRef(t)
		off := g.Offset(t, r.N)
		cnt := g.Count(t)
		if r.N != nil && r.N.Kind == nt.NF3REG && off < x.M.Lim.MaxFileSize && off > 600*BlockSize && cnt > 64*BlockSize {
			cnt = 64 * BlockSize // keep far-away sparse writes moderate (space bound)
		}
		var old uint64
		if r.N != nil {
			old = r.N.Size
		}
		data := patternData(g.nextTag(), uint64(cnt))
		err := x.Write(r, off, data, cnt, pick(t, g.Cfg.Stable, "stable"))
		g.fileFeatures(r.N, old)
		return err
	})
	create := do("CREATE", func(t *rapid.T) error {
		d := g.DirRef(t)
		if pct(t, 8, "withsize?") {
			// initial attributes: a size within and beyond the announced maximum
			max := x.M.Lim.MaxFileSize
			size := pick(t, []uint64{0, 1, 5000, 9 * BlockSize, max, max + 1, 1 << 40, 1 << 63, ^uint64(0)}, "initsize")
			name := g.NewName(t, d.N)
			if pct(t, 35, "existing?") {
				name = g.OldName(t, d.N) // on an existing name: refused, or (UNCHECKED, regular file) the file itself comes back
			}
			return x.CreateWithSize(d, name, size, rapid.Bool().Draw(t, "guarded"))
		}
		return x.Create(d, g.NewName(t, d.N))
	})
	mkdir := do("MKDIR", func(t *rapid.T) error {
		d := g.DirRef(t)
		if d.N != nil && d.N.Depth() >= g.Cfg.MaxDepth {
			d = LiveRef(x.M.Root)
		}
		return x.Mkdir(d, g.NewName(t, d.N))
	})
	acts := map[string]func(*rapid.T){
		"create": create, "create2": create,
		"mkdir": mkdir,
		"write": write, "write2": write, "write3": write,
		"symlink": do("SYMLINK", func(t *rapid.T) error {
			d := g.DirRef(t)
			target := pick(t, []string{"", "x", "../a/b", strings.Repeat("t", 111), strings.Repeat("p/", 600), strings.Repeat("q", 4096), strings.Repeat("r", 5000)}, "target")
			return x.Symlink(d, g.NewName(t, d.N), target)
		}),
		"read": do("READ", func(t *rapid.T) error {
			r := g.FileRef(t)
			cnt := g.Count(t)
			if cnt > 64*BlockSize {
				cnt = 64 * BlockSize // larger reads over holes are C11/C19 territory
			}
			return x.Read(r, g.Offset(t, r.N), cnt)
		}),
		"setattr": do("SETATTR", func(t *rapid.T) error {
			r := g.FileRef(t)
			var old uint64
			if r.N != nil {
				old = r.N.Size
			}
			var err error
			if pct(t, 85, "setsize?") {
				sz := g.Offset(t, r.N)
				if r.N != nil && pct(t, 25, "smallcut?") {
					// cut off (or add) less than a block, often across a block boundary
					d := uint64(pick(t, []int{1, 7, 100, 1000, 2048, 4000, 4095}, "cut"))
					if rapid.Bool().Draw(t, "grow") {
						sz = r.N.Size + d
					} else if r.N.Size > d {
						sz = r.N.Size - d
					}
				}
				err = x.Setattr(r, &sz, pct(t, 30, "touch?"))
				if g.Cfg.RegrowAfterCut && err == nil && x.LastOK && r.N != nil && r.N.Alive && sz < old && old-sz < 2*BlockSize && rapid.Bool().Draw(t, "regrow") {
					// grow back at once and look at what the cut-off range holds now
					if err = x.Setattr(r, &old, false); err == nil && x.LastOK {
						err = x.Read(r, sz-sz%BlockSize, 3*BlockSize)
					}
				}
			} else {
				err = x.Setattr(r, nil, true)
			}
			g.fileFeatures(r.N, old)
			return err
		}),
		"misc": func(t *rapid.T) {
			switch rapid.IntRange(0, 6).Draw(t, "misc") {
			case 0:
				do("GETATTR", func(t *rapid.T) error { return x.Getattr(g.AnyRef(t)) })(t)
			case 1:
				do("ACCESS", func(t *rapid.T) error { return x.Access(g.AnyRef(t)) })(t)
			case 2:
				do("FSINFO", func(t *rapid.T) error { return x.Fsinfo(g.AnyRef(t)) })(t)
			case 3:
				do("PATHCONF", func(t *rapid.T) error { return x.Pathconf(g.AnyRef(t)) })(t)
			case 4:
				do("READLINK", func(t *rapid.T) error { return x.Readlink(g.LinkRef(t)) })(t)
			case 5:
				do("UNSUPPORTED", func(t *rapid.T) error {
					return x.Unsupported(rapid.IntRange(0, 2).Draw(t, "which"), g.DirRef(t), pick(t, smallNames, "name"))
				})(t)
			case 6:
				do("CREATE_EXCL", func(t *rapid.T) error {
					d := g.DirRef(t)
					return x.CreateExcl(d, g.NewName(t, d.N))
				})(t)
			}
		},
		"lookup": do("LOOKUP", func(t *rapid.T) error {
			d := g.DirRef(t)
			return x.Lookup(d, g.OldName(t, d.N))
		}),
		"remove2": nil,
		"remove": do("REMOVE", func(t *rapid.T) error {
			d := g.DirRef(t)
			return x.Remove(d, g.OldName(t, d.N))
		}),
		"rmdir": do("RMDIR", func(t *rapid.T) error {
			d := g.DirRef(t)
			return x.Rmdir(d, g.OldName(t, d.N))
		}),
		"rename": do("RENAME", func(t *rapid.T) error {
			fd := g.DirRef(t)
			td := fd
			if pct(t, 45, "crossdir?") {
				td = g.DirRef(t)
			}
			fn := g.OldName(t, fd.N)
			var tn string
			if pct(t, 45, "overwrite?") {
				tn = g.OldName(t, td.N)
			} else {
				tn = g.NewName(t, td.N)
			}
			if fd.N != nil && fd.N.Alive && fd.N.Parent != nil && pct(t, 6, "ontoOwnDir?") {
				// the four roles of a RENAME coincide: an entry of directory D is moved over D itself
				td, tn = LiveRef(fd.N.Parent), fd.N.Name
			}
			if !g.Cfg.CrossDirDirRename && x.RenameIsKnownFinding(fd.N, fn, td.N) {
				// KF2/KF3: moving a directory to another directory is a known finding; keep it in its parent
				if g.Cfg.Excluded != nil {
					*g.Cfg.Excluded++
				}
				td = fd
			}
			return x.Rename(fd, fn, td, tn)
		}),
		// a directory (often one with entries of its own) moves to another parent, under a new name or over an
		// existing one - or into itself or a directory below it, which must be refused
		"movedir": do("MOVEDIR", func(t *rapid.T) error {
			var srcs []*MNode
			for _, d := range g.unskipped(x.M.LiveKind(nt.NF3DIR)) {
				if d != x.M.Root {
					srcs = append(srcs, d)
				}
			}
			if len(srcs) == 0 {
				return x.Mkdir(LiveRef(x.M.Root), g.NewName(t, x.M.Root))
			}
			src := pick(t, srcs, "srcdir")
			var tds []*MNode
			for _, d := range g.unskipped(x.M.LiveKind(nt.NF3DIR)) {
				// (the directory itself and the directories below it included: the server must refuse those)
				if d != src.Parent {
					tds = append(tds, d)
				}
			}
			if len(tds) == 0 {
				return x.Mkdir(LiveRef(x.M.Root), g.NewName(t, x.M.Root))
			}
			td := pick(t, tds, "todir")
			tn := g.NewName(t, td)
			if pct(t, 30, "overwrite?") {
				tn = g.OldName(t, td)
				// preferably over an empty directory (the only kind of target a directory may replace)
				var empties []string
				for _, name := range sortedNames(td.Children) {
					if c := td.Children[name]; c.IsDir() && len(c.Children) == 0 && c != src {
						empties = append(empties, name)
					}
				}
				if len(empties) > 0 && pct(t, 70, "overemptydir?") {
					tn = pick(t, empties, "emptydir")
				}
			}
			return x.Rename(LiveRef(src.Parent), src.Name, LiveRef(td), tn)
		}),
		// a SETATTR that must be refused as a whole although it carries acceptable attributes too: a size for a
		// directory or a symbolic link, a size beyond the maximum for a file - together with times, mode, owner
		"setattr_refused": do("SETATTR", func(t *rapid.T) error {
			var cands []*MNode
			switch rapid.IntRange(0, 2).Draw(t, "refusedkind") {
			case 0:
				cands = g.unskipped(x.M.LiveKind(nt.NF3DIR))
			case 1:
				cands = g.unskipped(x.M.LiveKind(nt.NF3LNK))
			}
			sz := uint64(pick(t, []int{0, 100, 4096}, "size"))
			if len(cands) == 0 {
				cands = g.unskipped(x.M.LiveKind(nt.NF3REG))
				sz = x.M.Lim.MaxFileSize + uint64(pick(t, []int{1, 4096, 1 << 20}, "beyond"))
			}
			if len(cands) == 0 {
				return nil
			}
			return x.Setattr(LiveRef(pick(t, cands, "obj")), &sz, true)
		}),
		"readdir": do("READDIR", func(t *rapid.T) error {
			return x.Readdir(g.DirRef(t), false, pick(t, []uint32{100, 200, 512, 4096, 65536}, "count"))
		}),
		"readdirplus": do("READDIRPLUS", func(t *rapid.T) error {
			return x.Readdir(g.DirRef(t), true, pick(t, []uint32{300, 512, 4096, 65536}, "count"))
		}),
		"commit": do("COMMIT", func(t *rapid.T) error {
			r := g.FileRef(t)
			var off uint64
			var cnt uint32
			if r.N != nil && pct(t, 70, "inrange?") {
				off = rapid.Uint64Range(0, r.N.Size).Draw(t, "coff")
				cnt = uint32(rapid.Uint64Range(0, minU64(r.N.Size-off, 1<<31)).Draw(t, "ccnt"))
			} else {
				off = rapid.Uint64Range(0, 1<<40).Draw(t, "coff2")
				cnt = uint32(rapid.IntRange(0, 1<<20).Draw(t, "ccnt2"))
			}
			return x.Commit(r, off, cnt)
		}),
	}
	// many entries with names near the maximum length in one directory (several directory blocks,
	// replies that exceed size budgets), and many objects at once (more than the inode cache holds)
	acts["bulk"] = do("BULK", func(t *rapid.T) error {
		d := g.DirRef(t)
		if d.N == nil || !d.N.IsDir() || len(d.N.Children) > 150 {
			return nil
		}
		n := pick(t, []int{20, 33, 45, 70, 120}, "bulkcount")
		long := rapid.Bool().Draw(t, "longnames")
		g.bulkSeq++
		for i := 0; i < n; i++ {
			name := fmt.Sprintf("b%d_%d", g.bulkSeq, i)
			if long {
				name = nameOfLenG(pick(t, []int{97, 100, 105, 110, 111, 112}, "len"), name+"_")
			}
			if err := x.Create(d, name); err != nil {
				return err
			}
		}
		return nil
	})
	if g.Cfg.RegrowAfterCut {
		acts["runedge"] = do("RUNEDGE", g.RunEdge)
	}
	acts["remove2"] = acts["remove"]
	acts["rename2"] = acts["rename"]
	acts["setattr2"] = acts["setattr"]
	acts["read2"] = acts["read"]
	if g.Cfg.Restarts {
		acts["restart"] = do("RESTART", func(t *rapid.T) error { return x.Restart() })
	}
	return acts
}

func minU64(a, b uint64) uint64 {
	if a < b {
		return a
	}
	return b
}

// RunEdge (several requests in one action): data in the block in front of (or just behind) a boundary of the index
// structure - the last direct block, the last block under the indirect block, the last block of a 512-block run under
// the double-indirect root -, one or two whole index runs of hole above it, a cut to below the data but mostly still
// inside the range of its index block, growth back over it, and reads of the blocks around it: zeros only.
func (g *Gen) RunEdge(t *rapid.T) error {
	x := g.X
	files := g.unskipped(x.M.LiveKind(nt.NF3REG))
	if len(files) == 0 || x.Budget < 60 {
		return nil
	}
	f := pick(t, files, "file")
	e := uint64(pick(t, []int{7, 8, 519, 520, 1031, 1032, 1543}, "edgeblock"))
	in := uint64(pick(t, []int{0, 0, 100, 4000}, "in"))
	n := uint32(pick(t, []int{1, 96, 4096, 5000}, "len"))
	if err := x.Write(LiveRef(f), e*BlockSize+in, patternData(g.nextTag(), uint64(n)), n, pick(t, g.Cfg.Stable, "stable")); err != nil || !x.LastOK {
		return err
	}
	hole := (e+1+uint64(pick(t, []int{1, 511, 512, 513, 1024}, "holeblocks")))*BlockSize + uint64(pick(t, []int{0, 0, 5}, "holein"))
	if f.Size < hole {
		if err := x.Setattr(LiveRef(f), &hole, false); err != nil || !x.LastOK {
			return err
		}
	}
	cut := uint64(pick(t, []int{1, 8, 9, int(e / 2), int(e) - 1, int(e)}, "cutblocks")) * BlockSize
	switch rapid.IntRange(0, 2).Draw(t, "cutin") {
	case 1:
		cut -= 7
	case 2:
		cut += 100
	}
	if err := x.Setattr(LiveRef(f), &cut, false); err != nil || !x.LastOK {
		return err
	}
	grow := (e+2)*BlockSize + uint64(pick(t, []int{0, 5}, "growin"))
	if err := x.Setattr(LiveRef(f), &grow, false); err != nil || !x.LastOK {
		return err
	}
	g.ShrinkThenGrow = true
	St.Class("cut_below_data_at_an_index_run_edge_and_regrown")
	return x.Read(LiveRef(f), (e-1)*BlockSize, 3*BlockSize)
}
