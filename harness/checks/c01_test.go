package checks

// C01 - crash atomicity and durability of every NFS operation.
// C07 - unstable-write contract (same engine, write/commit-biased programs).

import (
	"fmt"
	"sync/atomic"
	"testing"
	"time"

	nt "github.com/mit-pdos/go-nfsd/nfstypes"
	"pgregory.net/rapid"
)

type crashProgCfg struct {
	Prop      string
	WriteBias bool // C07: mostly writes of all stability levels, commits, a few metadata operations
	MaxPoints int
	NRand     int
	// every EpochEvery-th image goes on serving and is crashed again at up to EpochPoints points of that second run
	EpochEvery, EpochPoints int
}

func runCrashProperty(t *rapid.T, pc crashProgCfg) {
	size := uint64(rapid.IntRange(2600, 5200).Draw(t, "disksize"))
	unstable := rapid.IntRange(0, 3).Draw(t, "unstable") > 0
	salt := rapid.Uint64().Draw(t, "salt")
	cr, err := NewCrashRun(size, unstable, pc.Prop)
	if err != nil {
		failf(t, pc.Prop, nil, "%v", err)
	}
	x := cr.X
	stopped := false
	defer func() {
		if !stopped {
			x.S.Stop()
		}
	}()
	x.Budget = int64(size-1540) / 2
	if rapid.IntRange(0, 2).Draw(t, "slow_commit") == 0 {
		// the client's requests rest 2 ms at their commit points: background work may overtake them where it can
		x.SlowCommit = 2 * time.Millisecond
		St.Class("programs_whose_requests_rest_at_their_commit_points")
	}
	cfg := DefaultCfg()
	cfg.BadRefs, cfg.WrongKind = 2, 2
	cfg.Restarts = false
	cfg.HugeOffsets = true
	cfg.MaxWriteBlks = 12
	excluded := 0
	cfg.Excluded = &excluded
	g := NewGen(x, cfg)
	detail := func() map[string]any {
		return map[string]any{"history": x.Log, "unstable": unstable, "disksize": size}
	}
	var stepErr error
	if pc.WriteBias {
		// the subject is data: make sure there are files to write to, and aim at them
		g.Cfg.BadRefs, g.Cfg.WrongKind = 1, 0
		for _, name := range []string{"a", "b", "c"}[:rapid.IntRange(2, 3).Draw(t, "nfiles")] {
			cr.Step(func() error { stepErr = x.Create(LiveRef(x.M.Root), name); return nil })
			if stepErr != nil {
				failf(t, pc.Prop, detail(), "live run: %v", stepErr)
			}
		}
	}
	// A pool of files that only serves to push other inodes out of the 100-slot inode cache: a sweep looks at all of
	// them (no disk writes, so no crash points are spent on it).  The pool exists before the first crash point.
	var pool []*MNode
	if rapid.IntRange(0, 2).Draw(t, "pool") == 0 {
		if stepErr = x.Mkdir(LiveRef(x.M.Root), "pool"); stepErr == nil {
			pd := x.M.Root.Children["pool"]
			g.Skip = map[int]bool{pd.ID: true}
			for i := 0; i < 104 && stepErr == nil; i++ {
				name := fmt.Sprintf("p%03d", i)
				if stepErr = x.Create(LiveRef(pd), name); stepErr == nil {
					pool = append(pool, pd.Children[name])
					g.Skip[pd.Children[name].ID] = true
				}
			}
		}
		if stepErr != nil {
			failf(t, pc.Prop, detail(), "live run: %v", stepErr)
		}
		cr.From = cr.D.Mark()
		cr.TL = []tlEntry{{Started: 0, Acked: cr.From, Flushed: true, State: x.M.Snapshot(), Desc: "mkfs and the pool of 104 files"}}
		cr.lastMut = x.Mutations
		St.Class("programs_with_a_pool_of_files_larger_than_the_inode_cache")
	}
	base := g.Actions(func(t *rapid.T, err error) { stepErr = err })
	wrap := func(f func(*rapid.T)) func(*rapid.T) {
		return func(t *rapid.T) {
			if x.Budget < 60 {
				t.Skip("space budget used up")
			}
			cr.Step(func() error { f(t); return nil })
			if stepErr != nil {
				failf(t, pc.Prop, detail(), "live run: %v", stepErr)
			}
		}
	}
	acts := map[string]func(*rapid.T){}
	if pc.WriteBias {
		for _, k := range []string{"write", "write2", "write3", "commit", "create", "remove", "setattr", "rename", "read"} {
			acts[k] = wrap(base[k])
		}
		acts["write4"], acts["write5"], acts["commit2"] = acts["write"], acts["write"], acts["commit"]
	} else {
		for _, k := range []string{"create", "create2", "mkdir", "write", "write2", "write3", "symlink", "read", "setattr", "setattr2",
			"remove", "remove2", "rmdir", "rename", "rename2", "movedir", "commit", "lookup", "readdirplus"} {
			acts[k] = wrap(base[k])
		}
	}
	// an unstable write followed at once by the COMMIT that must make it durable
	acts["unstable_then_commit"] = func(t *rapid.T) {
		files := g.unskipped(x.M.LiveKind(nt.NF3REG))
		if len(files) == 0 || !unstable || x.Budget < 60 {
			t.Skip("no file, or unstable writes are off")
		}
		f := pick(t, files, "file")
		off := g.Offset(t, f)
		if off > 600*BlockSize {
			off = f.Size
		}
		n := uint32(pick(t, []int{1, 100, 4096, 8192, 3*4096 + 5}, "len"))
		cr.Step(func() error {
			stepErr = x.Write(LiveRef(f), off, patternData(g.nextTag(), uint64(n)), n, nt.UNSTABLE)
			return nil
		})
		if stepErr == nil {
			cr.Step(func() error { stepErr = x.Commit(LiveRef(f), 0, 0); return nil })
		}
		if stepErr != nil {
			failf(t, pc.Prop, detail(), "live run: %v", stepErr)
		}
	}
	if pool != nil {
		acts["sweep"] = func(t *rapid.T) {
			cr.Step(func() error {
				x.logf("GETATTR of the %d pool files", len(pool))
				bad := ""
				stepErr = x.call(func() {
					for _, n := range pool {
						if r := x.S.API().NFSPROC3_GETATTR(nt.GETATTR3args{Object: nt.Nfs_fh3{Data: n.FH}}); r.Status != nt.NFS3_OK || uint64(r.Resok.Obj_attributes.Size) != n.Size {
							bad = fmt.Sprintf("GETATTR %s: status %d size %d (reference: %d)", n.Name, r.Status, r.Resok.Obj_attributes.Size, n.Size)
						}
					}
				})
				if stepErr == nil && bad != "" {
					stepErr = x.errf("%s", bad)
				}
				return nil
			})
			if stepErr != nil {
				failf(t, pc.Prop, detail(), "live run: %v", stepErr)
			}
			St.Class("sweeps_over_more_files_than_the_inode_cache_holds")
		}
		acts["sweep2"] = acts["sweep"]
	}
	// a SETATTR of one attribute the reference does not model (atime, mtime, mode): a stable acknowledgement all
	// the same - whatever was acknowledged before it must be on the device afterwards
	acts["setattr_one"] = wrap(func(t *rapid.T) {
		objs := g.unskipped(x.M.LiveKind(nt.NF3REG))
		if len(objs) == 0 {
			return
		}
		if err := x.SetattrOne(LiveRef(pick(t, objs, "obj")), rapid.IntRange(0, 3).Draw(t, "which")); err != nil {
			stepErr = err
		}
	})
	nrestart, nnoflush := 0, 0
	acts["restart"] = func(t *rapid.T) {
		if nrestart+nnoflush >= 3 {
			t.Skip("enough restarts")
		}
		if rapid.Bool().Draw(t, "flushfirst") || !x.Unflushed {
			nrestart++
			cr.Step(func() error { stepErr = x.Restart(); return nil })
		} else {
			nnoflush++
			stepErr = cr.RestartNoFlush()
		}
		if stepErr != nil {
			failf(t, pc.Prop, detail(), "live run: %v", stepErr)
		}
	}
	// large sparse file whose removal or truncation goes to the background shrinker
	acts["bigsparse"] = wrap(func(t *rapid.T) {
		files := g.unskipped(x.M.LiveKind(nt.NF3REG))
		if len(files) == 0 {
			return
		}
		f := pick(t, files, "file")
		sz := uint64(rapid.IntRange(515, 1500).Draw(t, "blocks")) * BlockSize
		if err := x.Setattr(LiveRef(f), &sz, false); err != nil {
			stepErr = err
		}
	})
	// data far out in a file, so that it is large with real blocks ...
	acts["growdata"] = wrap(func(t *rapid.T) {
		files := g.unskipped(x.M.LiveKind(nt.NF3REG))
		if len(files) == 0 {
			return
		}
		f := pick(t, files, "file")
		off := uint64(rapid.IntRange(515, 1400).Draw(t, "block"))*BlockSize + uint64(pick(t, []int{0, 0, 100, 4000}, "in"))
		n := uint32(pick(t, []int{1, 4096, 5000, 3 * 4096}, "len"))
		if err := x.Write(LiveRef(f), off, patternData(g.nextTag(), uint64(n)), n, pick(t, g.Cfg.Stable, "stable")); err != nil {
			stepErr = err
		}
	})
	// a dense file of several hundred blocks: freeing it takes several shrinker transactions
	ndense := 0
	acts["densebig"] = func(t *rapid.T) {
		// every WRITE is a timeline entry of its own (each is atomic by itself)
		files := g.unskipped(x.M.LiveKind(nt.NF3REG))
		if len(files) == 0 || ndense >= 1 || x.Budget < 1400 {
			return
		}
		ndense++
		f := pick(t, files, "file")
		start := uint64(rapid.IntRange(0, 200).Draw(t, "startblock"))
		nw := rapid.IntRange(2, 3).Draw(t, "nwrites")
		for i := 0; i < nw && stepErr == nil; i++ {
			cr.Step(func() error {
				n := uint32(rapid.IntRange(300, 470).Draw(t, "blocks")) * BlockSize
				if err := x.Write(LiveRef(f), start*BlockSize, patternData(g.nextTag(), uint64(n)), n, pick(t, g.Cfg.Stable, "stable")); err != nil {
					stepErr = err
					return nil
				}
				start += uint64(n / BlockSize)
				return nil
			})
		}
	}
	densePlain := acts["densebig"]
	acts["densebig"] = func(t *rapid.T) {
		if x.Budget < 60 {
			t.Skip("space budget used up")
		}
		densePlain(t)
		if stepErr != nil {
			failf(t, pc.Prop, detail(), "live run: %v", stepErr)
		}
	}
	// ... and truncations of such files by more than the journal can free in one transaction
	acts["shrinkbig"] = wrap(func(t *rapid.T) {
		var big []*MNode
		for _, f := range g.unskipped(x.M.LiveKind(nt.NF3REG)) {
			if f.Size > 515*BlockSize {
				big = append(big, f)
			}
		}
		if len(big) == 0 {
			return
		}
		f := pick(t, big, "file")
		sz := pick(t, []uint64{0, 1, 100, BlockSize, BlockSize + 1, 8 * BlockSize, 9*BlockSize - 7}, "newsize")
		if err := x.Setattr(LiveRef(f), &sz, false); err != nil {
			stepErr = err
		}
	})
	acts[""] = func(t *rapid.T) {}
	t.Repeat(acts)
	// Directed tail (two programs in three): a file with a few blocks of data near the edge of the direct range
	// and one block far out is cut to a size just below that data, which only the background shrinker can finish.
	// The crash points between "the SETATTR is durable" and "the shrinker is done" give images of a file that is
	// still shrinking; every such image gets the post-crash workload (a WRITE that starts inside the file and ends
	// beyond its end in the middle of the next block, growth, reads).
	if rapid.IntRange(0, 2).Draw(t, "bigcut_tail") > 0 && x.Budget >= 30 {
		b0 := uint64(pick(t, []int{1, 6, 7, 8, 20}, "tail_block"))
		far := uint64(rapid.IntRange(560, 1200).Draw(t, "tail_far"))
		newsz := (b0+1)*BlockSize + uint64(pick(t, []int{-7, -1000, 0, 100, 4000}, "tail_in"))
		if in := pick(t, []int{0, 1}, "tail_keep"); in == 1 {
			newsz += BlockSize
		}
		name := "zz_tail"
		tailRemove := rapid.Bool().Draw(t, "tail_remove") // ... or it is removed: the shrinker frees it
		var f *MNode
		steps := []func() error{
			func() error { return x.Create(LiveRef(x.M.Root), name) },
			func() error {
				f = x.M.Root.Children[name]
				if f == nil {
					return nil
				}
				return x.Write(LiveRef(f), b0*BlockSize, patternData(g.nextTag(), 3*BlockSize), 3*BlockSize, nt.FILE_SYNC)
			},
			func() error {
				if f == nil {
					return nil
				}
				return x.Write(LiveRef(f), far*BlockSize+5, patternData(g.nextTag(), 100), 100, pick(t, g.Cfg.Stable, "tail_stable"))
			},
			func() error {
				if f == nil {
					return nil
				}
				if tailRemove {
					// (always with the rest at the commit point: the shrinker starts while the REMOVE is not yet committed)
					defer func(d time.Duration) { x.SlowCommit = d }(x.SlowCommit)
					x.SlowCommit = 2 * time.Millisecond
					return x.Remove(LiveRef(x.M.Root), name)
				}
				return x.Setattr(LiveRef(f), &newsz, false)
			},
		}
		for _, st := range steps {
			cr.Step(func() error { stepErr = st(); return nil })
			if stepErr != nil {
				failf(t, pc.Prop, detail(), "live run: %v", stepErr)
			}
		}
		St.Class("programs_ending_with_a_cut_that_only_the_shrinker_can_finish")
	}
	// let background work finish so that its writes are part of the trace, then shut down cleanly
	if err := x.call(func() { x.S.N.VerifWaitShrinkers(); x.S.Stop() }); err != nil {
		failf(t, pc.Prop, detail(), "shutdown: %v", err)
	}
	stopped = true
	trace := cr.D.Trace()
	pts, exhaustive := CrashPoints(trace, cr.From, pc.MaxPoints)
	St.Exhaustive(exhaustive)
	progHash := Hash(x.Log, size, unstable)
	var nNT, nUnstablePending, nSuffix int64
	n, fail := ExploreCrashes(cr.D, pts, salt, pc.NRand, func(img *Disk, c CrashCase) error {
		h := Hash(progHash, c.K, c.VarIdx)
		opts := ImageOpts{Suffix: h%16 == 0, Recrash: h%32 == 1, SuffixIfTruncatedData: true}
		if h%uint64(pc.EpochEvery) == 2 {
			opts.SecondEpoch = pc.EpochPoints
		}
		_, _, err := cr.CheckImage(img, c.K, opts)
		if err != nil {
			return err
		}
		lo, hi := cr.Window(c.K)
		if opts.Suffix {
			atomic.AddInt64(&nSuffix, 1)
		}
		pend := cr.PendingUnstable(c.K)
		if pend > 0 {
			atomic.AddInt64(&nUnstablePending, 1)
		}
		nontrivial := hi > lo || len(c.Variant.Drop) > 0
		if pc.WriteBias {
			nontrivial = pend > 0
		}
		if nontrivial {
			atomic.AddInt64(&nNT, 1)
			St.NT(h)
		}
		return nil
	})
	St.Eval(n)
	St.ClassN("crash_images", n)
	St.ClassN("images_with_unstable_acked_ops_pending", int(nUnstablePending))
	St.ClassN("images_followed_by_suffix_workload", int(nSuffix))
	St.ClassN("programs", 1)
	St.ClassN("clean_restarts_in_programs", nrestart)
	St.ClassN("restarts_without_commit", nnoflush)
	if excluded > 0 {
		St.ClassN("excluded_known_finding_draws", excluded)
	}
	for k, v := range g.Kinds {
		St.ClassN("op_"+k, v)
	}
	if fail != nil {
		d := detail()
		d["crash"] = fail.Case.String()
		lo, hi := cr.Window(fail.Case.K)
		var tl []string
		for i := lo; i <= hi && i < len(cr.TL); i++ {
			tl = append(tl, fmt.Sprintf("entry %d flushed=%v: %s", i, cr.TL[i].Flushed, cr.TL[i].Desc))
		}
		d["window"] = tl
		failf(t, pc.Prop, d, "%s (trace of %d events): %v", fail.Case, len(trace), fail.Err)
	}
	if St.WantSample(nNT > 0) {
		log := x.Log
		if len(log) > 50 {
			log = append(append([]string{}, log[:49]...), "...")
		}
		St.Sample(map[string]any{"kind": "crash program", "unstable": unstable, "disksize": size, "history": log,
			"trace_events": len(trace), "crash_points": len(pts), "images": n, "nontrivial_images": nNT}, nNT > 0)
	}
}

func TestC01Crash(t *testing.T) {
	pc := crashProgCfg{Prop: "C01", MaxPoints: 300, NRand: 1, EpochEvery: 48, EpochPoints: 40}
	if Thorough() {
		pc.MaxPoints, pc.NRand, pc.EpochEvery, pc.EpochPoints = 1<<30, 3, 64, 200
	}
	rapid.Check(t, func(t *rapid.T) { runCrashProperty(t, pc) })
}

func TestC07Crash(t *testing.T) {
	pc := crashProgCfg{Prop: "C07", WriteBias: true, MaxPoints: 300, NRand: 1, EpochEvery: 48, EpochPoints: 40}
	if Thorough() {
		pc.MaxPoints, pc.NRand, pc.EpochEvery, pc.EpochPoints = 1<<30, 3, 64, 200
	}
	rapid.Check(t, func(t *rapid.T) { runCrashProperty(t, pc) })
}
