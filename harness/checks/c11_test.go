package checks

// C11 - no request can crash or wedge the server.

import (
	"encoding/binary"
	"fmt"
	"runtime"
	"strings"
	"testing"
	"time"

	nt "github.com/mit-pdos/go-nfsd/nfstypes"
	"pgregory.net/rapid"
)

var hostileU64 = []uint64{0, 1, 2, 127, 128, 129, 255, 4095, 4096, 4097, 8 * 4096, 520 * 4096, 1 << 31, 1<<31 - 1, 1<<32 - 1, 1 << 32, 1<<32 + 1,
	1 << 40, 1 << 62, 1<<63 - 1, 1 << 63, 1<<63 + 1, ^uint64(0) - 4096, ^uint64(0) - 4095, ^uint64(0) - 100, ^uint64(0) - 10, ^uint64(0) - 1, ^uint64(0)}

var hostileU32 = []uint32{0, 1, 2, 100, 127, 128, 129, 4095, 4096, 4097, 8192, 65535, 65536, 65537, 1 << 20, 511 * 4096, 511*4096 - 1, 479 * 4096, 479*4096 + 1,
	1 << 24, 1 << 31, 1<<31 - 1, ^uint32(0) - 1, ^uint32(0)}

func genU64(t *rapid.T, label string) uint64 {
	if rapid.IntRange(0, 3).Draw(t, label+"?") == 0 {
		return rapid.Uint64().Draw(t, label+"any")
	}
	return pick(t, hostileU64, label)
}

func genU32(t *rapid.T, label string) uint32 {
	if rapid.IntRange(0, 3).Draw(t, label+"?") == 0 {
		return rapid.Uint32().Draw(t, label+"any")
	}
	return pick(t, hostileU32, label)
}

func genHostileName(t *rapid.T) string {
	switch rapid.IntRange(0, 7).Draw(t, "hname") {
	case 0:
		return pick(t, []string{"", ".", "..", "...", "/", "a/b", "a\x00b", "\x00", " ", "\xff\xfe\xfd"}, "odd")
	case 1:
		return strings.Repeat("x", pick(t, []int{110, 111, 112, 113, 127, 128, 129, 255, 256, 300, 1000, 5000}, "len"))
	case 2:
		return string(rapid.SliceOfN(rapid.Byte(), 0, 300).Draw(t, "bytes"))
	default:
		return pick(t, smallNames, "small")
	}
}

// genHostileFH: valid handles, valid handles with one field changed, dead ones, arbitrary lengths and bytes.
func genHostileFH(t *rapid.T, x *Exec, maxLen int) (fh []byte, valid *MNode) {
	live := x.M.Live()
	switch rapid.IntRange(0, 9).Draw(t, "fhkind") {
	case 0, 1, 2:
		n := pick(t, live, "live")
		return append([]byte{}, n.FH...), n
	case 3, 4:
		n := pick(t, live, "mut")
		b := append([]byte{}, n.FH...)
		if len(b) == 16 {
			field := rapid.IntRange(0, 1).Draw(t, "field") * 8
			v := pick(t, []uint64{0, 1, 2, 3, 31, 32, 32767, 32768, 32769, 1 << 20, 1 << 32, 1 << 63, ^uint64(0)}, "val")
			if rapid.Bool().Draw(t, "relative") {
				v = binary.LittleEndian.Uint64(b[field:]) + pick(t, []uint64{1, ^uint64(0), 2}, "delta")
			}
			binary.LittleEndian.PutUint64(b[field:], v)
		}
		if _, isLive := x.allFH[string(b)]; isLive {
			for _, l := range live {
				if string(l.FH) == string(b) {
					return b, l
				}
			}
		}
		return b, nil
	case 5:
		if dead := x.M.Dead(); len(dead) > 0 {
			return append([]byte{}, pick(t, dead, "dead").FH...), nil
		}
		fallthrough
	default:
		n := pick(t, []int{0, 1, 4, 7, 8, 9, 15, 16, 16, 17, 24, 32, 63, 64}, "fhlen")
		if n > maxLen {
			n = maxLen
		}
		b := rapid.SliceOfN(rapid.Byte(), n, n).Draw(t, "fhbytes")
		for _, l := range live {
			if string(l.FH) == string(b) {
				return b, l
			}
		}
		return b, nil
	}
}

type memProbe struct {
	before runtime.MemStats
}

func (m *memProbe) start() { runtime.ReadMemStats(&m.before) }
func (m *memProbe) allocatedMB() float64 {
	var after runtime.MemStats
	runtime.ReadMemStats(&after)
	return float64(after.TotalAlloc-m.before.TotalAlloc) / (1 << 20)
}

const c11MemLimitMB = 48

// hostileRaw issues one raw call that cannot change the abstract state: any procedure on an
// invalid handle, or a non-mutating procedure on any handle, with arbitrary argument values.
func hostileRaw(t *rapid.T, x *Exec, viaRPC bool) (desc string, outcome CallOutcome, mb float64) {
	api := x.S.API()
	maxLen := 1 << 20
	if viaRPC {
		maxLen = 64 // nfs_fh3 is opaque<64> on the wire
	}
	fhb, valid := genHostileFH(t, x, maxLen)
	fh := nt.Nfs_fh3{Data: fhb}
	name := nt.Filename3(genHostileName(t))
	dop := nt.Diropargs3{Dir: fh, Name: name}
	var call func()
	procs := []string{"GETATTR", "LOOKUP", "ACCESS", "READLINK", "READ", "READDIR", "READDIRPLUS", "FSSTAT", "FSINFO", "PATHCONF", "COMMIT", "NULL", "MOUNT"}
	if valid != nil {
		procs = append(procs, "WRITE0") // an empty WRITE cannot change the abstract state either
	}
	if valid == nil {
		procs = append(procs, "SETATTR", "WRITE", "CREATE", "MKDIR", "SYMLINK", "MKNOD", "REMOVE", "RMDIR", "RENAME", "LINK")
	}
	proc := pick(t, procs, "proc")
	switch proc {
	case "NULL":
		call = func() { api.NFSPROC3_NULL() }
	case "GETATTR":
		call = func() { api.NFSPROC3_GETATTR(nt.GETATTR3args{Object: fh}) }
	case "LOOKUP":
		call = func() { api.NFSPROC3_LOOKUP(nt.LOOKUP3args{What: dop}) }
	case "ACCESS":
		a := genU32(t, "access")
		call = func() { api.NFSPROC3_ACCESS(nt.ACCESS3args{Object: fh, Access: nt.Uint32(a)}) }
	case "READLINK":
		call = func() { api.NFSPROC3_READLINK(nt.READLINK3args{Symlink: fh}) }
	case "READ":
		off, cnt := genU64(t, "off"), genU32(t, "cnt")
		desc = fmt.Sprintf(" off=%d cnt=%d", off, cnt)
		call = func() { api.NFSPROC3_READ(nt.READ3args{File: fh, Offset: nt.Offset3(off), Count: nt.Count3(cnt)}) }
	case "READDIR":
		ck, cnt := genU64(t, "cookie"), genU32(t, "cnt")
		desc = fmt.Sprintf(" cookie=%d count=%d", ck, cnt)
		call = func() { api.NFSPROC3_READDIR(nt.READDIR3args{Dir: fh, Cookie: nt.Cookie3(ck), Count: nt.Count3(cnt)}) }
	case "READDIRPLUS":
		ck, dc, mc := genU64(t, "cookie"), genU32(t, "dircount"), genU32(t, "maxcount")
		desc = fmt.Sprintf(" cookie=%d dircount=%d maxcount=%d", ck, dc, mc)
		call = func() {
			api.NFSPROC3_READDIRPLUS(nt.READDIRPLUS3args{Dir: fh, Cookie: nt.Cookie3(ck), Dircount: nt.Count3(dc), Maxcount: nt.Count3(mc)})
		}
	case "FSSTAT":
		call = func() { api.NFSPROC3_FSSTAT(nt.FSSTAT3args{Fsroot: fh}) }
	case "FSINFO":
		call = func() { api.NFSPROC3_FSINFO(nt.FSINFO3args{Fsroot: fh}) }
	case "PATHCONF":
		call = func() { api.NFSPROC3_PATHCONF(nt.PATHCONF3args{Object: fh}) }
	case "COMMIT":
		off, cnt := genU64(t, "off"), genU32(t, "cnt")
		desc = fmt.Sprintf(" off=%d cnt=%d", off, cnt)
		call = func() { api.NFSPROC3_COMMIT(nt.COMMIT3args{File: fh, Offset: nt.Offset3(off), Count: nt.Count3(cnt)}) }
	case "MOUNT":
		path := nt.Dirpath3(genHostileName(t))
		which := rapid.IntRange(0, 5).Draw(t, "mountproc")
		desc = fmt.Sprintf(" proc=%d", which)
		n := x.S.N
		call = func() {
			switch which {
			case 0:
				n.MOUNTPROC3_NULL()
			case 1:
				n.MOUNTPROC3_MNT(path)
			case 2:
				n.MOUNTPROC3_DUMP()
			case 3:
				n.MOUNTPROC3_UMNT(path)
			case 4:
				n.MOUNTPROC3_UMNTALL()
			case 5:
				n.MOUNTPROC3_EXPORT()
			}
		}
	case "SETATTR":
		var a nt.Sattr3
		a.Size = nt.Set_size3{Set_it: rapid.Bool().Draw(t, "setsize"), Size: nt.Size3(genU64(t, "size"))}
		a.Atime.Set_it = nt.Time_how(rapid.IntRange(0, 4).Draw(t, "atimehow"))
		a.Mtime.Set_it = nt.Time_how(rapid.IntRange(0, 4).Draw(t, "mtimehow"))
		a.Mode.Set_it = rapid.Bool().Draw(t, "setmode")
		call = func() { api.NFSPROC3_SETATTR(nt.SETATTR3args{Object: fh, New_attributes: a}) }
	case "WRITE":
		off, cnt := genU64(t, "off"), genU32(t, "cnt")
		dl := pick(t, []int{0, 1, 100, 4096, 8192, 70000}, "datalen")
		st := nt.Stable_how(rapid.IntRange(0, 4).Draw(t, "stable"))
		desc = fmt.Sprintf(" off=%d cnt=%d len=%d stable=%d", off, cnt, dl, st)
		data := make([]byte, dl)
		call = func() {
			api.NFSPROC3_WRITE(nt.WRITE3args{File: fh, Offset: nt.Offset3(off), Count: nt.Count3(cnt), Stable: st, Data: data})
		}
	case "WRITE0":
		// otherwise well-formed, nothing to write, and a stability word inside or outside the enumeration
		off := uint64(pick(t, []int{0, 0, 1, 4096, 100000}, "off0"))
		st := nt.Stable_how(pick(t, []uint32{0, 1, 2, 3, 4, 7, 1 << 31, 1<<32 - 1}, "stable0"))
		desc = fmt.Sprintf(" off=%d cnt=0 len=0 stable=%d", off, st)
		call = func() {
			api.NFSPROC3_WRITE(nt.WRITE3args{File: fh, Offset: nt.Offset3(off), Count: 0, Stable: st, Data: []byte{}})
		}
	case "CREATE":
		mode := nt.Createmode3(rapid.IntRange(0, 3).Draw(t, "mode"))
		call = func() { api.NFSPROC3_CREATE(nt.CREATE3args{Where: dop, How: nt.Createhow3{Mode: mode}}) }
	case "MKDIR":
		call = func() { api.NFSPROC3_MKDIR(nt.MKDIR3args{Where: dop}) }
	case "SYMLINK":
		target := strings.Repeat("s", pick(t, []int{0, 1, 4096, 70000}, "tlen"))
		call = func() {
			api.NFSPROC3_SYMLINK(nt.SYMLINK3args{Where: dop, Symlink: nt.Symlinkdata3{Symlink_data: nt.Nfspath3(target)}})
		}
	case "MKNOD":
		ft := nt.Ftype3(rapid.IntRange(0, 9).Draw(t, "ftype"))
		call = func() { api.NFSPROC3_MKNOD(nt.MKNOD3args{Where: dop, What: nt.Mknoddata3{Ftype: ft}}) }
	case "REMOVE":
		call = func() { api.NFSPROC3_REMOVE(nt.REMOVE3args{Object: dop}) }
	case "RMDIR":
		call = func() { api.NFSPROC3_RMDIR(nt.RMDIR3args{Object: dop}) }
	case "RENAME":
		fh2b, v2 := genHostileFH(t, x, maxLen)
		_ = v2
		to := nt.Diropargs3{Dir: nt.Nfs_fh3{Data: fh2b}, Name: nt.Filename3(genHostileName(t))}
		if rapid.Bool().Draw(t, "swap") {
			call = func() { api.NFSPROC3_RENAME(nt.RENAME3args{From: to, To: dop}) }
		} else {
			call = func() { api.NFSPROC3_RENAME(nt.RENAME3args{From: dop, To: to}) }
		}
		if v2 != nil {
			// the other directory is live: make the name one that cannot exist, so that nothing can change
			dop.Name, to.Name = "no\x00such", "no\x00such2"
		}
	case "LINK":
		call = func() { api.NFSPROC3_LINK(nt.LINK3args{File: fh, Link: dop}) }
	}
	desc = fmt.Sprintf("hostile %s fh=%x(valid=%v) name=%q%s", proc, trimBytes(fhb, 24), valid != nil, trunc(string(name), 16), desc)
	x.logf("%s", desc)
	var m memProbe
	m.start()
	outcome = Guard(20*time.Second, call)
	mb = m.allocatedMB()
	return
}

func trimBytes(b []byte, n int) []byte {
	if len(b) > n {
		return b[:n]
	}
	return b
}

func TestC11Hostile(t *testing.T) {
	rapid.Check(t, func(t *rapid.T) {
		x, cc := newSeqCase(t, "C11", 9000, 25)
		defer func() { x.S.Stop() }()
		x.Budget = 3000
		x.Watchdog = 20 * time.Second
		cfg := DefaultCfg()
		cfg.BadRefs, cfg.WrongKind = 15, 10
		excluded := 0
		cfg.Excluded = &excluded
		g := NewGen(x, cfg)
		cut := false
		fail := func(t *rapid.T, msg string) {
			failf(t, "C11", map[string]any{"history": x.Log, "rpc": cc.ViaRPC, "unstable": cc.Unstable}, "%s", msg)
		}
		nhostile, nreached := 0, 0
		// survival: whatever the replies were (a wrong one ends the comparison with the reference, not the server's duty to
		// survive): every directory can still be listed and searched, now and after a restart
		survived := false
		survival := func(t *rapid.T) {
			if survived {
				return
			}
			survived = true
			for round := 0; round < 2; round++ {
				for _, dn := range x.M.LiveKind(nt.NF3DIR) {
					if dn.Opaque || len(dn.FH) == 0 {
						continue
					}
					dfh := nt.Nfs_fh3{Data: dn.FH}
					err := x.call(func() {
						api := x.S.API()
						api.NFSPROC3_READDIR(nt.READDIR3args{Dir: dfh, Count: 8192})
						api.NFSPROC3_READDIRPLUS(nt.READDIRPLUS3args{Dir: dfh, Dircount: 8192, Maxcount: 8192})
						api.NFSPROC3_LOOKUP(nt.LOOKUP3args{What: nt.Diropargs3{Dir: dfh, Name: "no-such-name"}})
						api.NFSPROC3_CREATE(nt.CREATE3args{Where: nt.Diropargs3{Dir: dfh, Name: "survival-probe"}})
						api.NFSPROC3_REMOVE(nt.REMOVE3args{Object: nt.Diropargs3{Dir: dfh, Name: "survival-probe"}})
					})
					if err != nil {
						if k := errKind(err); k == "panic" || k == "hang" {
							fail(t, fmt.Sprintf("after the history, listing/searching directory %s: %v", dn.Path(), err))
						}
						break
					}
				}
				if round == 0 {
					if err := x.call(func() { x.S.Restart() }); err != nil {
						if k := errKind(err); k == "panic" || k == "hang" {
							fail(t, fmt.Sprintf("restart after the history: %v", err))
						}
						break
					}
				}
			}
		}
		judge := func(t *rapid.T, err error) {
			if err == nil {
				return
			}
			if k := errKind(err); k == "panic" || k == "hang" {
				fail(t, err.Error())
			}
			cut = true // a wrong reply is another property's business
			if errKind(err) != "slow" {
				survival(t)
			}
		}
		base := g.Actions(judge)
		acts := map[string]func(*rapid.T){}
		for _, k := range []string{"create", "mkdir", "write", "symlink", "setattr", "remove", "rename", "read", "restart"} {
			acts[k] = base[k]
		}
		raw := func(t *rapid.T) {
			nhostile++
			desc, o, mb := hostileRaw(t, x, cc.ViaRPC)
			if o.Slow {
				St.Class("call_too_slow_for_the_harness_not_judged")
				cut = true
				return
			}
			if o.Bad() {
				fail(t, fmt.Sprintf("%s: %v", desc, o))
			}
			if mb > c11MemLimitMB {
				fail(t, fmt.Sprintf("%s: this single request made the server allocate %.0f MB", desc, mb))
			}
			nreached++
			St.NT(Hash(desc))
		}
		acts["raw"], acts["raw2"], acts["raw3"], acts["raw4"] = raw, raw, raw, raw
		// mutating requests with hostile values, through the oracle (the reference knows what they must do)
		acts["hostile_write"] = func(t *rapid.T) {
			r := g.FileRef(t)
			off, cnt := genU64(t, "off"), genU32(t, "cnt")
			if cnt > 600*BlockSize {
				cnt = uint32(pick(t, []int{479*4096 + 1, 511 * 4096, 600 * 4096}, "capped"))
			}
			dl := int(cnt)
			switch rapid.IntRange(0, 3).Draw(t, "mismatch") {
			case 0:
				dl = pick(t, []int{0, 1, 100, 4096}, "datalen")
			case 1:
				dl = int(cnt) + pick(t, []int{1, 100, 4096}, "extra")
			}
			if dl > 700*BlockSize {
				dl = 700 * BlockSize
			}
			nhostile++
			var m memProbe
			m.start()
			err := x.Write(r, off, patternData(g.nextTag(), uint64(dl)), cnt, nt.Stable_how(rapid.IntRange(0, 2).Draw(t, "stable")))
			if mb := m.allocatedMB(); mb > c11MemLimitMB+20 {
				fail(t, fmt.Sprintf("WRITE off=%d cnt=%d len=%d: this single request made the server allocate %.0f MB", off, cnt, dl, mb))
			}
			St.NT(Hash("w", off, cnt, dl))
			judge(t, err)
		}
		acts["hostile_setattr"] = func(t *rapid.T) {
			r := g.AnyRef(t)
			sz := genU64(t, "size")
			if rapid.IntRange(0, 2).Draw(t, "nearmax") == 0 {
				max := x.M.Lim.MaxFileSize
				sz = pick(t, []uint64{max, max - 1, max + 1, max / 2, max / 4, 1 << 28, 1 << 26}, "bigsize")
			}
			nhostile++
			St.NT(Hash("s", sz, r.N != nil))
			judge(t, x.Setattr(r, &sz, rapid.Bool().Draw(t, "touch")))
		}
		acts["hostile_read"] = func(t *rapid.T) {
			r := g.FileRef(t)
			off, cnt := genU64(t, "off"), genU32(t, "cnt")
			nhostile++
			var m memProbe
			m.start()
			err := x.Read(r, off, cnt)
			if mb := m.allocatedMB(); mb > c11MemLimitMB {
				fail(t, fmt.Sprintf("READ off=%d cnt=%d of a file of size %d: this single request made the server allocate %.0f MB", off, cnt, sizeOf(r.N), mb))
			}
			St.NT(Hash("r", off, cnt))
			judge(t, err)
		}
		acts["hostile_names"] = func(t *rapid.T) {
			d := g.DirRef(t)
			name := genHostileName(t)
			nhostile++
			St.NT(Hash("n", name))
			switch rapid.IntRange(0, 5).Draw(t, "op") {
			case 0:
				judge(t, x.Create(d, name))
			case 1:
				judge(t, x.Mkdir(d, name))
			case 2:
				judge(t, x.Symlink(d, name, strings.Repeat("t", pick(t, []int{0, 1, 4096, 20000}, "tlen"))))
			case 3:
				judge(t, x.Remove(d, name))
			case 4:
				judge(t, x.Rmdir(d, name))
			case 5:
				other := g.DirRef(t)
				if d.N != nil && rapid.IntRange(0, 9).Draw(t, "existing_source") < 7 {
					name = g.OldName(t, d.N) // an existing entry moved to a hostile name
				}
				if x.RenameIsKnownFinding(d.N, name, other.N) {
					excluded++
					other = d
				}
				to := genHostileName(t)
				if d.N != nil && d.N.Children[name] != nil && len(to) > 112 {
					St.Class("rename_of_an_existing_entry_to_an_overlong_name")
				}
				judge(t, x.Rename(d, name, other, to))
			}
		}
		// many requests in a row that are refused after they have started (names beyond the limit: the inode is
		// allocated before the name is refused), within one server uptime: whatever the server keeps per refused
		// request must not add up to something that stops it
		nburst := 0
		acts["refused_burst"] = func(t *rapid.T) {
			if cut || nburst >= 1 {
				t.Skip("once per case")
			}
			nburst++
			n := pick(t, []int{40, 60, 120, 250}, "howmany")
			d := g.DirRef(t)
			x.logf("%d CREATE/MKDIR/SYMLINK requests in %s with names beyond the limit", n, d.Desc)
			long := strings.Repeat("N", int(x.M.Lim.NameMax)+40)
			bad := ""
			err := x.call(func() {
				api := x.S.API()
				for i := 0; i < n; i++ {
					where := nt.Diropargs3{Dir: d.fh(), Name: nt.Filename3(fmt.Sprintf("%s%d", long, i))}
					var st nt.Nfsstat3
					switch i % 3 {
					case 0:
						st = api.NFSPROC3_CREATE(nt.CREATE3args{Where: where}).Status
					case 1:
						st = api.NFSPROC3_MKDIR(nt.MKDIR3args{Where: where}).Status
					default:
						st = api.NFSPROC3_SYMLINK(nt.SYMLINK3args{Where: where, Symlink: nt.Symlinkdata3{Symlink_data: "t"}}).Status
					}
					if st == nt.NFS3_OK {
						bad = fmt.Sprintf("request %d with a name of %d bytes answered OK", i, len(where.Name))
						return
					}
				}
			})
			nhostile += n
			St.Class("bursts_of_requests_refused_after_they_started")
			if err != nil {
				judge(t, err)
				return
			}
			if bad != "" {
				judge(t, x.errf("%s", bad))
				return
			}
			// and the server still does its work
			judge(t, x.CompareAll())
		}
		steps := 0
		acts[""] = func(t *rapid.T) {
			steps++
			if cut || x.Budget < 100 {
				t.Skip("case cut short")
			}
			if steps%12 == 0 {
				// keeps serving correctly: the whole tree still agrees with the reference
				if err := x.CompareAll(); err != nil {
					judge(t, err)
				}
			}
		}
		t.Repeat(acts)
		if !cut {
			judge(t, x.CompareAll())
		}
		survival(t)
		St.Eval(nhostile)
		St.ClassN("hostile_calls", nhostile)
		if cut {
			St.Class("case_cut_short_by_another_oracle")
		}
		if cc.ViaRPC {
			St.Class("case_via_rpc")
		}
		if excluded > 0 {
			St.ClassN("excluded_known_finding_draws", excluded)
		}
		if St.WantSample(true) {
			St.Sample(map[string]any{"kind": "hostile history", "rpc": cc.ViaRPC, "history": headLog(x.Log, 60)}, true)
		}
	})
}

func sizeOf(n *MNode) uint64 {
	if n == nil {
		return 0
	}
	return n.Size
}
