package checks

// Evidence counters shared by all checks.  One process = one shard; the
// driver merges the per-shard files.

import (
	"encoding/json"
	"fmt"
	"hash/fnv"
	"os"
	"sort"
	"sync"
	"time"
)

type Violation struct {
	Property string `json:"property"`
	Msg      string `json:"msg"`
	Detail   any    `json:"detail,omitempty"`
}

type Stats struct {
	mu         sync.Mutex
	evals      int64
	nt         map[uint64]struct{}
	classes    map[string]int64
	samples    []any
	ntSamples  []any
	violations []Violation
	known      []string
	exhaustive *bool
	extra      map[string]any
	lastFlush  time.Time
	flushCost  time.Duration
}

var St = &Stats{nt: map[uint64]struct{}{}, classes: map[string]int64{}, extra: map[string]any{}}

func Hash(parts ...any) uint64 {
	h := fnv.New64a()
	for _, p := range parts {
		fmt.Fprintf(h, "%v|", p)
	}
	return h.Sum64()
}

func (s *Stats) Eval(n int) {
	s.mu.Lock()
	s.evals += int64(n)
	due := time.Since(s.lastFlush) > 3*time.Second+20*s.flushCost
	if due {
		s.lastFlush = time.Now()
	}
	s.mu.Unlock()
	if due {
		// so that a process killed by the code under test (fatal error, race detector halt) leaves its counters behind
		t0 := time.Now()
		s.Flush()
		s.mu.Lock()
		s.flushCost = time.Since(t0)
		s.mu.Unlock()
	}
}

// NT records one distinct non-trivial case, identified by its hash.
func (s *Stats) NT(h uint64) {
	s.mu.Lock()
	if len(s.nt) < 300000 {
		s.nt[h] = struct{}{}
	} else if _, ok := s.nt[h]; !ok {
		// beyond 300k distinct cases per process the set is no longer grown: the reported number is a lower bound
		s.classes["nontrivial_cases_beyond_the_300k_tracked_per_process"]++
	}
	s.mu.Unlock()
}

func (s *Stats) Class(name string) { s.ClassN(name, 1) }

func (s *Stats) ClassN(name string, n int) {
	s.mu.Lock()
	s.classes[name] += int64(n)
	s.mu.Unlock()
}

// Sample keeps the first few cases (and the first few non-trivial ones).
func (s *Stats) Sample(v any, nontrivial bool) {
	s.mu.Lock()
	if nontrivial {
		if len(s.ntSamples) < 3 {
			s.ntSamples = append(s.ntSamples, v)
		}
	} else if len(s.samples) < 1 {
		s.samples = append(s.samples, v)
	}
	s.mu.Unlock()
}

func (s *Stats) WantSample(nontrivial bool) bool {
	s.mu.Lock()
	defer s.mu.Unlock()
	if nontrivial {
		return len(s.ntSamples) < 3
	}
	return len(s.samples) < 1
}

func (s *Stats) Violation(prop, msg string, detail any) {
	s.mu.Lock()
	s.violations = append(s.violations, Violation{prop, msg, detail})
	s.mu.Unlock()
	s.Flush()
}

func (s *Stats) Known(line string) {
	s.mu.Lock()
	for _, k := range s.known {
		if k == line {
			s.mu.Unlock()
			return
		}
	}
	s.known = append(s.known, line)
	s.mu.Unlock()
}

func (s *Stats) Exhaustive(b bool) {
	s.mu.Lock()
	if s.exhaustive == nil || !b {
		s.exhaustive = &b
	}
	s.mu.Unlock()
}

func (s *Stats) Extra(k string, v any) {
	s.mu.Lock()
	s.extra[k] = v
	s.mu.Unlock()
}

func (s *Stats) ExtraAdd(k string, n int64) {
	s.mu.Lock()
	old, _ := s.extra[k].(int64)
	s.extra[k] = old + n
	s.mu.Unlock()
}

// Flush writes the shard's counters to $VERIF_OUT (if set).
func (s *Stats) Flush() {
	path := os.Getenv("VERIF_OUT")
	if path == "" {
		return
	}
	for _, a := range os.Args {
		if len(a) >= 16 && a[:16] == "-test.fuzzworker" {
			// native fuzzing runs workers as separate processes: one file per worker
			path = fmt.Sprintf("%s.w%d", path, os.Getpid())
		}
	}
	s.mu.Lock()
	nt := make([]uint64, 0, len(s.nt))
	for h := range s.nt {
		nt = append(nt, h)
	}
	sort.Slice(nt, func(i, j int) bool { return nt[i] < nt[j] })
	viol := s.violations
	if len(viol) > 20 {
		viol = append(append([]Violation{}, viol[:5]...), viol[len(viol)-5:]...)
	}
	out := map[string]any{
		"evaluations": s.evals,
		"nt":          nt,
		"classes":     s.classes,
		"samples":     append(append([]any{}, s.ntSamples...), s.samples...),
		"violations":  viol,
		"nviolations": len(s.violations),
		"known":       s.known,
		"extra":       s.extra,
	}
	if s.exhaustive != nil {
		out["exhaustive"] = *s.exhaustive
	}
	b, err := json.Marshal(out)
	s.mu.Unlock()
	if err != nil {
		fmt.Fprintf(os.Stderr, "stats: %v\n", err)
		return
	}
	tmp := path + ".tmp"
	if os.WriteFile(tmp, b, 0644) == nil {
		os.Rename(tmp, path)
	}
}

// Env helpers.

func Tier() string {
	if t := os.Getenv("VERIF_TIER"); t != "" {
		return t
	}
	return "quick"
}

func Thorough() bool { return Tier() == "thorough" }

func EnvInt(name string, def int) int {
	v := os.Getenv(name)
	if v == "" {
		return def
	}
	var n int
	if _, err := fmt.Sscanf(v, "%d", &n); err != nil {
		return def
	}
	return n
}
