package checks

// C12 - bytes never written read as zero; old data is never exposed.

import (
	"testing"

	nt "github.com/mit-pdos/go-nfsd/nfstypes"
	"pgregory.net/rapid"
)

// only content mismatches in which unexpected non-zero bytes show up are this property's violations
func c12Relevant(err error) bool { return errKind(err) == "data-exposed" }

func TestC12Seq(t *testing.T) {
	rapid.Check(t, func(t *rapid.T) {
		// a small data region, so that freed blocks are handed out again soon (next-fit wraps; restarts reset the cursor)
		size := uint64(rapid.IntRange(1540+300, 1540+900).Draw(t, "disksize"))
		bigDisk := rapid.IntRange(0, 3).Draw(t, "bigdisk") == 0
		if bigDisk {
			// room for one file that only the background shrinker can free (more than one journal transaction)
			size = 1540 + 1600
		}
		x, cc := newSeqCase(t, "C12", size, 10)
		defer func() { x.S.Stop() }()
		capBlocks := int(size-1540) / 2
		if bigDisk {
			capBlocks = 400
		}
		cfg := DefaultCfg()
		cfg.BadRefs, cfg.WrongKind, cfg.LongNames, cfg.DotNames, cfg.BigWrites, cfg.MaxWriteBlks = 1, 1, false, false, false, 10
		cfg.HugeOffsets = false
		g := NewGen(x, cfg)
		cut := false
		fail := func(t *rapid.T, err error) {
			failf(t, "C12", map[string]any{"history": x.Log, "unstable": cc.Unstable, "rpc": cc.ViaRPC, "disksize": size}, "%v", err)
		}
		judge := func(t *rapid.T, err error) {
			if err == nil {
				return
			}
			if c12Relevant(err) {
				fail(t, err)
			}
			cut = true // any other mismatch is another property's business
		}
		base := g.Actions(func(t *rapid.T, err error) { judge(t, err) })
		room := func() int { return capBlocks - x.UsedUpper() }
		acts := map[string]func(*rapid.T){}
		for _, k := range []string{"create", "remove", "remove2", "rename", "restart", "mkdir", "rmdir"} {
			acts[k] = base[k]
		}
		file := func(t *rapid.T) *MNode {
			files := x.M.LiveKind(nt.NF3REG)
			if len(files) == 0 {
				t.Skip("no file yet")
			}
			return pick(t, files, "file")
		}
		unalignedShrinks, regrown := map[int]bool{}, false
		// data at an edge of the index structure, whole index runs of hole above it, cut below it, regrown, read
		acts["runedge"] = func(t *rapid.T) {
			if cut || room() < 12 {
				t.Skip("case cut short, or no room")
			}
			before := g.ShrinkThenGrow
			judge(t, g.RunEdge(t))
			if g.ShrinkThenGrow && !before {
				regrown = true
			}
		}
		// fill: a run of pattern blocks
		acts["fill"] = func(t *rapid.T) {
			f := file(t)
			n := rapid.IntRange(1, 40).Draw(t, "blocks")
			if n+4 > room() {
				t.Skip("no room")
			}
			off := uint64(rapid.IntRange(0, 30).Draw(t, "startblock"))*BlockSize + uint64(pick(t, []int{0, 0, 0, 1, 100, 4095}, "in"))
			cnt := uint32(n)*BlockSize - uint32(pick(t, []int{0, 0, 1, 100, 4000}, "less"))
			judge(t, x.Write(LiveRef(f), off, patternData(g.nextTag(), uint64(cnt)), cnt, pick(t, g.Cfg.Stable, "stable")))
		}
		acts["fill2"] = acts["fill"]
		// partial-block writes and writes beyond the end (leaving a gap)
		acts["poke"] = func(t *rapid.T) {
			f := file(t)
			if 6 > room() {
				t.Skip("no room")
			}
			var off uint64
			switch rapid.IntRange(0, 2).Draw(t, "where") {
			case 0:
				off = f.Size + uint64(pick(t, []int{0, 1, 100, 4095, 4096, 5000, 3 * 4096, 20 * 4096}, "gap"))
			case 1:
				off = uint64(rapid.IntRange(0, 45*BlockSize).Draw(t, "off"))
			default:
				off = uint64(rapid.IntRange(0, 45).Draw(t, "block"))*BlockSize + uint64(pick(t, []int{0, 1, 2000, 4090}, "in"))
			}
			if rapid.IntRange(0, 9).Draw(t, "farout") == 0 {
				// the indirect / double-indirect ranges (sparse: costs an index block or two)
				off = uint64(pick(t, []int{8, 100, 519, 520, 521, 700, 1033}, "farblock"))*BlockSize + uint64(pick(t, []int{0, 1, 2000}, "in"))
			}
			cnt := uint32(pick(t, []int{1, 6, 100, 2000, 4096, 4097, 5000}, "cnt"))
			old := f.Size
			judge(t, x.Write(LiveRef(f), off, patternData(g.nextTag(), uint64(cnt)), cnt, pick(t, g.Cfg.Stable, "stable")))
			if f.Size > old && unalignedShrinks[f.ID] {
				regrown = true
			}
		}
		acts["poke2"] = acts["poke"]
		// shrink to aligned and unaligned sizes, grow again
		acts["resize"] = func(t *rapid.T) {
			f := file(t)
			var sz uint64
			switch rapid.IntRange(0, 6).Draw(t, "how") {
			case 5, 6:
				// cut off less than a block (often across a block boundary)
				if d := uint64(pick(t, []int{1, 7, 100, 1000, 2048, 4000, 4095}, "cut")); f.Size > d {
					sz = f.Size - d
				}
			case 0:
				sz = 0
			case 1:
				sz = (f.Size / BlockSize / 2) * BlockSize
			case 2:
				if f.Size > 0 {
					sz = uint64(rapid.Uint64Range(0, f.Size).Draw(t, "anysize"))
				}
			case 3:
				sz = f.Size + uint64(pick(t, []int{1, 100, 4096, 5000, 10 * 4096, 50 * 4096}, "grow"))
			default:
				sz = f.Size - f.Size%BlockSize + uint64(pick(t, []int{1, 100, 2048, 4095}, "tail"))
			}
			if f.Size > 521*BlockSize && rapid.Bool().Draw(t, "cutindind") {
				// an unaligned cut inside the double-indirect range
				sz = 520*BlockSize + uint64(rapid.Uint64Range(1, f.Size-520*BlockSize-1).Draw(t, "dindsize"))
			}
			old := f.Size
			judge(t, x.Setattr(LiveRef(f), &sz, false))
			if sz < old && sz%BlockSize != 0 {
				unalignedShrinks[f.ID] = true
			}
			if sz > old && unalignedShrinks[f.ID] {
				regrown = true
			}
		}
		acts["resize2"] = acts["resize"]
		acts["readall"] = func(t *rapid.T) {
			f := file(t)
			if int(f.Size/BlockSize)+4 > room() {
				t.Skip("reading would fill too many holes")
			}
			for off := uint64(0); off < f.Size; off += 16 * BlockSize {
				if err := x.Read(LiveRef(f), off, 16*BlockSize); err != nil {
					judge(t, err)
					return
				}
			}
		}
		acts["readall2"] = acts["readall"]
		// the last block under an index block holds data, the file is larger but has nothing beyond; cut below that
		// block, grow beyond it again, read it: zeros
		acts["lastblock_under_index"] = func(t *rapid.T) {
			f := file(t)
			e := uint64(pick(t, []int{7, 519, 519, 1031}, "edgeblock"))
			if int(e/512)+8 > room() {
				t.Skip("no room")
			}
			sz := (e + 1 + uint64(rapid.IntRange(1, 200).Draw(t, "beyond"))) * BlockSize
			if f.Size < sz {
				judge(t, x.Setattr(LiveRef(f), &sz, false))
			}
			if cut || !x.LastOK {
				return
			}
			judge(t, x.Write(LiveRef(f), e*BlockSize+uint64(pick(t, []int{0, 1, 100}, "in")), patternData(g.nextTag(), 3000), 3000, pick(t, g.Cfg.Stable, "stable")))
			if cut {
				return
			}
			low := uint64(rapid.Uint64Range(0, e).Draw(t, "cutblocks"))*BlockSize + uint64(pick(t, []int{0, 0, 1, 4000}, "cutin"))
			judge(t, x.Setattr(LiveRef(f), &low, false))
			if cut {
				return
			}
			judge(t, x.Setattr(LiveRef(f), &sz, false))
			if cut {
				return
			}
			judge(t, x.Read(LiveRef(f), e*BlockSize, 2*BlockSize))
			regrown = true
		}
		// a file too large to be freed in one transaction is cut (mostly to exactly 0) and the server stops with the
		// shrinker interrupted; the file is then removed or renamed over, the server restarts, and new files (one of
		// them gets the inode number) are grown and read: zeros only
		nbig := 0
		acts["bigfree_interrupted"] = func(t *rapid.T) {
			if !bigDisk || nbig >= 1 || cut {
				t.Skip("not in this case")
			}
			nbig++
			root := LiveRef(x.M.Root)
			name := g.NewName(t, x.M.Root)
			if err := x.Create(root, name); err != nil || !x.LastOK {
				judge(t, err)
				return
			}
			f := x.M.Root.Children[name]
			start := uint64(0)
			for _, n := range []int{300, rapid.IntRange(230, 300).Draw(t, "blocks2")} {
				cnt := uint32(n) * BlockSize
				if err := x.Write(LiveRef(f), start*BlockSize, patternData(g.nextTag(), uint64(cnt)), cnt, nt.UNSTABLE); err != nil || !x.LastOK {
					judge(t, err)
					return
				}
				start += uint64(n)
			}
			sz := pick(t, []uint64{0, 0, 0, 100, BlockSize, 9*BlockSize - 7}, "newsize")
			if err := x.Setattr(LiveRef(f), &sz, false); err != nil {
				judge(t, err)
				return
			}
			if rapid.IntRange(0, 3).Draw(t, "interrupt") > 0 {
				if err := crashRestart(x); err != nil {
					cut = true
					return
				}
				St.Class("big_file_cut_and_server_stopped_with_the_shrinker_interrupted")
			}
			if rapid.IntRange(0, 2).Draw(t, "keep") == 0 {
				// the file stays: a WRITE across its end, growth, and a look at everything
				off := f.Size
				if off > 96 {
					off -= 96
				}
				err := x.Write(LiveRef(f), off, patternData(g.nextTag(), 5000), 5000, pick(t, g.Cfg.Stable, "stable"))
				if err == nil {
					gsz := f.Size + uint64(rapid.IntRange(1, 8).Draw(t, "growblocks"))*BlockSize
					err = x.Setattr(LiveRef(f), &gsz, false)
				}
				for o := uint64(0); err == nil && o < f.Size; o += 16 * BlockSize {
					err = x.Read(LiveRef(f), o, 16*BlockSize)
				}
				judge(t, err)
				return
			}
			var err error
			if rapid.IntRange(0, 2).Draw(t, "how") == 0 {
				other := g.NewName(t, x.M.Root)
				if err = x.Create(root, other); err == nil && x.LastOK {
					err = x.Rename(root, other, root, name)
				}
			} else {
				err = x.Remove(root, name)
			}
			if err != nil {
				judge(t, err)
				return
			}
			if rapid.Bool().Draw(t, "restart") {
				if err := x.Restart(); err != nil {
					judge(t, err)
					return
				}
			}
			for i := 0; i < 2 && !cut; i++ {
				nn := g.NewName(t, x.M.Root)
				if err := x.Create(root, nn); err != nil || !x.LastOK {
					judge(t, err)
					return
				}
				nf := x.M.Root.Children[nn]
				if rapid.Bool().Draw(t, "growbysetattr") {
					gsz := uint64(rapid.IntRange(1, 30).Draw(t, "growblocks"))*BlockSize + 5
					err = x.Setattr(LiveRef(nf), &gsz, false)
				} else {
					err = x.Write(LiveRef(nf), uint64(rapid.IntRange(1, 30).Draw(t, "gapblocks"))*BlockSize+3, patternData(g.nextTag(), 10), 10, nt.FILE_SYNC)
				}
				if err == nil {
					err = x.Read(LiveRef(nf), 0, 32*BlockSize)
				}
				if err != nil {
					judge(t, err)
					return
				}
			}
		}
		everOwned, freed := map[uint64]bool{}, map[uint64]bool{}
		reused := 0
		steps, nfsck := 0, 0
		structural := func(t *rapid.T) {
			r, err := quiescentFsck(x, FsckOpts{ZeroFree: true})
			if r == nil {
				cut = true
				return
			}
			nfsck++
			for _, p := range r.Problems {
				if len(p) > 15 && p[:15] == "[free-not-zero]" {
					fail(t, x.errf("a free block still holds data: %v", err))
				}
			}
			for b := range r.Owned {
				if freed[b] {
					reused++
					delete(freed, b)
				}
				everOwned[b] = true
			}
			for b := range everOwned {
				if !r.Owned[b] {
					freed[b] = true
				}
			}
		}
		acts[""] = func(t *rapid.T) {
			steps++
			if cut {
				t.Skip("case cut short")
			}
			if steps%6 == 0 {
				structural(t)
			}
		}
		t.Repeat(acts)
		if !cut {
			structural(t)
			if err := x.CompareAll(); err != nil {
				judge(t, err)
			}
		}
		St.Eval(1)
		St.ClassN("fsck_free_block_scans", nfsck)
		if cut {
			St.Class("case_cut_short_by_another_oracle")
		}
		if reused > 0 {
			St.Class("case_reusing_freed_blocks")
			St.ClassN("freed_blocks_allocated_again", reused)
		}
		if regrown {
			St.Class("case_unaligned_shrink_then_growth")
		}
		nontrivial := reused > 0 || regrown
		if nontrivial {
			St.NT(Hash(x.Log))
		}
		if St.WantSample(nontrivial) {
			St.Sample(map[string]any{"kind": "block-recycling history", "disksize": size, "freed_blocks_allocated_again": reused,
				"unaligned_shrink_then_growth": regrown, "history": headLog(x.Log, 50)}, nontrivial)
		}
	})
}

func TestC12Crash(t *testing.T) {
	maxPts := 150
	if Thorough() {
		maxPts = 1 << 30
	}
	rapid.Check(t, func(t *rapid.T) {
		structCrashProperty(t, structCrashCfg{Prop: "C12", MaxPts: maxPts,
			Fsck:    FsckOpts{ZeroFree: true},
			OnlyCat: "[free-not-zero]",
			After: func(s *Srv, state *Model, cr *CrashRun) error {
				x := execOnState(s, state, "C12")
				// everything the matched state says is a hole or beyond a truncation must read as zero
				if err := CompareTree(s.API(), x.M, false); err != nil && c12Relevant(err) {
					return err
				}
				if err := probeResurrected(x, cr.X.EverWritten); err != nil && c12Relevant(err) {
					return err
				}
				return nil
			},
			AfterIf: func(rep *FsckReport, h uint64) bool { return true }})
	})
}
