package checks

// C04 - the on-disk structure is always a well-formed file system.
// C12 - bytes never written read as zero; old data is never exposed.
// Both run generated histories and crash images under the structural oracle (fsck.go).

import (
	"bytes"
	"fmt"
	"strings"
	"sync"
	"sync/atomic"
	"testing"
	"time"

	"github.com/mit-pdos/go-journal/common"
	nt "github.com/mit-pdos/go-nfsd/nfstypes"
	"pgregory.net/rapid"
)

// quiescentFsck waits for background work, then checks the structure.
func quiescentFsck(x *Exec, opts FsckOpts) (*FsckReport, error) {
	var r *FsckReport
	if err := x.call(func() {
		x.S.Quiesce()
		r = Fsck(x.S.N.VerifFsState(), opts)
	}); err != nil {
		return nil, err
	}
	return r, r.Err()
}

// crashRestart stops the shrinker after its current transaction (nfs.Crash) and starts a new server.
func crashRestart(x *Exec) error {
	if x.Unflushed && x.lastUnstable != nil && x.lastUnstable.Alive {
		if err := x.Commit(LiveRef(x.lastUnstable), 0, 0); err != nil {
			return err
		}
	}
	x.logf("STOP with the background shrinker interrupted (nfs.Crash), new server on the same disk")
	if err := x.call(func() { x.S.StopCrash(); x.S.start() }); err != nil {
		return err
	}
	x.AfterRestart()
	return nil
}

func TestC04Seq(t *testing.T) {
	rapid.Check(t, func(t *rapid.T) {
		x, cc := newSeqCase(t, "C04", 6000, 0)
		defer func() { x.S.Stop() }()
		x.Budget = 1800
		cfg := DefaultCfg()
		cfg.BadRefs, cfg.WrongKind, cfg.MaxDepth = 3, 3, 5
		cfg.HugeOffsets = true
		cfg.MaxWriteBlks = 12
		excluded := 0
		cfg.Excluded = &excluded
		g := NewGen(x, cfg)
		cut := false
		fail := func(t *rapid.T, err error) {
			failf(t, "C04", map[string]any{"history": x.Log, "unstable": cc.Unstable}, "%v", err)
		}
		base := g.Actions(func(t *rapid.T, err error) {
			// a reply mismatch is C02's business; this check only judges the disk
			cut = true
		})
		acts := map[string]func(*rapid.T){}
		for _, k := range []string{"create", "create2", "mkdir", "write", "write2", "symlink", "setattr", "setattr2", "read",
			"remove", "remove2", "rmdir", "rename", "rename2", "movedir", "restart", "lookup"} {
			acts[k] = base[k]
		}
		acts["mkdir2"], acts["rmdir2"] = base["mkdir"], base["rmdir"]
		acts["crashrestart"] = func(t *rapid.T) {
			if err := crashRestart(x); err != nil {
				cut = true
			}
		}
		steps, maxDirs, maxInd, nfsck := 0, 0, 0, 0
		check := func(t *rapid.T) {
			r, err := quiescentFsck(x, FsckOpts{Allocators: true})
			if err != nil {
				fail(t, err)
			}
			nfsck++
			if r.NDirs > maxDirs {
				maxDirs = r.NDirs
			}
			if r.NIndirect > maxInd {
				maxInd = r.NIndirect
			}
		}
		acts[""] = func(t *rapid.T) {
			steps++
			if cut || x.Budget < 60 {
				t.Skip("case cut short")
			}
			if steps%8 == 0 {
				check(t)
			}
		}
		t.Repeat(acts)
		if !cut {
			check(t)
		}
		if !cut && rapid.Bool().Draw(t, "emptyattheend") {
			// every object removed, bottom-up: an object that lives on without a name, or a directory that cannot be
			// removed although it is empty, shows here
			if err := deleteAll(x); err == nil {
				x.logf("everything removed")
				check(t)
				St.Class("histories_that_end_with_everything_removed")
			}
		}
		St.Eval(nfsck)
		St.ClassN("quiescent_states_checked", nfsck)
		if cut {
			St.Class("case_cut_short_by_another_oracle")
		}
		if excluded > 0 {
			St.ClassN("excluded_known_finding_draws", excluded)
		}
		nontrivial := maxDirs >= 3 && maxInd >= 1
		if nontrivial {
			St.NT(Hash(x.Log))
			St.Class("history_with_3_dirs_and_indirect_block")
		}
		if St.WantSample(nontrivial) {
			St.Sample(map[string]any{"kind": "sequential history under fsck", "dirs": maxDirs, "indirect_blocks": maxInd,
				"fsck_runs": nfsck, "history": headLog(x.Log, 40), "final_tree": x.M.Describe()}, nontrivial)
		}
	})
}

func headLog(log []string, n int) []string {
	if len(log) > n {
		return append(append([]string{}, log[:n]...), fmt.Sprintf("... (%d more)", len(log)-n))
	}
	return log
}

// structCrashProperty: crash images of generated programs under the structural oracle only.
type structCrashCfg struct {
	Prop    string
	MaxPts  int
	Fsck    FsckOpts
	After   func(s *Srv, state *Model, cr *CrashRun) error
	AfterIf func(rep *FsckReport, h uint64) bool
	OnlyCat string // if set, only fsck problems of this category count
}

func structCrashProperty(t *rapid.T, sc structCrashCfg) {
	prop, maxPts := sc.Prop, sc.MaxPts
	size := uint64(rapid.IntRange(3800, 5600).Draw(t, "disksize"))
	unstable := rapid.IntRange(0, 3).Draw(t, "unstable") > 0
	salt := rapid.Uint64().Draw(t, "salt")
	cr, err := NewCrashRun(size, unstable, prop)
	if err != nil {
		failf(t, prop, nil, "%v", err)
	}
	x := cr.X
	stopped := false
	defer func() {
		if !stopped {
			x.S.Stop()
		}
	}()
	x.Budget = int64(size-1540) * 2 / 3
	cfg := DefaultCfg()
	cfg.BadRefs, cfg.WrongKind, cfg.Restarts, cfg.MaxWriteBlks = 2, 2, false, 10
	excluded := 0
	cfg.Excluded = &excluded
	g := NewGen(x, cfg)
	cut := false
	base := g.Actions(func(t *rapid.T, err error) { cut = true })
	wrap := func(f func(*rapid.T)) func(*rapid.T) {
		return func(t *rapid.T) {
			if cut || x.Budget < 60 {
				t.Skip("case cut short")
			}
			cr.Step(func() error { f(t); return nil })
		}
	}
	acts := map[string]func(*rapid.T){}
	for _, k := range []string{"create", "mkdir", "write", "write2", "symlink", "setattr", "remove", "remove2", "rmdir", "rename", "read"} {
		acts[k] = wrap(base[k])
	}
	// large files with real blocks, and their truncation/removal (multi-transaction frees)
	acts["growdata"] = wrap(func(t *rapid.T) {
		files := x.M.LiveKind(nt.NF3REG)
		if len(files) == 0 {
			return
		}
		f := pick(t, files, "file")
		off := uint64(rapid.IntRange(515, 1300).Draw(t, "block")) * BlockSize
		n := uint32(pick(t, []int{4096, 5000, 3 * 4096}, "len"))
		if x.Write(LiveRef(f), off, patternData(g.nextTag(), uint64(n)), n, pick(t, g.Cfg.Stable, "stable")) != nil {
			cut = true
		}
	})
	// a dense file of several hundred blocks: freeing it takes several shrinker transactions
	ndense := 0
	acts["densebig"] = func(t *rapid.T) {
		if cut || x.Budget < 60 {
			t.Skip("case cut short")
		}
		// every WRITE is a timeline entry of its own (each is atomic by itself)
		files := x.M.LiveKind(nt.NF3REG)
		if len(files) == 0 || ndense >= 1 || x.Budget < 1400 {
			return
		}
		ndense++
		f := pick(t, files, "file")
		start := uint64(rapid.IntRange(0, 200).Draw(t, "startblock"))
		nw := rapid.IntRange(2, 3).Draw(t, "nwrites")
		for i := 0; i < nw && !cut; i++ {
			cr.Step(func() error {
				n := uint32(rapid.IntRange(300, 470).Draw(t, "blocks")) * BlockSize
				if x.Write(LiveRef(f), start*BlockSize, patternData(g.nextTag(), uint64(n)), n, pick(t, g.Cfg.Stable, "stable")) != nil {
					cut = true
					return nil
				}
				start += uint64(n / BlockSize)
				return nil
			})
		}
	}
	acts["dropbig"] = wrap(func(t *rapid.T) {
		var big []*MNode
		for _, f := range x.M.LiveKind(nt.NF3REG) {
			if f.Size > 515*BlockSize {
				big = append(big, f)
			}
		}
		if len(big) == 0 {
			return
		}
		f := pick(t, big, "file")
		var err error
		if rapid.Bool().Draw(t, "remove") {
			err = x.Remove(LiveRef(f.Parent), f.Name)
		} else {
			sz := pick(t, []uint64{0, 100, BlockSize, 9*BlockSize - 7}, "newsize")
			err = x.Setattr(LiveRef(f), &sz, false)
		}
		if err != nil {
			cut = true
		}
	})
	acts[""] = func(t *rapid.T) {}
	t.Repeat(acts)
	// every program ends with a multi-transaction free, so that crash points inside one are always explored
	if !cut {
		var big *MNode
		for _, f := range x.M.LiveKind(nt.NF3REG) {
			// prefer the file with the most real blocks: its free takes several shrinker transactions
			if f.Size > 515*BlockSize && (big == nil || len(f.Blocks) > len(big.Blocks)) {
				big = f
			}
		}
		if (big == nil || len(big.Blocks) <= 520) && x.UsedUpper()+700 < int(size-1540) {
			// no dense file yet: make one now (two writes, each a timeline entry of its own)
			root := LiveRef(x.M.Root)
			name := fmt.Sprintf("zdense%d", len(x.Log))
			cr.Step(func() error {
				if x.Create(root, name) != nil || !x.LastOK {
					cut = true
				}
				return nil
			})
			if f := x.M.Root.Children[name]; f != nil && !cut {
				for i := uint64(0); i < 2 && !cut; i++ {
					cr.Step(func() error {
						if x.Write(LiveRef(f), i*300*BlockSize, patternData(g.nextTag(), 300*BlockSize), 300*BlockSize, nt.UNSTABLE) != nil || !x.LastOK {
							cut = true
						}
						return nil
					})
				}
				if !cut {
					big = f
				}
			}
		}
		if big != nil && len(big.Blocks) > 520 {
			St.Class("programs_ending_with_the_free_of_a_dense_file")
		}
		if big == nil {
			if files := x.M.LiveKind(nt.NF3REG); len(files) > 0 {
				big = files[0]
				cr.Step(func() error {
					if x.Write(LiveRef(big), 700*BlockSize, patternData(g.nextTag(), 5000), 5000, nt.FILE_SYNC) != nil {
						cut = true
					}
					return nil
				})
			}
		}
		if big != nil && !cut {
			cr.Step(func() error {
				if x.Remove(LiveRef(big.Parent), big.Name) != nil {
					cut = true
				}
				return nil
			})
		}
	}
	if err := x.call(func() { x.S.N.VerifWaitShrinkers(); x.S.Stop() }); err != nil {
		failf(t, prop, map[string]any{"history": x.Log}, "shutdown: %v", err)
	}
	stopped = true
	trace := cr.D.Trace()
	pts, exhaustive := CrashPoints(trace, cr.From, maxPts)
	St.Exhaustive(exhaustive)
	progHash := Hash(x.Log, size, unstable)
	var nNT, nHalf int64
	n, fail := ExploreCrashes(cr.D, pts, salt, 1, func(img *Disk, c CrashCase) error {
		h := Hash(progHash, c.K, c.VarIdx)
		var rep0 *FsckReport
		opts := ImageOpts{NoPrefixOracle: true, Fsck: func(s *Srv) (*FsckReport, error) {
			r := Fsck(s.N.VerifFsState(), sc.Fsck)
			rep0 = r
			if sc.OnlyCat != "" {
				var keep []string
				for _, p := range r.Problems {
					if len(p) >= len(sc.OnlyCat) && p[:len(sc.OnlyCat)] == sc.OnlyCat {
						keep = append(keep, p)
					}
				}
				r.Problems = keep
			}
			return r, r.Err()
		}}
		if sc.After != nil {
			opts.After = func(s *Srv, state *Model) error {
				if sc.AfterIf != nil && !sc.AfterIf(rep0, h) {
					return nil
				}
				St.Class("recovered_images_with_followup_check")
				return sc.After(s, state, cr)
			}
		}
		_, rep, err := cr.CheckImage(img, c.K, opts)
		if err != nil {
			return err
		}
		if rep != nil && (rep.HalfFreed > 0 || (rep.NDirs >= 3 && rep.NIndirect >= 1)) {
			atomic.AddInt64(&nNT, 1)
			St.NT(h)
			if rep.HalfFreed > 0 {
				atomic.AddInt64(&nHalf, 1)
			}
		}
		return nil
	})
	St.Eval(n)
	St.ClassN("crash_images", n)
	St.ClassN("crash_images_with_half_freed_inode", int(nHalf))
	if excluded > 0 {
		St.ClassN("excluded_known_finding_draws", excluded)
	}
	if fail != nil {
		failf(t, prop, map[string]any{"history": x.Log, "crash": fail.Case.String(), "disksize": size}, "%s (trace of %d events): %v", fail.Case, len(trace), fail.Err)
	}
	if St.WantSample(nNT > 0) {
		St.Sample(map[string]any{"kind": "crash program under fsck", "history": headLog(x.Log, 40), "trace_events": len(trace),
			"crash_points": len(pts), "images": n, "nontrivial_images": nNT, "images_with_half_freed_inode": nHalf}, nNT > 0)
	}
}

func TestC04Crash(t *testing.T) {
	maxPts := 250
	if Thorough() {
		maxPts = 1 << 30
	}
	rapid.Check(t, func(t *rapid.T) {
		structCrashProperty(t, structCrashCfg{Prop: "C04", MaxPts: maxPts, Fsck: FsckOpts{Allocators: true}})
	})
}

var _ = common.ROOTINUM

// Disks with more than one block-bitmap block (32768 blocks each): allocation beyond the first bitmap block,
// removal, restart (the allocators are rebuilt from all bitmap blocks), further allocation.  Oracle: fsck
// (exact: marked = reachable, running allocators = on-disk bitmaps, nothing owned twice) and the bytes of every file.
func TestC04BigDisk(t *testing.T) {
	rapid.Check(t, func(t *rapid.T) {
		const nb = 32768
		size := uint64(pick(t, []int{nb + 700, nb + 4000, 2*nb + 900}, "disksize"))
		d := NewDisk(size)
		d.SetRecord(false)
		s := StartSrv(d, true, false)
		defer func() { s.Stop() }()
		var hist []string
		fail := func(format string, a ...any) {
			failf(t, "C04", map[string]any{"disk": size, "history": hist}, format, a...)
		}
		type bf struct {
			name   string
			fh     nt.Nfs_fh3
			tag    uint32
			blocks uint64
		}
		var files []*bf
		ntag := uint32(0)
		mk := func(blocks uint64) bool {
			ntag++
			f := &bf{name: fmt.Sprintf("f%d", ntag), tag: ntag, blocks: blocks}
			api := s.API()
			c := api.NFSPROC3_CREATE(nt.CREATE3args{Where: nt.Diropargs3{Dir: s.RootFH(), Name: nt.Filename3(f.name)}})
			if c.Status != nt.NFS3_OK {
				return false
			}
			f.fh = c.Resok.Obj.Handle
			data := patternData(f.tag, blocks*BlockSize)
			for off := uint64(0); off < blocks; off += 400 {
				n := blocks - off
				if n > 400 {
					n = 400
				}
				w := api.NFSPROC3_WRITE(nt.WRITE3args{File: f.fh, Offset: nt.Offset3(off * BlockSize), Count: nt.Count3(n * BlockSize), Stable: nt.UNSTABLE, Data: data[off*BlockSize : (off+n)*BlockSize]})
				if w.Status != nt.NFS3_OK || uint64(w.Resok.Count) != n*BlockSize {
					f.blocks = off + uint64(w.Resok.Count)/BlockSize
					files = append(files, f)
					return false
				}
			}
			files = append(files, f)
			hist = append(hist, fmt.Sprintf("file %s of %d blocks", f.name, blocks))
			return true
		}
		crashed := false
		verify := func(when string) {
			var rep *FsckReport
			o := Guard(60*time.Second, func() {
				s.Quiesce()
				rep = Fsck(s.N.VerifFsState(), FsckOpts{Exact: true, Allocators: true, AllowHalfFreed: crashed})
			})
			if o.Slow {
				t.Skip("too slow")
			}
			if o.Bad() {
				fail("%s: %v", when, o)
			}
			if err := rep.Err(); err != nil {
				fail("%s: %v", when, err)
			}
			api := s.API()
			for _, f := range files {
				want := patternData(f.tag, f.blocks*BlockSize)
				for off := uint64(0); off < f.blocks; off += 400 {
					n := f.blocks - off
					if n > 400 {
						n = 400
					}
					got, st := readFull(api, f.fh, off*BlockSize, n*BlockSize)
					if st != nt.NFS3_OK || !bytes.Equal(got, want[off*BlockSize:(off+n)*BlockSize]) {
						fail("%s: file %s no longer holds what was written to it (READ at block %d: status %d)", when, f.name, off, st)
					}
				}
			}
		}
		// allocate well into the second (third) bitmap block
		target := size - 1540 - uint64(rapid.IntRange(50, 600).Draw(t, "leave"))
		used := uint64(0)
		for used+600 < target {
			n := uint64(rapid.IntRange(1500, 6000).Draw(t, "blocks"))
			if used+n > target {
				n = target - used
			}
			if !mk(n) {
				break
			}
			used += n + n/512 + 2
		}
		beyond := s.N.VerifFsState().Balloc.NumFree() < size-nb
		for round := 0; round < rapid.IntRange(1, 3).Draw(t, "rounds"); round++ {
			// remove some files, restart, allocate again
			api := s.API()
			var keep []*bf
			for _, f := range files {
				if rapid.IntRange(0, 2).Draw(t, "remove") == 0 {
					api.NFSPROC3_REMOVE(nt.REMOVE3args{Object: nt.Diropargs3{Dir: s.RootFH(), Name: nt.Filename3(f.name)}})
					hist = append(hist, "remove "+f.name)
				} else {
					keep = append(keep, f)
				}
			}
			files = keep
			if rapid.Bool().Draw(t, "crash") {
				if len(files) > 0 {
					api.NFSPROC3_COMMIT(nt.COMMIT3args{File: files[0].fh})
				}
				s.StopCrash()
				s.start()
				crashed = true
				hist = append(hist, "stop with the shrinker interrupted, restart")
			} else {
				if len(files) > 0 {
					api.NFSPROC3_COMMIT(nt.COMMIT3args{File: files[0].fh})
				}
				s.Quiesce()
				s.Restart()
				hist = append(hist, "restart")
			}
			verifyAllocOnly := Fsck(s.N.VerifFsState(), FsckOpts{Allocators: true, AllowHalfFreed: true})
			for _, p := range verifyAllocOnly.Problems {
				if strings.Contains(p, "allocator") {
					fail("right after the restart: %s", p)
				}
			}
			for i := 0; i < rapid.IntRange(1, 4).Draw(t, "more"); i++ {
				if !mk(uint64(rapid.IntRange(100, 3000).Draw(t, "blocks2"))) {
					break
				}
			}
			verify(fmt.Sprintf("after round %d", round))
		}
		St.Eval(1)
		if beyond {
			St.NT(Hash("bigdisk", size, hist))
			St.Class("big_disk_case_allocating_beyond_the_first_bitmap_block")
		}
		if St.WantSample(beyond) {
			St.Sample(map[string]any{"kind": "disk with several bitmap blocks", "disk": size, "history": headLog(hist, 40)}, beyond)
		}
	})
}

// The enumerated two-client cases of C03 (one request held at one of its lock/commit points while another client
// completes one or two conflicting requests) under the structural oracle: when both clients have returned and
// background work is done, the disk must hold a well-formed file system, whatever order the requests took effect in.
func TestC04Enum(t *testing.T) {
	shard, nshards := EnvInt("VERIF_SHARD", 0), EnvInt("VERIF_NSHARDS", 1)
	seed := EnvInt("VERIF_SEED", 1)
	cases := enumSpace()
	St.Exhaustive(Thorough())
	run := 0
	for i, ec := range cases {
		if i%nshards != shard || ec.Data {
			continue
		}
		if !Thorough() && Hash(seed, i, "c04")%4 != 0 && !ec.HalfFreed {
			continue
		}
		d := NewDisk(9000)
		d.SetRecord(false)
		w, err := setupWorld(true, true, d)
		if err != nil {
			t.Fatalf("setup: %v", err)
		}
		if ec.HalfFreed {
			makeHalfFreed(w)
		}
		api := w.S.API()
		hfile := ""
		for k, o := range ec.Pre {
			r := w.exec(api, o)
			if k == 0 {
				hfile = r.Handle
			}
		}
		op0 := ec.Op0
		prog1 := append([]cOp{}, ec.Prog1...)
		if ec.HFile {
			w.exec(api, cOp{Kind: "writeh", H: hfile, Off: 0, Data: string(patternData(31, 8000)), Stable: 2})
			if strings.HasSuffix(op0.Kind, "h") {
				op0.H = hfile
			}
			for k := range prog1 {
				if strings.HasSuffix(prog1[k].Kind, "h") {
					prog1[k].H = hfile
				}
			}
		}
		progs := [][]cOp{{op0}, prog1}
		pause := &pauseSpec{Client: 0, Hook: ec.Hook, MaxWait: 20 * time.Millisecond}
		r := w.runConcurrentFrom(progs, 0, false, 10*time.Second, pause, 0)
		cc := concCase{Unstable: true, LowChildren: true, Progs: progs, Pause: pause}
		detail := cc.describe()
		detail["history"], detail["enum_index"] = describeHistory(r.Ops), i
		if r.Slow || (r.Hung && !r.HungInFinal) || r.Panic != "" {
			St.Class("run_not_judged")
			continue // C06 / C11 report these; the server may be wedged, leave it
		}
		// (when only the sequential look at the final state got stuck, both clients have returned: the disk is judged)
		var ferr error
		o := Guard(10*time.Second, func() {
			w.S.Quiesce()
			ferr = Fsck(w.S.N.VerifFsState(), FsckOpts{Allocators: true, AllowHalfFreed: ec.HalfFreed}).Err()
		})
		if o.Slow {
			St.Class("call_too_slow_for_the_harness_not_judged")
			continue
		}
		if o.Bad() || ferr != nil {
			msg := fmt.Sprintf("after two clients' conflicting requests (client 0 held at its lock/commit point #%d while client 1 ran) the disk is not a well-formed file system: %v %v", ec.Hook, o, ferr)
			St.Violation("C04", msg, detail)
			t.Fatalf("C04: %s\n%v", msg, detail)
		}
		if !r.HungInFinal {
			w.S.Stop()
		}
		run++
		St.Eval(1)
		if r.Paused {
			St.NT(Hash("c04enum", i))
		}
	}
	St.ClassN("enumerated_two_client_cases_checked", run)
	St.Sample(map[string]any{"kind": "enumerated two-client cases under the structural oracle", "cases_in_this_shard": run}, true)
}

// Two directories that two clients try to move into each other at the same time (RENAME /D0 -> /D1/z and
// RENAME /D1 -> /D0/z, or into directories further down): whatever the interleaving - client 0 is held at each of
// its first lock/commit points while client 1 runs - at most one of the two can succeed (the second would move a
// directory below itself), and the directories must still form a tree rooted at the root.
func TestC04RenameCycle(t *testing.T) { renameCycle(t, "C04") }

// renameCycle reports under prop; as C03 only the verdicts about the replies count (both renames answering OK is an
// outcome no sequential order of the two requests has), the disk is C04's subject.
func renameCycle(t *testing.T, prop string) {
	shard, nshards := EnvInt("VERIF_SHARD", 0), EnvInt("VERIF_NSHARDS", 1)
	St.Exhaustive(true)
	run := 0
	idx := -1
	for _, deep := range []bool{false, true} {
		for _, low := range []bool{false, true} {
			for hook := -1; hook < 14; hook++ {
				idx++
				if idx%nshards != shard {
					continue
				}
				d := NewDisk(9000)
				d.SetRecord(false)
				w, err := setupWorld(true, low, d)
				if err != nil {
					t.Fatalf("setup: %v", err)
				}
				api := w.S.API()
				to0, to1 := 2, 1 // directory slots: D0 moves into D1, D1 moves into D0
				if deep {
					// ... or into a directory inside them: D0/x and D1/x
					w.exec(api, cOp{Kind: "mkdir", Dir: 1, Name: "x"})
					w.exec(api, cOp{Kind: "mkdir", Dir: 2, Name: "x"})
					l0 := api.NFSPROC3_LOOKUP(nt.LOOKUP3args{What: nt.Diropargs3{Dir: w.Dirs[1], Name: "x"}})
					l1 := api.NFSPROC3_LOOKUP(nt.LOOKUP3args{What: nt.Diropargs3{Dir: w.Dirs[2], Name: "x"}})
					if l0.Status != nt.NFS3_OK || l1.Status != nt.NFS3_OK {
						t.Fatalf("setup: lookup of the inner directories failed")
					}
					// the slots of the two shared directories stay; the targets are addressed through spare slots
					w.Dirs = [3]nt.Nfs_fh3{w.Dirs[0], w.Dirs[1], w.Dirs[2]}
					w.deepDirs = [2]nt.Nfs_fh3{l0.Resok.Object, l1.Resok.Object}
				}
				ren := func(name string, target int) nt.Nfsstat3 {
					td := w.Dirs[target]
					if deep {
						td = w.deepDirs[target-1]
					}
					return api.NFSPROC3_RENAME(nt.RENAME3args{From: nt.Diropargs3{Dir: w.Dirs[0], Name: nt.Filename3(name)}, To: nt.Diropargs3{Dir: td, Name: "z"}}).Status
				}
				var st0, st1 nt.Nfsstat3
				mon := w.S.Mon()
				var hooks int32
				othersDone := make(chan struct{})
				reached := make(chan struct{})
				var once, reachedOnce sync.Once
				var client0 uint64
				if hook >= 0 {
					mon.SetYield(func(point string) {
						if goid() != atomic.LoadUint64(&client0) {
							return
						}
						if int(atomic.AddInt32(&hooks, 1))-1 != hook {
							return
						}
						once.Do(func() {
							reachedOnce.Do(func() { close(reached) })
							select {
							case <-othersDone:
							case <-time.After(20 * time.Millisecond):
							}
						})
					})
				} else {
					close(reached)
				}
				o := Guard(20*time.Second, func() {
					var wg sync.WaitGroup
					wg.Add(2)
					go func() {
						defer wg.Done()
						atomic.StoreUint64(&client0, goid())
						st0 = ren("D0", to0)
						reachedOnce.Do(func() {
							if hook >= 0 {
								close(reached)
							}
						})
					}()
					go func() {
						defer wg.Done()
						defer close(othersDone)
						if hook >= 0 {
							<-reached
						}
						st1 = ren("D1", to1)
					}()
					wg.Wait()
				})
				mon.SetYield(nil)
				detail := map[string]any{"into_inner_directories": deep, "children_numbered_below_parents": low, "client_0_held_at_hook": hook,
					"RENAME /D0 -> D1.../z": st0, "RENAME /D1 -> D0.../z": st1}
				fail := func(format string, a ...any) {
					msg := fmt.Sprintf(format, a...)
					St.Violation(prop, msg, detail)
					t.Fatalf("%s: %s\n%v", prop, msg, detail)
				}
				if o.Slow {
					St.Class("call_too_slow_for_the_harness_not_judged")
					continue
				}
				if o.Bad() {
					St.Class("run_not_judged")
					continue // C06/C11
				}
				if st0 == nt.NFS3_OK && st1 == nt.NFS3_OK {
					fail("both renames succeeded: each directory is now inside the other and neither is reachable from the root")
				}
				if st0 != nt.NFS3_OK && st1 != nt.NFS3_OK {
					fail("neither rename succeeded (status %d and %d) although each is possible by itself", st0, st1)
				}
				var ferr error
				if g := Guard(10*time.Second, func() { w.S.Quiesce(); ferr = Fsck(w.S.N.VerifFsState(), FsckOpts{Exact: true, Allocators: true}).Err() }); (g.Bad() || ferr != nil) && prop == "C04" {
					fail("after the two renames the disk is not a well-formed file system: %v %v", g, ferr)
				}
				w.S.Stop()
				run++
				St.Eval(1)
				St.NT(Hash("cycle", deep, low, hook))
			}
		}
	}
	St.ClassN("pairs_of_directories_moved_into_each_other", run)
	// The name a rename moves is bound to another directory while the rename is under way: client 0 moves /D1 into
	// /D0/x and is held at each of its first twenty-four lock/commit/abort points; meanwhile client 1 renames /D1
	// to /z and /D0 to /D1 (inside the root).  If client 0 then moves what is now called /D1 - the directory D0 -
	// into D0/x, D0 ends up below itself.  Whatever happens, the directories must still form a tree.
	for hook := -1; hook < 24 && prop == "C04"; hook++ {
		idx++
		if idx%nshards != shard {
			continue
		}
		d := NewDisk(9000)
		d.SetRecord(false)
		w, err := setupWorld(true, hook%2 == 0, d)
		if err != nil {
			t.Fatalf("setup: %v", err)
		}
		api := w.S.API()
		w.exec(api, cOp{Kind: "mkdir", Dir: 1, Name: "x"})
		l0 := api.NFSPROC3_LOOKUP(nt.LOOKUP3args{What: nt.Diropargs3{Dir: w.Dirs[1], Name: "x"}})
		if l0.Status != nt.NFS3_OK {
			t.Fatalf("setup: lookup of the inner directory failed")
		}
		inner := l0.Resok.Object
		root := w.Dirs[0]
		ren := func(fn string, td nt.Nfs_fh3, tn string) nt.Nfsstat3 {
			return api.NFSPROC3_RENAME(nt.RENAME3args{From: nt.Diropargs3{Dir: root, Name: nt.Filename3(fn)}, To: nt.Diropargs3{Dir: td, Name: nt.Filename3(tn)}}).Status
		}
		var st0, st1, st2 nt.Nfsstat3
		mon := w.S.Mon()
		var hooks int32
		othersDone, reached := make(chan struct{}), make(chan struct{})
		var once, reachedOnce sync.Once
		var client0 uint64
		if hook >= 0 {
			mon.SetYield(func(point string) {
				if goid() != atomic.LoadUint64(&client0) {
					return
				}
				if int(atomic.AddInt32(&hooks, 1))-1 != hook {
					return
				}
				once.Do(func() {
					reachedOnce.Do(func() { close(reached) })
					select {
					case <-othersDone:
					case <-time.After(30 * time.Millisecond):
					}
				})
			})
		} else {
			close(reached)
		}
		o := Guard(20*time.Second, func() {
			var wg sync.WaitGroup
			wg.Add(2)
			go func() {
				defer wg.Done()
				atomic.StoreUint64(&client0, goid())
				st0 = ren("D1", inner, "y")
				if hook >= 0 {
					reachedOnce.Do(func() { close(reached) })
				}
			}()
			go func() {
				defer wg.Done()
				defer close(othersDone)
				<-reached
				st1 = ren("D1", root, "z")
				st2 = ren("D0", root, "D1")
			}()
			wg.Wait()
		})
		mon.SetYield(nil)
		detail := map[string]any{"client_0_held_at_hook": hook, "RENAME /D1 -> /D0/x/y": st0, "RENAME /D1 -> /z": st1, "RENAME /D0 -> /D1": st2}
		if o.Slow || o.Bad() {
			St.Class("run_not_judged")
			continue
		}
		var ferr error
		if g := Guard(10*time.Second, func() { w.S.Quiesce(); ferr = Fsck(w.S.N.VerifFsState(), FsckOpts{Exact: true, Allocators: true}).Err() }); g.Bad() || ferr != nil {
			msg := fmt.Sprintf("a rename whose source name was bound to another directory while it was under way left a disk that is not a well-formed file system: %v %v", g, ferr)
			St.Violation("C04", msg, detail)
			t.Fatalf("C04: %s\n%v", msg, detail)
		}
		w.S.Stop()
		St.Eval(1)
		St.NT(Hash("rebound", hook))
		St.Class("renames_whose_source_name_was_rebound_meanwhile")
	}
}

// COMMIT of a file held at each of its lock/commit points while another client changes the same file - removes it,
// cuts it to nothing, or extends it.  Whatever the order, what reaches the disk afterwards must be a well-formed file
// system that accounts for every block and inode (exact fsck, allocators = bitmaps), also after a restart: a COMMIT
// that writes back an inode image it took before the other request ran would leave a live inode without a name or an
// inode that points at freed blocks.  Enumerated: what the other client does x point at which COMMIT is held.
func TestC04CommitWindow(t *testing.T) {
	shard, nshards := EnvInt("VERIF_SHARD", 0), EnvInt("VERIF_NSHARDS", 1)
	St.Exhaustive(true)
	idx, run, npaused := -1, 0, 0
	for _, other := range []string{"remove", "cut", "extend", "rename-over"} {
		for hook := 0; hook < 6; hook++ {
			idx++
			if idx%nshards != shard {
				continue
			}
			d := NewDisk(9000)
			d.SetRecord(false)
			s := StartSrv(d, true, false)
			api := s.API()
			root := s.RootFH()
			c := api.NFSPROC3_CREATE(nt.CREATE3args{Where: nt.Diropargs3{Dir: root, Name: "f"}})
			g := api.NFSPROC3_CREATE(nt.CREATE3args{Where: nt.Diropargs3{Dir: root, Name: "g"}})
			if c.Status != nt.NFS3_OK || g.Status != nt.NFS3_OK {
				t.Fatalf("setup: CREATE failed")
			}
			fh := c.Resok.Obj.Handle
			api.NFSPROC3_WRITE(nt.WRITE3args{File: fh, Offset: 0, Count: 3 * BlockSize, Stable: nt.UNSTABLE, Data: patternData(41, 3*BlockSize)})
			mon := s.Mon()
			reached, othersDone := make(chan struct{}), make(chan struct{})
			var reachedOnce sync.Once
			var gid0 uint64
			var nhook int32
			paused := false
			mon.SetYield(func(point string) {
				if goid() != atomic.LoadUint64(&gid0) {
					return
				}
				if int(atomic.AddInt32(&nhook, 1))-1 != hook {
					return
				}
				paused = true
				reachedOnce.Do(func() { close(reached) })
				select {
				case <-othersDone:
				case <-time.After(100 * time.Millisecond):
				}
			})
			var st0, st1 nt.Nfsstat3
			done0 := make(chan struct{})
			o := Guard(30*time.Second, func() {
				go func() {
					defer close(done0)
					defer reachedOnce.Do(func() { close(reached) })
					atomic.StoreUint64(&gid0, goid())
					st0 = api.NFSPROC3_COMMIT(nt.COMMIT3args{File: fh, Offset: 0, Count: 0}).Status
				}()
				<-reached
				switch other {
				case "remove":
					st1 = api.NFSPROC3_REMOVE(nt.REMOVE3args{Object: nt.Diropargs3{Dir: root, Name: "f"}}).Status
				case "cut":
					st1 = api.NFSPROC3_SETATTR(nt.SETATTR3args{Object: fh, New_attributes: nt.Sattr3{Size: nt.Set_size3{Set_it: true, Size: 0}}}).Status
				case "extend":
					st1 = api.NFSPROC3_WRITE(nt.WRITE3args{File: fh, Offset: 20 * BlockSize, Count: 2 * BlockSize, Stable: nt.FILE_SYNC, Data: patternData(42, 2*BlockSize)}).Status
				case "rename-over":
					st1 = api.NFSPROC3_RENAME(nt.RENAME3args{From: nt.Diropargs3{Dir: root, Name: "g"}, To: nt.Diropargs3{Dir: root, Name: "f"}}).Status
				}
				close(othersDone)
				<-done0
			})
			mon.SetYield(nil)
			detail := map[string]any{"other_client": other, "COMMIT_held_at_its_lock_or_commit_point": hook, "held": paused, "COMMIT": st0, "other": st1}
			fail := func(format string, a ...any) {
				msg := fmt.Sprintf(format, a...)
				St.Violation("C04", msg, detail)
				t.Fatalf("C04: %s\n%v", msg, detail)
			}
			if o.Slow || o.Bad() {
				St.Class("run_not_judged")
				continue
			}
			for _, when := range []string{"after both requests returned", "after a restart"} {
				var ferr error
				if q := Guard(20*time.Second, func() { s.Quiesce(); ferr = Fsck(s.N.VerifFsState(), FsckOpts{Exact: true, Allocators: true}).Err() }); q.Slow {
					St.Class("run_not_judged")
					break
				} else if q.Bad() || ferr != nil {
					fail("COMMIT of /f next to %s of the same file, %s: %v %v", other, when, q, ferr)
				}
				if when == "after both requests returned" {
					s.Restart()
				}
			}
			s.Stop()
			run++
			if paused {
				npaused++
				St.NT(Hash("c04commitwindow", other, hook))
			}
			St.Eval(1)
		}
	}
	St.ClassN("commit_window_cases", run)
	St.ClassN("commit_window_cases_with_the_commit_held", npaused)
}
