package checks

// The reference file system: a plain in-memory tree.  Handles and file
// ids are learned from the server's replies, never predicted.

import (
	"bytes"
	"fmt"
	"sort"

	nt "github.com/mit-pdos/go-nfsd/nfstypes"
)

type MNode struct {
	ID       int
	Kind     nt.Ftype3
	Parent   *MNode
	Name     string
	Children map[string]*MNode // directories
	Size     uint64            // regular files
	Blocks   map[uint64][]byte // regular files: sparse content, immutable 4096-byte blocks
	Target   string            // symbolic links
	FH       []byte            // learned from the reply that created the object
	Fileid   uint64
	Alive    bool
	Born     int  // index of the operation that created it
	Opaque   bool // a directory whose contents the reference does not track (prefilled)
}

type Limits struct {
	NameMax     uint64
	WtMax       uint64
	RtMax       uint64
	MaxFileSize uint64
}

type Model struct {
	Root *MNode
	Objs []*MNode // every object ever created, by ID
	Lim  Limits
	NOps int
}

func NewModel(rootFH []byte, lim Limits) *Model {
	root := &MNode{ID: 0, Kind: nt.NF3DIR, Children: map[string]*MNode{}, FH: rootFH, Fileid: 1, Alive: true}
	root.Parent = root
	return &Model{Root: root, Objs: []*MNode{root}, Lim: lim}
}

func (n *MNode) IsDir() bool { return n != nil && n.Kind == nt.NF3DIR }

func (n *MNode) Path() string {
	if n.Parent == n {
		return "/"
	}
	if !n.Alive {
		return fmt.Sprintf("<dead #%d %s>", n.ID, n.Name)
	}
	for x, k := n, 0; x.Parent != x; x, k = x.Parent, k+1 {
		if k > 10000 {
			return fmt.Sprintf("<cycle at #%d %s>", n.ID, n.Name) // only on a broken reference model
		}
	}
	p := n.Parent.Path()
	if p == "/" {
		return "/" + n.Name
	}
	return p + "/" + n.Name
}

func (n *MNode) Depth() int {
	d := 0
	for x := n; x.Parent != x; x = x.Parent {
		d++
	}
	return d
}

// IsAncestorOf reports whether n is d or an ancestor of d.
func (n *MNode) IsAncestorOf(d *MNode) bool {
	for x := d; ; x = x.Parent {
		if x == n {
			return true
		}
		if x.Parent == x {
			return false
		}
	}
}

func (m *Model) LegalNewName(name string) bool {
	return name != "." && name != ".." && uint64(len(name)) <= m.Lim.NameMax
}

// Lookup resolves name in dir the way the server does ("." and ".." included).
func (m *Model) Lookup(dir *MNode, name string) *MNode {
	if dir == nil || !dir.IsDir() {
		return nil
	}
	switch name {
	case ".":
		return dir
	case "..":
		return dir.Parent
	}
	return dir.Children[name]
}

func (m *Model) newNode(kind nt.Ftype3, dir *MNode, name string) *MNode {
	n := &MNode{ID: len(m.Objs), Kind: kind, Parent: dir, Name: name, Alive: true, Born: m.NOps}
	if kind == nt.NF3DIR {
		n.Children = map[string]*MNode{}
	}
	if kind == nt.NF3REG {
		n.Blocks = map[uint64][]byte{}
	}
	m.Objs = append(m.Objs, n)
	dir.Children[name] = n
	return n
}

// CanCreate says whether CREATE/MKDIR/SYMLINK of name in dir succeeds.
func (m *Model) CanCreate(dir *MNode, name string) bool {
	if dir == nil || !dir.IsDir() {
		return false
	}
	if !m.LegalNewName(name) {
		return false
	}
	_, exists := dir.Children[name]
	return !exists
}

func (m *Model) Create(dir *MNode, name string, kind nt.Ftype3, target string) *MNode {
	n := m.newNode(kind, dir, name)
	if kind == nt.NF3LNK {
		n.Target = target
		n.Size = uint64(len(target))
	}
	return n
}

func (m *Model) kill(n *MNode) {
	n.Alive = false
}

// CanRemove: REMOVE (isdir=false) or RMDIR (isdir=true) of name in dir.
func (m *Model) CanRemove(dir *MNode, name string, rmdir bool) bool {
	if dir == nil || !dir.IsDir() || name == "." || name == ".." {
		return false
	}
	n := dir.Children[name]
	if n == nil {
		return false
	}
	if rmdir && !n.IsDir() {
		return false
	}
	if n.IsDir() && len(n.Children) > 0 {
		return false
	}
	return true
}

func (m *Model) Remove(dir *MNode, name string) *MNode {
	n := dir.Children[name]
	delete(dir.Children, name)
	m.kill(n)
	return n
}

// CanRename mirrors RFC 1813 RENAME with the server's documented choices.
func (m *Model) CanRename(fd *MNode, fn string, td *MNode, tn string) bool {
	if fn == "." || fn == ".." || tn == "." || tn == ".." {
		return false
	}
	if fd == nil || td == nil || !fd.IsDir() || !td.IsDir() {
		return false
	}
	src := fd.Children[fn]
	if src == nil {
		return false
	}
	dst := td.Children[tn]
	if dst == src {
		return true // same object: successful no-op
	}
	if uint64(len(tn)) > m.Lim.NameMax {
		return false
	}
	if src.IsDir() {
		// a directory cannot be moved into itself or into a directory below it
		for n, i := td, 0; i < 1<<16; n, i = n.Parent, i+1 {
			if n == src {
				return false
			}
			if n.Parent == n || n.Parent == nil {
				break
			}
		}
	}
	if dst != nil {
		if dst.Kind != src.Kind {
			return false
		}
		if dst.IsDir() && len(dst.Children) > 0 {
			return false
		}
	}
	return true
}

// Rename applies a rename CanRename allowed; returns the replaced object (or nil).
func (m *Model) Rename(fd *MNode, fn string, td *MNode, tn string) *MNode {
	src := fd.Children[fn]
	dst := td.Children[tn]
	if dst == src {
		return nil
	}
	if dst != nil {
		delete(td.Children, tn)
		m.kill(dst)
	}
	delete(fd.Children, fn)
	td.Children[tn] = src
	src.Parent = td
	src.Name = tn
	return dst
}

// ---- file contents ----

func (n *MNode) blockAt(b uint64) []byte {
	if blk, ok := n.Blocks[b]; ok {
		return blk
	}
	return zeroBlock
}

// ReadAt returns the bytes [off, off+cnt) clipped to the file size.
func (n *MNode) ReadAt(off, cnt uint64) []byte {
	if off >= n.Size {
		return nil
	}
	if cnt > n.Size-off {
		cnt = n.Size - off
	}
	out := make([]byte, 0, cnt)
	for cnt > 0 {
		b, o := off/BlockSize, off%BlockSize
		k := BlockSize - o
		if k > cnt {
			k = cnt
		}
		out = append(out, n.blockAt(b)[o:o+k]...)
		off += k
		cnt -= k
	}
	return out
}

func (n *MNode) WriteAt(off uint64, data []byte) {
	end := off + uint64(len(data))
	for len(data) > 0 {
		b, o := off/BlockSize, off%BlockSize
		k := BlockSize - o
		if k > uint64(len(data)) {
			k = uint64(len(data))
		}
		nb := make([]byte, BlockSize)
		copy(nb, n.blockAt(b))
		copy(nb[o:], data[:k])
		n.Blocks[b] = nb
		data = data[k:]
		off += k
	}
	if end > n.Size {
		n.Size = end
	}
}

// Truncate sets the size; bytes beyond the new size are gone for good.
func (n *MNode) Truncate(sz uint64) {
	if sz < n.Size {
		for b := range n.Blocks {
			if b*BlockSize >= sz {
				delete(n.Blocks, b)
			}
		}
		if sz%BlockSize != 0 {
			b := sz / BlockSize
			if blk, ok := n.Blocks[b]; ok {
				nb := make([]byte, BlockSize)
				copy(nb, blk[:sz%BlockSize])
				n.Blocks[b] = nb
			}
		}
	}
	n.Size = sz
}

// ---- snapshots (for the crash oracle) ----

// Snapshot returns a deep copy of the tree; data blocks are shared (they are immutable).
func (m *Model) Snapshot() *Model {
	c := &Model{Lim: m.Lim, NOps: m.NOps, Objs: make([]*MNode, len(m.Objs))}
	for i, n := range m.Objs {
		nn := *n
		if n.Children != nil {
			nn.Children = make(map[string]*MNode, len(n.Children))
		}
		if n.Blocks != nil {
			nn.Blocks = make(map[uint64][]byte, len(n.Blocks))
			for b, blk := range n.Blocks {
				nn.Blocks[b] = blk
			}
		}
		c.Objs[i] = &nn
	}
	for i, n := range m.Objs {
		cn := c.Objs[i]
		if n.Parent != nil {
			cn.Parent = c.Objs[n.Parent.ID]
		}
		for name, ch := range n.Children {
			cn.Children[name] = c.Objs[ch.ID]
		}
	}
	c.Root = c.Objs[0]
	return c
}

// Live returns the live objects in creation order.
func (m *Model) Live() []*MNode {
	var l []*MNode
	for _, n := range m.Objs {
		if n.Alive {
			l = append(l, n)
		}
	}
	return l
}

func (m *Model) LiveKind(kind nt.Ftype3) []*MNode {
	var l []*MNode
	for _, n := range m.Objs {
		if n.Alive && n.Kind == kind {
			l = append(l, n)
		}
	}
	return l
}

func (m *Model) Dead() []*MNode {
	var l []*MNode
	for _, n := range m.Objs {
		if !n.Alive && n.FH != nil {
			l = append(l, n)
		}
	}
	return l
}

func sortedNames(ch map[string]*MNode) []string {
	names := make([]string, 0, len(ch))
	for k := range ch {
		names = append(names, k)
	}
	sort.Strings(names)
	return names
}

// Describe renders the tree compactly (for failure reports and samples).
func (m *Model) Describe() []string {
	var out []string
	var walk func(n *MNode, path string)
	walk = func(n *MNode, path string) {
		for _, name := range sortedNames(n.Children) {
			c := n.Children[name]
			p := path + "/" + name
			if len(name) > 24 {
				p = fmt.Sprintf("%s/%s...(%d bytes)", path, name[:8], len(name))
			}
			switch c.Kind {
			case nt.NF3DIR:
				out = append(out, p+"/")
				walk(c, p)
			case nt.NF3LNK:
				out = append(out, fmt.Sprintf("%s -> %q", p, trunc(c.Target, 30)))
			default:
				out = append(out, fmt.Sprintf("%s size=%d blocks=%d", p, c.Size, len(c.Blocks)))
			}
		}
	}
	walk(m.Root, "")
	return out
}

func trunc(s string, n int) string {
	if len(s) > n {
		return fmt.Sprintf("%s...(%d bytes)", s[:n], len(s))
	}
	return s
}

// pattern data: a block of data derived from a tag so that foreign bytes are recognisable.
func patternData(tag uint32, n uint64) []byte {
	b := make([]byte, n)
	x := tag*2654435761 + 12345
	for i := range b {
		if i%16 == 0 {
			b[i] = byte(tag)
		} else if i%16 == 1 {
			b[i] = byte(tag >> 8)
		} else {
			x = x*1103515245 + 12345
			b[i] = byte(x>>16) | 1 // never zero: zero means "never written"
		}
	}
	if n > 0 && b[0] == 0 {
		b[0] = 0xff
	}
	for i := range b {
		if b[i] == 0 {
			b[i] = 0xa5
		}
	}
	return b
}

func firstDiff(a, b []byte) int {
	n := len(a)
	if len(b) < n {
		n = len(b)
	}
	for i := 0; i < n; i++ {
		if a[i] != b[i] {
			return i
		}
	}
	if len(a) != len(b) {
		return n
	}
	return -1
}

var _ = bytes.Equal
