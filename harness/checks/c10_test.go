package checks

// C10 - the running server and a restart from its disk are indistinguishable.

import (
	"bytes"
	"fmt"
	"hash/fnv"
	"testing"
	"time"

	"github.com/mit-pdos/go-journal/buf"
	"github.com/mit-pdos/go-journal/common"
	"github.com/mit-pdos/go-nfsd/dir"
	"github.com/mit-pdos/go-nfsd/fh"
	"github.com/mit-pdos/go-nfsd/inode"
	nt "github.com/mit-pdos/go-nfsd/nfstypes"
	"pgregory.net/rapid"
)

// dumpServer returns everything a client can observe: for every object reachable from the root,
// in listing order, its name, cookie, handle, all attributes (times included), and content.
func dumpServer(api API, root nt.Nfs_fh3) ([]string, error) {
	var out []string
	var walk func(path string, fh nt.Nfs_fh3, depth int) error
	walk = func(path string, fh nt.Nfs_fh3, depth int) error {
		if depth > 12 {
			return fmt.Errorf("tree deeper than 12 at %s", path)
		}
		x := &Exec{}
		ents, st, err := x.ListDir(api, fh, true, 8192)
		if err != nil || st != nt.NFS3_OK {
			return fmt.Errorf("READDIRPLUS of %s: status %d, %v", path, st, err)
		}
		plain, st2, err2 := x.ListDir(api, fh, false, 700)
		if err2 != nil || st2 != nt.NFS3_OK {
			return fmt.Errorf("READDIR of %s: status %d, %v", path, st2, err2)
		}
		for i, e := range plain {
			out = append(out, fmt.Sprintf("%s: READDIR[%d] %q id=%d cookie=%d", path, i, e.Name, e.Fileid, e.Cookie))
		}
		for i, e := range ents {
			if e.Attr == nil || e.FH == nil {
				return fmt.Errorf("READDIRPLUS of %s: entry %q without handle or attributes", path, e.Name)
			}
			out = append(out, fmt.Sprintf("%s: READDIRPLUS[%d] %q id=%d cookie=%d fh=%x attr=%+v", path, i, e.Name, e.Fileid, e.Cookie, e.FH, *e.Attr))
			if e.Name == "." || e.Name == ".." {
				continue
			}
			p := path + "/" + e.Name
			h := nt.Nfs_fh3{Data: e.FH}
			lk := api.NFSPROC3_LOOKUP(nt.LOOKUP3args{What: nt.Diropargs3{Dir: fh, Name: nt.Filename3(e.Name)}})
			ga := api.NFSPROC3_GETATTR(nt.GETATTR3args{Object: h})
			out = append(out, fmt.Sprintf("%s: LOOKUP status=%d fh=%x; GETATTR status=%d %+v", p, lk.Status, lk.Resok.Object.Data, ga.Status, ga.Resok.Obj_attributes))
			switch e.Attr.Ftype {
			case nt.NF3DIR:
				if err := walk(p, h, depth+1); err != nil {
					return err
				}
			case nt.NF3LNK:
				rl := api.NFSPROC3_READLINK(nt.READLINK3args{Symlink: h})
				out = append(out, fmt.Sprintf("%s: READLINK status=%d %q", p, rl.Status, trunc(string(rl.Resok.Data), 64)))
			case nt.NF3REG:
				hsh := fnv.New64a()
				size := uint64(e.Attr.Size)
				var got uint64
				for off := uint64(0); off < size; {
					r := api.NFSPROC3_READ(nt.READ3args{File: h, Offset: nt.Offset3(off), Count: 64 * 1024})
					if r.Status != nt.NFS3_OK || len(r.Resok.Data) == 0 {
						out = append(out, fmt.Sprintf("%s: READ at %d status=%d len=%d eof=%v", p, off, r.Status, len(r.Resok.Data), r.Resok.Eof))
						break
					}
					hsh.Write(r.Resok.Data)
					off += uint64(len(r.Resok.Data))
					got = off
				}
				out = append(out, fmt.Sprintf("%s: content %d bytes hash=%x", p, got, hsh.Sum64()))
			}
		}
		return nil
	}
	ga := api.NFSPROC3_GETATTR(nt.GETATTR3args{Object: root})
	out = append(out, fmt.Sprintf("/: GETATTR status=%d %+v", ga.Status, ga.Resok.Obj_attributes))
	err := walk("", root, 0)
	return out, err
}

func diffDumps(a, b []string) string {
	for i := 0; i < len(a) && i < len(b); i++ {
		if a[i] != b[i] {
			return fmt.Sprintf("first difference at line %d:\n    running server : %s\n    restarted      : %s", i, a[i], b[i])
		}
	}
	if len(a) != len(b) {
		return fmt.Sprintf("the running server's dump has %d lines, the restarted one %d", len(a), len(b))
	}
	return ""
}

func TestC10Equiv(t *testing.T) {
	rapid.Check(t, func(t *rapid.T) {
		x, cc := newSeqCase(t, "C10", 14000, 0)
		defer func() { x.S.Stop() }()
		x.Budget = 6000
		cfg := DefaultCfg()
		cfg.BadRefs, cfg.WrongKind, cfg.HugeOffsets, cfg.BigWrites, cfg.MaxWriteBlks, cfg.Restarts = 8, 6, false, false, 12, false
		excluded := 0
		cfg.Excluded = &excluded
		g := NewGen(x, cfg)
		cut := false
		checkpointNow := false
		// settle: background freeing finished; the journal is flushed by hand only when unstable data is pending - when
		// every acknowledgement so far was a stable one, everything must be on the device already, and the comparison
		// with a server started on the disk is made without helping
		settle := func() {
			if x.Unflushed {
				x.S.Quiesce()
			} else {
				x.S.N.VerifWaitShrinkers()
				St.Class("comparisons_without_flushing_by_hand")
			}
		}
		fail := func(format string, a ...any) {
			failf(t, "C10", map[string]any{"history": headLog(x.Log, 80), "unstable": cc.Unstable}, format, a...)
		}
		base := g.Actions(func(t *rapid.T, err error) { cut = true })
		acts := map[string]func(*rapid.T){}
		for _, k := range []string{"create", "create2", "mkdir", "write", "write2", "write3", "symlink", "setattr", "setattr2", "read",
			"remove", "remove2", "rmdir", "rename", "rename2", "movedir", "lookup", "readdir", "readdirplus", "misc", "commit"} {
			acts[k] = base[k]
		}
		nbulk := 0
		acts["bulk"] = func(t *rapid.T) {
			if nbulk >= 2 {
				t.Skip("enough bulk creations")
			}
			nbulk++
			base["bulk"](t)
		}
		// offsets in the indirect ranges without making files huge
		acts["growdata"] = func(t *rapid.T) {
			files := x.M.LiveKind(nt.NF3REG)
			if len(files) == 0 {
				t.Skip("no file")
			}
			f := pick(t, files, "file")
			off := uint64(pick(t, []int{7, 8, 9, 300, 519, 520, 521, 600}, "block"))*BlockSize + uint64(pick(t, []int{0, 1, 4000}, "in"))
			if x.Write(LiveRef(f), off, patternData(g.nextTag(), 5000), 5000, pick(t, g.Cfg.Stable, "stable")) != nil {
				cut = true
			}
		}
		// SETATTRs that must be refused (size beyond the maximum, size of a directory) although they also carry times
		acts["setattr_refused"] = func(t *rapid.T) {
			var r Ref
			sz := x.M.Lim.MaxFileSize + uint64(pick(t, []int{1, 4096, 1 << 20}, "beyond"))
			if dirs := x.M.LiveKind(nt.NF3DIR); rapid.Bool().Draw(t, "ondir") && len(dirs) > 0 {
				r = LiveRef(pick(t, dirs, "dir"))
				sz = uint64(pick(t, []int{0, 100, 4096}, "dirsize"))
			} else if files := x.M.LiveKind(nt.NF3REG); len(files) > 0 {
				r = LiveRef(pick(t, files, "file"))
			} else {
				t.Skip("no object")
			}
			if x.Setattr(r, &sz, true) != nil {
				cut = true
			}
		}
		// a SETATTR of one attribute only (atime, mtime, mode), followed at once by the comparison with a server
		// started on the disk: what the reply showed must be there
		acts["setattr_one_then_compare"] = func(t *rapid.T) {
			objs := x.M.Live()
			if cut || len(objs) == 0 {
				t.Skip("nothing to touch")
			}
			if x.SetattrOne(LiveRef(pick(t, objs, "obj")), rapid.IntRange(0, 3).Draw(t, "which")) != nil {
				cut = true
				return
			}
			checkpointNow = true
		}
		ncheck, nAbortMod, nEvict, nAfterRebuild := 0, 0, 0, 0
		abortsSeen := int64(0)
		checkpoint := func(t *rapid.T) {
			// quiescent: no request in flight, background freeing finished, all stable data flushed
			var dumpA, dumpB []string
			var errA, errB, cerr, ferr error
			nontrivial := false
			mon := x.S.Mon()
			if mon.AbortsModified > abortsSeen {
				abortsSeen = mon.AbortsModified
				nAbortMod++
				nontrivial = true
			}
			if len(x.M.Live()) > 100 {
				nEvict++
				nontrivial = true
			}
			o := Guard(x.Watchdog, func() {
				settle()
				fs := x.S.N.VerifFsState()
				cerr = CacheCoherent(fs)
				ferr = Fsck(fs, FsckOpts{Allocators: true}).Err()
				dumpA, errA = dumpServer(x.S.API(), x.S.RootFH())
				settle()
				// recovery from the image at this point
				img := x.S.D.Clone()
				img.SetRecord(false)
				b := StartSrv(img, cc.Unstable, false)
				dumpB, errB = dumpServer(b.API(), b.RootFH())
				b.Stop()
			})
			if o.Slow {
				St.Class("call_too_slow_for_the_harness_not_judged")
				cut = true
				return
			}
			if o.Bad() {
				fail("checkpoint: %v", o)
			}
			if cerr != nil {
				fail("at a quiescent point %v", cerr)
			}
			if ferr != nil && containsCat(ferr, "[allocator]") {
				fail("at a quiescent point the allocators disagree with the disk: %v", ferr)
			}
			if errA != nil || errB != nil {
				fail("dump failed: running %v, restarted %v", errA, errB)
			}
			if d := diffDumps(dumpA, dumpB); d != "" {
				fail("a server started on the disk image of the running server (recovery) does not behave like it: %s", d)
			}
			ncheck++
			St.Eval(1)
			if nontrivial {
				St.NT(Hash(x.Log, ncheck))
			}
		}
		acts["cleanrestart"] = func(t *rapid.T) {
			if cut {
				t.Skip("case cut short")
			}
			// dump, restart cleanly, dump again
			var before, after []string
			var e1, e2 error
			if x.Unflushed && x.lastUnstable != nil && x.lastUnstable.Alive {
				if x.Commit(LiveRef(x.lastUnstable), 0, 0) != nil {
					cut = true
					return
				}
			}
			o := Guard(x.Watchdog, func() {
				settle()
				before, e1 = dumpServer(x.S.API(), x.S.RootFH())
			})
			if o.Slow {
				St.Class("call_too_slow_for_the_harness_not_judged")
				cut = true
				return
			}
			if o.Bad() || e1 != nil {
				fail("dump before restart: %v %v", o, e1)
			}
			if x.Restart() != nil {
				cut = true
				return
			}
			o = Guard(x.Watchdog, func() { after, e2 = dumpServer(x.S.API(), x.S.RootFH()) })
			if o.Slow {
				St.Class("call_too_slow_for_the_harness_not_judged")
				cut = true
				return
			}
			if o.Bad() || e2 != nil {
				fail("dump after restart: %v %v", o, e2)
			}
			if d := diffDumps(before, after); d != "" {
				fail("a clean restart changed what a client observes: %s", d)
			}
			nAfterRebuild++
			abortsSeen = 0
			St.Eval(1)
			St.NT(Hash(x.Log, "restart"))
		}
		steps := 0
		acts[""] = func(t *rapid.T) {
			steps++
			if cut || x.Budget < 100 {
				t.Skip("case cut short")
			}
			if steps%10 == 0 || checkpointNow {
				checkpointNow = false
				checkpoint(t)
			}
		}
		t.Repeat(acts)
		if !cut {
			checkpoint(t)
		}
		St.ClassN("quiescent_points_compared_with_recovery_from_image", ncheck)
		St.ClassN("clean_restarts_compared", nAfterRebuild)
		St.ClassN("points_after_an_abort_of_a_modified_transaction", nAbortMod)
		St.ClassN("points_with_more_objects_than_the_inode_cache", nEvict)
		if cut {
			St.Class("case_cut_short_by_another_oracle")
		}
		if excluded > 0 {
			St.ClassN("excluded_known_finding_draws", excluded)
		}
		if St.WantSample(nAbortMod+nEvict+nAfterRebuild > 0) {
			St.Sample(map[string]any{"kind": "history with quiescent checkpoints", "checkpoints": ncheck, "clean_restarts": nAfterRebuild,
				"live_objects": len(x.M.Live()), "history": headLog(x.Log, 50)}, nAbortMod+nEvict+nAfterRebuild > 0)
		}
	})
}

func containsCat(err error, cat string) bool {
	return err != nil && bytes.Contains([]byte(err.Error()), []byte(cat))
}

// Codec round trips: what is cached is what is on disk only if encode and decode are inverse.
func TestC10Codec(t *testing.T) {
	rapid.Check(t, func(t *rapid.T) {
		// inode: decode(b) re-encodes to b for any 128-byte image
		b := rapid.SliceOfN(rapid.Byte(), 128, 128).Draw(t, "inodebytes")
		ip := inode.Decode(&buf.Buf{Data: b}, common.Inum(rapid.Uint64Range(0, 32767).Draw(t, "inum")))
		if e := ip.Encode(); !bytes.Equal(e, b) {
			failf(t, "C10", nil, "inode image does not survive decode+encode: first difference at byte %d", firstDiff(e, b))
		}
		// directory entry
		name := string(rapid.SliceOfN(rapid.Byte(), 0, int(dir.MAXNAMELEN)).Draw(t, "name"))
		inum := rapid.Uint64().Draw(t, "entinum")
		ent := dir.VerifEncodeDirEnt(common.Inum(inum), name)
		gi, gn := dir.VerifDecodeDirEnt(ent)
		if len(ent) != int(dir.DIRENTSZ) || uint64(gi) != inum || gn != name {
			failf(t, "C10", nil, "directory entry (%d, %q) decodes to (%d, %q), %d bytes", inum, name, gi, gn, len(ent))
		}
		// handle
		h := fh.Fh{Ino: common.Inum(rapid.Uint64().Draw(t, "ino")), Gen: rapid.Uint64().Draw(t, "gen")}
		if back := fh.MakeFh(h.MakeFh3()); back != h {
			failf(t, "C10", nil, "handle %+v decodes to %+v", h, back)
		}
		St.Eval(1)
		St.NT(Hash("codec", b[:8], name, h))
	})
}

// After concurrent programs: once all clients have returned and background work is done, the running server must
// be indistinguishable from one started on its disk, and its caches and allocators must agree with the disk -
// whatever order the requests took effect in.  (Same programs as the C03 unit, with a working set larger than
// the inode cache in a third of the cases, so that inodes are evicted while other requests wait for their locks.)
func TestC10Conc(t *testing.T) {
	rapid.Check(t, func(t *rapid.T) {
		cfg := cGenCfg{RootPlus: true, DataOps: true, NameOps: true, DirRename: true, BigTrunc: rapid.IntRange(0, 3).Draw(t, "bigtrunc") == 0,
			Focus: rapid.Bool().Draw(t, "focus"), FocusDir: rapid.IntRange(0, 2).Draw(t, "focusdir"), HandleOps: rapid.Bool().Draw(t, "handleops")}
		bigset := rapid.IntRange(0, 2).Draw(t, "bigset") == 0
		cfg.Sweep = bigset
		cc := genConcCase(t, cfg, 0)
		size := uint64(9000)
		fulldisk := !bigset && rapid.IntRange(0, 3).Draw(t, "fulldisk") == 0
		if fulldisk {
			size = 1540 + 80
		}
		d := NewDisk(size)
		d.SetRecord(false)
		w, err := setupWorld(cc.Unstable, cc.LowChildren, d)
		if err != nil {
			failf(t, "C10", nil, "setup: %v", err)
		}
		defer func() { w.S.Stop() }()
		if bigset {
			if err := w.addExtras(130); err != nil {
				failf(t, "C10", nil, "setup: %v", err)
			}
		}
		if fulldisk {
			w.FullDisk = true
			w.exec(w.S.API(), cOp{Kind: "write", File: 0, Off: 0, Data: string(patternData(999, 8000)), Stable: 2})
			if err := fillWorld(w, uint64(rapid.IntRange(0, 2).Draw(t, "freeblocks"))); err != nil {
				t.Skip("could not fill the disk")
			}
			for c := range cc.Progs {
				for i := range cc.Progs[c] {
					cc.Progs[c][i].MayFail = true
				}
			}
		}
		run := w.runConcurrent(cc.Progs, cc.YieldSeed, false, 60*time.Second, cc.Pause)
		detail := cc.describe()
		detail["history"] = describeHistory(run.Ops)
		if run.Slow || run.Hung || run.Panic != "" {
			St.Class("run_not_judged")
			t.Skip("not judged here (C06/C11)")
		}
		var dumpA, dumpB []string
		var errA, errB, cerr, ferr error
		o := Guard(60*time.Second, func() {
			w.S.Quiesce()
			fs := w.S.N.VerifFsState()
			cerr = CacheCoherent(fs)
			ferr = Fsck(fs, FsckOpts{Allocators: true}).Err()
			dumpA, errA = dumpServer(w.S.API(), w.S.RootFH())
			w.S.Quiesce()
			img := w.S.D.Clone()
			img.SetRecord(false)
			b := StartSrv(img, cc.Unstable, false)
			dumpB, errB = dumpServer(b.API(), b.RootFH())
			b.Stop()
		})
		if o.Slow {
			St.Class("call_too_slow_for_the_harness_not_judged")
			t.Skip("harness too slow")
		}
		if o.Bad() {
			failf(t, "C10", detail, "after the concurrent programs: %v", o)
		}
		if cerr != nil {
			failf(t, "C10", detail, "after the concurrent programs, at a quiescent point %v", cerr)
		}
		if ferr != nil && containsCat(ferr, "[allocator]") {
			failf(t, "C10", detail, "after the concurrent programs the allocators disagree with the disk: %v", ferr)
		}
		if errA != nil || errB != nil {
			if fulldisk {
				St.Class("dump_failed_on_a_full_disk_not_judged")
				t.Skip("dump failed on a full disk")
			}
			failf(t, "C10", detail, "dump failed: running %v, restarted %v", errA, errB)
		}
		if d := diffDumps(dumpA, dumpB); d != "" && !fulldisk {
			// on a full disk the dump itself (reads of holes) may be cut short differently; compare only with space
			failf(t, "C10", detail, "after the concurrent programs a server started on the disk image does not behave like the running one: %s", d)
		}
		St.Eval(1)
		St.Class("quiescent_points_after_concurrent_programs")
		if conflicting(run.Ops) > 0 {
			St.NT(Hash("conc", describeHistory(run.Ops)))
		}
		if bigset {
			St.Class("concurrent_programs_with_a_working_set_larger_than_the_inode_cache")
		}
		if fulldisk {
			St.Class("concurrent_programs_on_a_full_disk")
		}
		if St.WantSample(bigset) {
			St.Sample(map[string]any{"kind": "concurrent programs, then running server vs. server started on its disk", "case": cc.describe(), "dump_lines": len(dumpA)}, true)
		}
	})
}
