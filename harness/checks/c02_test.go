package checks

// C02 - sequential NFSv3 semantics match the reference file system.

import (
	"testing"

	"pgregory.net/rapid"
)

const seqDiskSize = 14000

type caseCfg struct {
	Unstable bool
	ViaRPC   bool
}

// newSeqCase formats a fresh disk, starts a server and the oracle.
func newSeqCase(t *rapid.T, prop string, size uint64, rpcPct int) (*Exec, caseCfg) {
	cfg := caseCfg{Unstable: rapid.Bool().Draw(t, "unstable"), ViaRPC: pct(t, rpcPct, "viaRPC")}
	d := NewDisk(size)
	d.SetRecord(false)
	s := StartSrv(d, cfg.Unstable, cfg.ViaRPC)
	x, err := NewExec(s, prop)
	if err != nil {
		s.Stop()
		failf(t, prop, nil, "%v", err)
	}
	return x, cfg
}

func TestC02Seq(t *testing.T) {
	rapid.Check(t, func(t *rapid.T) {
		x, cc := newSeqCase(t, "C02", seqDiskSize, 20)
		defer func() { x.S.Stop() }()
		x.Budget = 9000
		excluded := 0
		cfg := DefaultCfg()
		cfg.Excluded = &excluded
		cfg.RegrowAfterCut = true
		g := NewGen(x, cfg)
		steps := 0
		fail := func(t *rapid.T, err error) {
			failf(t, "C02", map[string]any{"history": x.Log, "unstable": cc.Unstable, "rpc": cc.ViaRPC}, "%v", err)
		}
		acts := g.Actions(fail)
		nbulk := 0
		bulk := acts["bulk"]
		acts["bulk"] = func(t *rapid.T) {
			if nbulk >= 2 {
				t.Skip("enough bulk creations")
			}
			nbulk++
			bulk(t)
		}
		acts[""] = func(t *rapid.T) {
			steps++
			if x.Budget < 100 {
				t.Skip("space budget used up")
			}
			if steps%16 == 0 {
				if err := x.CompareAll(); err != nil {
					fail(t, err)
				}
			}
		}
		t.Repeat(acts)
		if err := x.CompareAll(); err != nil {
			fail(t, err)
		}
		// and once more from a cold start
		if err := x.Restart(); err != nil {
			fail(t, err)
		}
		if err := x.CompareAll(); err != nil {
			fail(t, err)
		}
		recordSeqCase("C02", x, g, cc, excluded)
	})
}

// recordSeqCase classifies a finished sequential case for the evidence.
func recordSeqCase(prop string, x *Exec, g *Gen, cc caseCfg, excluded int) {
	St.Eval(1)
	St.ClassN("rpcs", x.NOk+x.NFailed)
	St.ClassN("rpcs_failed", x.NFailed)
	for k, v := range g.Kinds {
		St.ClassN("op_"+k, v)
	}
	if excluded > 0 {
		St.ClassN("excluded_known_finding_draws", excluded)
	}
	var feats []string
	if x.NRestarts > 1 { // the final restart is always there
		feats = append(feats, "restart")
		St.Class("case_with_restart")
	}
	if g.CrossedIndirect {
		feats = append(feats, "indirect")
		St.Class("case_crossing_indirection")
	}
	if g.ShrinkThenGrow {
		feats = append(feats, "shrink-grow")
		St.Class("case_shrink_then_grow")
	}
	if g.FailedThenMore {
		feats = append(feats, "failed-then-more")
		St.Class("case_failed_op_then_more")
	}
	if cc.ViaRPC {
		feats = append(feats, "rpc")
		St.Class("case_via_rpc")
	}
	if cc.Unstable {
		St.Class("case_unstable_on")
	} else {
		St.Class("case_unstable_off")
	}
	nt := x.Mutations > 0 && len(feats) > 0
	if nt {
		St.NT(Hash(x.Log))
	}
	if St.WantSample(nt) {
		log := x.Log
		if len(log) > 60 {
			log = append(append([]string{}, log[:40]...), "...", log[len(log)-1])
		}
		St.Sample(map[string]any{"kind": "sequential history", "features": feats, "unstable": cc.Unstable, "rpc": cc.ViaRPC,
			"history": log, "final_tree": x.M.Describe()}, nt)
	}
}
