package checks

// Durability of acknowledged operations under concurrent clients (C01, C07).
//
// Every client works in its own directory, so what its directory must hold at the moment one of its
// stable operations is acknowledged is known exactly (its own operations so far, nothing else touches it).
// The device is recorded; at a sampled acknowledgement the image "everything issued so far, un-barriered
// writes lost" (and the plain cut) is recovered by a new server and the client's directory is compared
// with its own little model.  Other clients meanwhile run requests the journal refuses (oversized symlinks),
// big writes, and unstable writes - none of which may make an acknowledgement hollow.

import (
	"bytes"
	"fmt"
	"sort"
	"sync"
	"sync/atomic"
	"time"
	"testing"

	nt "github.com/mit-pdos/go-nfsd/nfstypes"
	"pgregory.net/rapid"
)

type caOp struct {
	Kind   string // create write commit remove rename setattr
	Name   string
	Name2  string
	Off    uint64
	Len    int
	Tag    uint32
	Stable nt.Stable_how
	Size   uint64
}

func (o caOp) String() string {
	switch o.Kind {
	case "write":
		return fmt.Sprintf("WRITE %s off=%d len=%d stable=%d", o.Name, o.Off, o.Len, o.Stable)
	case "rename":
		return fmt.Sprintf("RENAME %s -> %s", o.Name, o.Name2)
	case "setattr":
		return fmt.Sprintf("SETATTR %s size=%d", o.Name, o.Size)
	}
	return fmt.Sprintf("%s %s", o.Kind, o.Name)
}

type caModel map[string][]byte

func (m caModel) clone() caModel {
	c := caModel{}
	for k, v := range m {
		c[k] = append([]byte{}, v...)
	}
	return c
}

// apply: the effect of a successful op (ok=false: the model refuses it, the server must too).
func (m caModel) apply(o caOp) bool {
	switch o.Kind {
	case "create":
		if _, ok := m[o.Name]; ok {
			return false
		}
		m[o.Name] = []byte{}
	case "write":
		f, ok := m[o.Name]
		if !ok {
			return false
		}
		end := int(o.Off) + o.Len
		if end > len(f) {
			f = append(f, make([]byte, end-len(f))...)
		}
		copy(f[o.Off:], patternData(o.Tag, uint64(o.Len)))
		m[o.Name] = f
	case "commit":
		_, ok := m[o.Name]
		return ok
	case "remove":
		if _, ok := m[o.Name]; !ok {
			return false
		}
		delete(m, o.Name)
	case "rename":
		f, ok := m[o.Name]
		if !ok {
			return false
		}
		delete(m, o.Name)
		m[o.Name2] = f
	case "setattr":
		f, ok := m[o.Name]
		if !ok {
			return false
		}
		if int(o.Size) <= len(f) {
			f = f[:o.Size]
		} else {
			f = append(f, make([]byte, int(o.Size)-len(f))...)
		}
		m[o.Name] = f
	}
	return true
}

type caAck struct {
	Client    int
	Index     int
	Call, Ret int
	State     caModel
}

func caRead(api API, dir nt.Nfs_fh3) (caModel, error) {
	got := caModel{}
	var cookie nt.Cookie3
	var names []string
	for page := 0; page < 50; page++ {
		r := api.NFSPROC3_READDIR(nt.READDIR3args{Dir: dir, Cookie: cookie, Count: 8192})
		if r.Status != nt.NFS3_OK {
			return nil, fmt.Errorf("READDIR: %d", r.Status)
		}
		for e := r.Resok.Reply.Entries; e != nil; e = e.Nextentry {
			cookie = e.Cookie
			if n := string(e.Name); n != "." && n != ".." {
				names = append(names, n)
			}
		}
		if r.Resok.Reply.Eof {
			break
		}
	}
	for _, n := range names {
		l := api.NFSPROC3_LOOKUP(nt.LOOKUP3args{What: nt.Diropargs3{Dir: dir, Name: nt.Filename3(n)}})
		if l.Status != nt.NFS3_OK {
			return nil, fmt.Errorf("LOOKUP %s: %d", n, l.Status)
		}
		size := uint64(l.Resok.Obj_attributes.Attributes.Size)
		var data []byte
		for off := uint64(0); off < size; {
			r := api.NFSPROC3_READ(nt.READ3args{File: l.Resok.Object, Offset: nt.Offset3(off), Count: 65536})
			if r.Status != nt.NFS3_OK || len(r.Resok.Data) == 0 {
				return nil, fmt.Errorf("READ %s at %d: status %d, %d bytes", n, off, r.Status, len(r.Resok.Data))
			}
			data = append(data, r.Resok.Data...)
			off += uint64(len(r.Resok.Data))
		}
		if uint64(len(data)) > size {
			data = data[:size]
		}
		got[n] = data
	}
	return got, nil
}

func caDiff(got, want caModel) string {
	var names []string
	for n := range want {
		names = append(names, n)
	}
	for n := range got {
		if _, ok := want[n]; !ok {
			names = append(names, n)
		}
	}
	sort.Strings(names)
	for _, n := range names {
		g, gok := got[n]
		w, wok := want[n]
		switch {
		case !gok:
			return fmt.Sprintf("%s is missing (should hold %d bytes)", n, len(w))
		case !wok:
			return fmt.Sprintf("%s exists (%d bytes) but should not", n, len(g))
		case len(g) != len(w):
			return fmt.Sprintf("%s has size %d, should be %d", n, len(g), len(w))
		case !bytes.Equal(g, w):
			for i := range g {
				if g[i] != w[i] {
					return fmt.Sprintf("%s differs at byte %d (block %d)", n, i, i/BlockSize)
				}
			}
		}
	}
	return ""
}

func genCaProg(t *rapid.T, n int, unstableBias bool, tag *uint32) []caOp {
	names := []string{"a", "b", "c"}
	var prog []caOp
	for i := 0; i < n; i++ {
		kinds := []string{"create", "create", "write", "write", "write", "remove", "rename", "setattr", "commit"}
		if unstableBias {
			kinds = append(kinds, "write", "write", "commit", "commit")
		}
		o := caOp{Kind: pick(t, kinds, "kind"), Name: pick(t, names, "name")}
		switch o.Kind {
		case "write":
			*tag++
			o.Tag = *tag
			o.Off = uint64(pick(t, []int{0, 0, 100, 4096, 5000, 3 * 4096}, "off"))
			o.Len = pick(t, []int{1, 100, 4096, 5000, 3 * 4096}, "len")
			o.Stable = nt.Stable_how(pick(t, []int{2, 2, 1, 0}, "stable"))
			if unstableBias && rapid.Bool().Draw(t, "unst") {
				o.Stable = nt.UNSTABLE
			}
		case "rename":
			o.Name2 = pick(t, names, "name2")
		case "setattr":
			o.Size = uint64(pick(t, []int{0, 1, 100, 4096, 4097, 9000}, "size"))
		}
		prog = append(prog, o)
	}
	return prog
}

func concAckProperty(t *rapid.T, prop string, unstableBias bool) {
	d := NewDisk(1540 + 3000)
	unstable := true
	if !unstableBias {
		unstable = rapid.Bool().Draw(t, "unstable")
	}
	s := StartSrv(d, unstable, false)
	api := s.API()
	root := s.RootFH()
	// schedule shaping: the device is slow at writing the journal's header block (the moment a flush takes
	// effect), so that other clients' unstable writes are acknowledged while a flush is under way
	if delay := time.Duration(pick(t, []int{0, 0, 300, 1000, 3000}, "headerdelay")) * time.Microsecond; delay > 0 {
		d.SetHook(func(kind string, addr uint64) {
			if kind == "w" && addr == 0 {
				time.Sleep(delay)
			}
		})
		St.Class("cases_with_a_slow_journal_header_write")
	}
	nclients := rapid.IntRange(2, 4).Draw(t, "clients")
	nrefused := rapid.IntRange(0, 30).Draw(t, "refused")
	nbig := rapid.IntRange(0, 4).Draw(t, "bigwrites")
	var tag uint32
	progs := make([][]caOp, nclients)
	dirs := make([]nt.Nfs_fh3, nclients)
	for c := range progs {
		progs[c] = genCaProg(t, rapid.IntRange(4, 25).Draw(t, "nops"), unstableBias, &tag)
		r := api.NFSPROC3_MKDIR(nt.MKDIR3args{Where: nt.Diropargs3{Dir: root, Name: nt.Filename3(fmt.Sprintf("c%d", c))}})
		if r.Status != nt.NFS3_OK {
			s.Stop()
			St.Class("setup_not_possible_with_this_build_case_not_judged")
			t.Skip("setup: mkdir failed")
		}
		dirs[c] = r.Resok.Obj.Handle
	}
	xr := api.NFSPROC3_MKDIR(nt.MKDIR3args{Where: nt.Diropargs3{Dir: root, Name: "x"}})
	xdir := xr.Resok.Obj.Handle
	bigf := api.NFSPROC3_CREATE(nt.CREATE3args{Where: nt.Diropargs3{Dir: xdir, Name: "big"}})
	salt := rapid.Uint64().Draw(t, "salt")
	var mu sync.Mutex
	var acks []caAck
	var mismatch atomic.Value
	var refused, refusedOK int32
	var wg sync.WaitGroup
	for c := range progs {
		wg.Add(1)
		go func(c int) {
			defer wg.Done()
			m := caModel{}
			handles := map[string]nt.Nfs_fh3{}
			dir := dirs[c]
			for i, o := range progs[c] {
				call := d.Mark()
				want := m.clone()
				wantOK := want.apply(o)
				var st nt.Nfsstat3
				stable := true
				switch o.Kind {
				case "create":
					r := api.NFSPROC3_CREATE(nt.CREATE3args{Where: nt.Diropargs3{Dir: dir, Name: nt.Filename3(o.Name)}})
					st = r.Status
					if st == nt.NFS3_OK {
						handles[o.Name] = r.Resok.Obj.Handle
					}
				case "write":
					h, ok := handles[o.Name]
					if !ok {
						continue
					}
					r := api.NFSPROC3_WRITE(nt.WRITE3args{File: h, Offset: nt.Offset3(o.Off), Count: nt.Count3(o.Len), Stable: o.Stable, Data: patternData(o.Tag, uint64(o.Len))})
					st = r.Status
					if st == nt.NFS3_OK && int(r.Resok.Count) != o.Len {
						mismatch.Store(fmt.Sprintf("client %d: %v wrote %d bytes on a roomy disk", c, o, r.Resok.Count))
						return
					}
					stable = st == nt.NFS3_OK && r.Resok.Committed == nt.FILE_SYNC
				case "commit":
					h, ok := handles[o.Name]
					if !ok {
						continue
					}
					st = api.NFSPROC3_COMMIT(nt.COMMIT3args{File: h, Offset: 0, Count: 0}).Status
				case "remove":
					st = api.NFSPROC3_REMOVE(nt.REMOVE3args{Object: nt.Diropargs3{Dir: dir, Name: nt.Filename3(o.Name)}}).Status
					if st == nt.NFS3_OK {
						delete(handles, o.Name)
					}
				case "rename":
					st = api.NFSPROC3_RENAME(nt.RENAME3args{From: nt.Diropargs3{Dir: dir, Name: nt.Filename3(o.Name)}, To: nt.Diropargs3{Dir: dir, Name: nt.Filename3(o.Name2)}}).Status
					if st == nt.NFS3_OK && o.Name != o.Name2 {
						handles[o.Name2] = handles[o.Name]
						delete(handles, o.Name)
					}
				case "setattr":
					h, ok := handles[o.Name]
					if !ok {
						continue
					}
					st = api.NFSPROC3_SETATTR(nt.SETATTR3args{Object: h, New_attributes: nt.Sattr3{Size: nt.Set_size3{Set_it: true, Size: nt.Size3(o.Size)}}}).Status
				}
				ret := d.Mark()
				if (st == nt.NFS3_OK) != wantOK {
					// another property's business (sequential semantics); this client stops here
					mismatch.Store(fmt.Sprintf("client %d: %v answered %d, the reference says ok=%v", c, o, st, wantOK))
					return
				}
				if st != nt.NFS3_OK {
					continue
				}
				// requests that change nothing need not flush anything
				if (o.Kind == "rename" && o.Name == o.Name2) || (o.Kind == "setattr" && int(o.Size) == len(m[o.Name])) {
					stable = false
				}
				m = want
				if stable {
					mu.Lock()
					acks = append(acks, caAck{c, i, call, ret, m.clone()})
					mu.Unlock()
				}
			}
		}(c)
	}
	// interference: requests the journal refuses, and big stable writes that make the log wrap
	wg.Add(1)
	go func() {
		defer wg.Done()
		target := string(bytes.Repeat([]byte("t"), 600*BlockSize))
		for i := 0; i < nrefused; i++ {
			r := api.NFSPROC3_SYMLINK(nt.SYMLINK3args{Where: nt.Diropargs3{Dir: xdir, Name: nt.Filename3(fmt.Sprintf("l%d", i))}, Symlink: nt.Symlinkdata3{Symlink_data: nt.Nfspath3(target)}})
			if r.Status == nt.NFS3_OK {
				atomic.AddInt32(&refusedOK, 1)
			} else {
				atomic.AddInt32(&refused, 1)
			}
		}
	}()
	if bigf.Status == nt.NFS3_OK && nbig > 0 {
		wg.Add(1)
		go func() {
			defer wg.Done()
			data := patternData(7777, 300*BlockSize)
			for i := 0; i < nbig; i++ {
				api.NFSPROC3_WRITE(nt.WRITE3args{File: bigf.Resok.Obj.Handle, Offset: 0, Count: nt.Count3(len(data)), Stable: nt.FILE_SYNC, Data: data})
			}
		}()
	}
	o := Guard(60e9, func() { wg.Wait() })
	if o.Slow || o.Hung || o.Panic != "" {
		// hangs and panics are C06's and C11's subject
		s.Stop()
		return
	}
	s.Stop()
	trace := d.Trace()
	hdr := make([]int, len(trace)+1)
	for i, e := range trace {
		hdr[i+1] = hdr[i]
		if !e.Barrier && e.Addr == 0 {
			hdr[i+1]++
		}
	}
	nchecked := 0
	for i, a := range acks {
		suspicious := hdr[a.Ret] == hdr[a.Call]
		if !suspicious && Hash(salt, i)%uint64(len(acks)/8+1) != 0 {
			continue
		}
		nchecked++
		vs := Variants(trace, a.Ret, salt, 0)
		if len(vs) > 2 {
			vs = vs[:2]
		}
		for _, v := range vs {
			img := ImageOf(d.size, d.init, trace, a.Ret, v.Drop)
			img.SetRecord(false)
			var got caModel
			var err error
			var s2 *Srv
			ro := Guard(60e9, func() {
				s2 = StartSrv(img, true, false)
				l := s2.API().NFSPROC3_LOOKUP(nt.LOOKUP3args{What: nt.Diropargs3{Dir: s2.RootFH(), Name: nt.Filename3(fmt.Sprintf("c%d", a.Client))}})
				if l.Status != nt.NFS3_OK {
					err = fmt.Errorf("LOOKUP of the client's directory: %d", l.Status)
					return
				}
				got, err = caRead(s2.API(), l.Resok.Object)
			})
			if ro.Slow {
				continue
			}
			detail := map[string]any{"client": a.Client, "program": fmt.Sprint(progs[a.Client][:a.Index+1]), "clients": nclients,
				"refused_requests_so_far": atomic.LoadInt32(&refused), "variant": v.Name, "trace_position": a.Ret, "unstable_option": unstable}
			if ro.Bad() {
				failf(t, prop, detail, "recovery from the image at an acknowledgement: %v", ro)
			}
			if s2 != nil {
				s2.Stop()
			}
			if err != nil {
				failf(t, prop, detail, "image of the device at the moment client %d's operation #%d (%v) was acknowledged (%s): %v", a.Client, a.Index, progs[a.Client][a.Index], v.Name, err)
			}
			if diff := caDiff(got, a.State); diff != "" {
				failf(t, prop, detail, "client %d's operation #%d (%v) was acknowledged as stable, but in the image of the device at that moment (%s) its directory is not what its own operations so far make it: %s (%d requests of other clients had been refused by the journal)",
					a.Client, a.Index, progs[a.Client][a.Index], v.Name, diff, atomic.LoadInt32(&refused))
			}
		}
	}
	St.Eval(nchecked)
	St.ClassN("acknowledgements_verified_in_a_crash_image", nchecked)
	St.ClassN("requests_refused_by_the_journal_alongside", int(refused))
	if refusedOK > 0 {
		St.ClassN("oversized_symlinks_accepted", int(refusedOK))
	}
	if mm, _ := mismatch.Load().(string); mm != "" {
		St.Class("client_stopped_by_another_oracle")
	}
	if nchecked > 0 && refused > 0 {
		St.NT(Hash("concack", prop, progs, nrefused, nbig, salt))
	}
	if St.WantSample(refused > 0) {
		St.Sample(map[string]any{"kind": "concurrent clients, device image at an acknowledgement", "clients": nclients, "stable_acks": len(acks),
			"verified": nchecked, "refused_by_journal": refused, "big_writes": nbig, "trace_events": len(trace)}, refused > 0)
	}
}

func TestC01ConcAck(t *testing.T) {
	rapid.Check(t, func(t *rapid.T) { concAckProperty(t, "C01", false) })
}

func TestC07ConcAck(t *testing.T) {
	rapid.Check(t, func(t *rapid.T) { concAckProperty(t, "C07", true) })
}

// COMMIT windows, enumerated: client A's COMMIT of file a is held at its k-th device write (the journal's data
// blocks, its header block, the barrier's neighbours) while client B completes one or two UNSTABLE writes; then
// A's COMMIT is released and returns, and B sends its COMMIT.  When B's COMMIT has been acknowledged, the device
// as it is at that moment - cut there, and with all un-barriered writes lost - must hold everything both clients
// wrote.  (What is in flight while a flush is under way is exactly what a "nothing to flush" shortcut forgets.)
func TestC07CommitWindow(t *testing.T) {
	shard, nshards := EnvInt("VERIF_SHARD", 0), EnvInt("VERIF_NSHARDS", 1)
	St.Exhaustive(true)
	nrun, nheld := 0, 0
	idx := -1
	for k := 0; k < 8; k++ {
		for variant := 0; variant < 4; variant++ {
			idx++
			if idx%nshards != shard {
				continue
			}
			d := NewDisk(1540 + 600)
			s := StartSrv(d, true, false)
			api := s.API()
			root := s.RootFH()
			mk := func(name string) nt.Nfs_fh3 {
				return api.NFSPROC3_CREATE(nt.CREATE3args{Where: nt.Diropargs3{Dir: root, Name: nt.Filename3(name)}}).Resok.Obj.Handle
			}
			fa, fb := mk("a"), mk("b")
			want := map[string][]byte{"a": nil, "b": nil}
			put := func(name string, fh nt.Nfs_fh3, off uint64, tag uint32, n int) nt.Nfsstat3 {
				data := patternData(tag, uint64(n))
				r := api.NFSPROC3_WRITE(nt.WRITE3args{File: fh, Offset: nt.Offset3(off), Count: nt.Count3(n), Stable: nt.UNSTABLE, Data: append([]byte{}, data...)})
				if r.Status == nt.NFS3_OK {
					buf := want[name]
					if uint64(len(buf)) < off+uint64(n) {
						buf = append(buf, make([]byte, off+uint64(n)-uint64(len(buf)))...)
					}
					copy(buf[off:], data)
					want[name] = buf
				}
				return r.Status
			}
			var hist []string
			fail := func(format string, a ...any) {
				msg := fmt.Sprintf(format, a...)
				St.Violation("C07", msg, map[string]any{"history": hist, "held_at_device_write": k, "variant": variant})
				t.Fatalf("C07: %s\n%v", msg, hist)
			}
			if put("a", fa, 0, 1, 5000) != nt.NFS3_OK {
				s.Stop()
				St.Class("setup_not_possible_with_this_build_case_not_judged")
				continue
			}
			hist = append(hist, "CREATE a, b; A: WRITE a off=0 len=5000 UNSTABLE")
			// hold the k-th device write issued while A's COMMIT is in flight
			var inCommit, nwrites int32
			reached, release := make(chan struct{}), make(chan struct{})
			var once sync.Once
			held := false
			d.SetHook(func(kind string, addr uint64) {
				if kind != "w" || atomic.LoadInt32(&inCommit) == 0 {
					return
				}
				if int(atomic.AddInt32(&nwrites, 1))-1 != k {
					return
				}
				once.Do(func() {
					held = true
					close(reached)
					select {
					case <-release:
					case <-time.After(200 * time.Millisecond):
					}
				})
			})
			var stA, stB nt.Nfsstat3
			doneA := make(chan struct{})
			o := Guard(30*time.Second, func() {
				go func() {
					defer close(doneA)
					atomic.StoreInt32(&inCommit, 1)
					stA = api.NFSPROC3_COMMIT(nt.COMMIT3args{File: fa}).Status
					atomic.StoreInt32(&inCommit, 0)
					once.Do(func() { close(reached) })
				}()
				<-reached
				// B, while A's flush is under way
				switch variant {
				case 0:
					put("b", fb, 0, 2, 5000)
					hist = append(hist, "B (during A's COMMIT): WRITE b off=0 len=5000 UNSTABLE")
				case 1:
					put("b", fb, 0, 2, 100)
					put("b", fb, 8192, 3, 4096)
					hist = append(hist, "B (during A's COMMIT): WRITE b off=0 len=100 UNSTABLE; WRITE b off=8192 len=4096 UNSTABLE")
				case 2:
					put("a", fa, 8192, 2, 3000)
					put("b", fb, 100, 3, 10)
					hist = append(hist, "B (during A's COMMIT): WRITE a off=8192 len=3000 UNSTABLE; WRITE b off=100 len=10 UNSTABLE")
				case 3:
					put("b", fb, 3*4096, 2, 2*4096)
					hist = append(hist, "B (during A's COMMIT): WRITE b off=12288 len=8192 UNSTABLE")
				}
				close(release)
				<-doneA
				stB = api.NFSPROC3_COMMIT(nt.COMMIT3args{File: fb}).Status
				if variant == 2 && stB == nt.NFS3_OK {
					stB = api.NFSPROC3_COMMIT(nt.COMMIT3args{File: fa}).Status
				}
			})
			d.SetHook(nil)
			at := d.Mark()
			hist = append(hist, fmt.Sprintf("A: COMMIT a (held at its device write #%d: %v) -> %d; then B: COMMIT -> %d", k, held, stA, stB))
			if o.Slow || o.Bad() {
				s.Stop()
				continue
			}
			s.Stop()
			if stA != nt.NFS3_OK || stB != nt.NFS3_OK {
				fail("COMMIT failed: %d %d", stA, stB)
			}
			trace := d.Trace()
			for _, v := range Variants(trace, at, 0, 0) {
				if v.Name != "cut" && v.Name != "drop-all-pending" {
					continue
				}
				img := ImageOf(d.size, d.init, trace, at, v.Drop)
				img.SetRecord(false)
				var got caModel
				var err error
				ro := Guard(30*time.Second, func() {
					s2 := StartSrv(img, true, false)
					defer s2.Stop()
					got, err = caRead(s2.API(), s2.RootFH())
				})
				if ro.Slow {
					continue
				}
				if ro.Bad() || err != nil {
					fail("recovery from the device image taken when B's COMMIT was acknowledged (%s): %v %v", v.Name, ro, err)
				}
				if diff := caDiff(got, caModel{"a": want["a"], "b": want["b"]}); diff != "" {
					fail("both COMMITs were acknowledged, but in the image of the device at that moment (%s) %s", v.Name, diff)
				}
				St.Eval(1)
			}
			nrun++
			if held {
				nheld++
				St.NT(Hash("commitwindow", k, variant))
			}
		}
	}
	St.ClassN("commit_windows_enumerated", nrun)
	St.ClassN("commit_windows_in_which_the_flush_was_held", nheld)
}
