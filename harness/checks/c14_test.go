package checks

// C14 - no data races between concurrent RPCs and background threads.
// This test only generates and runs load; the oracle is the Go race detector (the driver builds
// this unit with -race and GORACE=halt_on_error=1, and reads the report).

import (
	"io"
	"sync"
	"testing"
	"time"

	"pgregory.net/rapid"
)

func TestC14Race(t *testing.T) {
	rapid.Check(t, func(t *rapid.T) {
		cfg := cGenCfg{RootPlus: true, DataOps: true, NameOps: rapid.IntRange(0, 3).Draw(t, "nameops") > 0, DirRename: true, BigTrunc: rapid.Bool().Draw(t, "bigtrunc"),
			Focus: rapid.Bool().Draw(t, "focus"), FocusDir: rapid.IntRange(0, 2).Draw(t, "focusdir"), HandleOps: rapid.Bool().Draw(t, "handleops")}
		cc := genConcCase(t, cfg, 20)
		d := NewDisk(9000)
		d.SetRecord(false)
		w, err := setupWorld(cc.Unstable, cc.LowChildren, d)
		if err != nil {
			t.Skip("setup failed")
		}
		stopStats := statsReader(w, rapid.Bool().Draw(t, "statsreader"))
		run := w.runConcurrent(cc.Progs, cc.YieldSeed, cc.ViaRPC, 30*time.Second, cc.Pause)
		stopStats()
		if run.Slow {
			St.Class("call_too_slow_for_the_harness_not_judged")
			t.Skip("harness too slow")
		}
		if run.Hung {
			St.Class("run_hung_not_judged")
			t.Skip("the run did not terminate (C06's subject)")
		}
		// shutdown / restart while shrinkers may still run
		switch rapid.IntRange(0, 2).Draw(t, "ending") {
		case 0:
			w.S.Stop()
		case 1:
			// a truncation that starts a background shrinker, and the stop at once
			api := w.S.API()
			w.exec(api, cOp{Kind: "setattr", File: 0, Size: 700 * BlockSize})
			w.exec(api, cOp{Kind: "write", File: 0, Off: 0, Data: string(patternData(5, 100))})
			w.exec(api, cOp{Kind: "setattr", File: 0, Size: uint64(rapid.IntRange(0, 3).Draw(t, "to")) * 1000})
			w.S.StopCrash()
			St.Class("stopped_with_shrinker_interrupted")
		default:
			w.S.Restart()
			w.S.Stop()
			St.Class("restarted_after_the_run")
		}
		St.Eval(1)
		if conflicting(run.Ops) > 0 {
			St.NT(Hash(describeHistory(run.Ops)))
			St.Class("program_with_overlapping_operations_on_one_object")
		}
		if cfg.BigTrunc {
			St.Class("program_with_shrinker_sized_truncations")
		}
		if St.WantSample(true) {
			St.Sample(map[string]any{"kind": "concurrent program under the race detector", "case": cc.describe()}, true)
		}
	})
}

// A working set larger than the inode cache: several clients look at 160 files in different orders (every request
// a cache miss that evicts somebody else's entry) while others write, truncate and read the shared files.
func TestC14BigSet(t *testing.T) {
	rapid.Check(t, func(t *rapid.T) { runBigSet(t, "C14") })
}

// runBigSet: the program described above; under the race detector for C14, and for C08 with the oracle "every
// handle keeps answering with the object it was issued for" (judged by the sweeps themselves, and once more
// sequentially at the end and after a restart).
func runBigSet(t *rapid.T, prop string) {
	d := NewDisk(9000)
	d.SetRecord(false)
	w, err := setupWorld(rapid.Bool().Draw(t, "unstable"), false, d)
	if err != nil {
		t.Skip("setup failed")
	}
	if err := w.addExtras(160); err != nil {
		t.Skip("setup failed")
	}
	w.S.Restart() // cold caches
	var tag uint32
	var progs [][]cOp
	for c := 0; c < rapid.IntRange(1, 3).Draw(t, "writers"); c++ {
		var prog []cOp
		for i := 0; i < rapid.IntRange(4, 10).Draw(t, "nops"); i++ {
			prog = append(prog, genCOp(t, cGenCfg{DataOps: true}, &tag))
		}
		progs = append(progs, prog)
	}
	for c := 0; c < rapid.IntRange(2, 6).Draw(t, "sweepers"); c++ {
		var prog []cOp
		for i := 0; i < rapid.IntRange(1, 3).Draw(t, "nsweeps"); i++ {
			prog = append(prog, cOp{Kind: "sweep", Off: rapid.Uint64Range(0, 1000).Draw(t, "rotation")})
		}
		progs = append(progs, prog)
	}
	var yield uint64
	if rapid.Bool().Draw(t, "yields") {
		yield = rapid.Uint64Range(1, 1<<62).Draw(t, "yieldseed")
	}
	stopStats := statsReader(w, prop == "C14" && rapid.Bool().Draw(t, "statsreader"))
	run := w.runConcurrent(progs, yield, false, 30*time.Second, nil)
	stopStats()
	if run.Slow || (run.Hung && prop == "C14") {
		St.Class("run_not_judged")
		t.Skip("not judged here (C06's subject)")
	}
	if prop == "C08" {
		detail := map[string]any{"history": describeHistory(run.Ops)}
		if run.Hung || run.Panic != "" {
			failf(t, "C08", detail, "requests through handles of files nobody changes do not return or panic: %s %s", run.Panic, trunc(run.Dump, 2000))
		}
		for _, o := range run.Ops {
			if o.Input.(cOp).Kind == "sweep" && !o.Output.(cRes).OK {
				failf(t, "C08", detail, "GETATTR through the handle of a file nobody changes failed or described another object (client %d)", o.ClientId)
			}
		}
		for _, when := range []string{"after the run", "after a restart"} {
			if r := w.exec(w.S.API(), cOp{Kind: "sweep"}); !r.OK {
				failf(t, "C08", detail, "%s: GETATTR through the handle of a file nobody changes failed or described another object", when)
			}
			w.S.Restart()
		}
	}
	w.S.Stop()
	St.Eval(1)
	St.NT(Hash("bigset", describeHistory(run.Ops)))
	St.Class("program_with_a_working_set_larger_than_the_inode_cache")
}

// statsReader: what cmd/go-nfsd does on a signal or a timer while requests are being served - the per-procedure
// statistics are written out and reset by another goroutine.  Returns the function that stops it.
func statsReader(w *cWorld, on bool) func() {
	if !on {
		return func() {}
	}
	St.Class("program_with_the_statistics_read_and_reset_meanwhile")
	n := w.S.N
	stop := make(chan struct{})
	var wg sync.WaitGroup
	wg.Add(1)
	go func() {
		defer wg.Done()
		for i := 0; ; i++ {
			select {
			case <-stop:
				return
			default:
			}
			n.WriteOpStats(io.Discard)
			if i%3 == 2 {
				n.ResetOpStats()
			}
			time.Sleep(200 * time.Microsecond)
		}
	}()
	return func() { close(stop); wg.Wait() }
}

// The enumerated two-client windows of C03 under the race detector: the families in which a request is refused
// after it changed cached state (so that its transaction is aborted while another client waits for one of its
// inodes), the three-client eviction family and the half-freed start states completely, and a sample of the rest (quick 1/32, thorough 1/4).
func TestC14Enum(t *testing.T) {
	seed := EnvInt("VERIF_SEED", 1)
	n := 0
	enumLin(t, "C14", func(ec enumCase) bool {
		n++
		if ec.Sweep || ec.HalfFreed || ec.HalfCut || ec.Op0.Kind == "renamelong" || ec.Op0.Kind == "createlong" {
			return true
		}
		for _, o := range ec.Prog1 {
			if o.Kind == "renamelong" || o.Kind == "createlong" {
				return true
			}
		}
		if Thorough() {
			return Hash(seed, n, "c14")%4 == 0
		}
		return Hash(seed, n, "c14")%32 == 0
	})
}
