package checks

// C09 - a failed operation leaves no trace.
// The same nearly-full-disk histories also feed C04 (fsck only) and C12 (no foreign data).

import (
	"bytes"
	"fmt"
	"strings"
	"sync"
	"testing"

	"github.com/mit-pdos/go-journal/addr"
	"github.com/mit-pdos/go-journal/common"
	nt "github.com/mit-pdos/go-nfsd/nfstypes"
	"pgregory.net/rapid"
)

type resSnap struct {
	freeB, freeI uint64
	bitmaps      []byte
}

func takeResSnap(x *Exec) resSnap {
	var s resSnap
	x.call(func() {
		x.S.Quiesce()
		fs := x.S.N.VerifFsState()
		s.freeB, s.freeI = fs.Balloc.NumFree(), fs.Ialloc.NumFree()
		for i := uint64(0); i < fs.Super.NBlockBitmap+fs.Super.NInodeBitmap; i++ {
			s.bitmaps = append(s.bitmaps, fs.Txn.Load(addr.MkAddr(fs.Super.BitmapBlockStart()+common.Bnum(i), 0), common.NBITBLOCK).Data...)
		}
	})
	return s
}

// noTrace: after a request that returned an error, nothing may differ from before it.
func noTrace(x *Exec, pre resSnap, what string) error {
	post := takeResSnap(x)
	if post.freeB != pre.freeB || post.freeI != pre.freeI {
		return x.errf("%s failed, yet the server's allocators changed: %d free blocks / %d free inodes before, %d / %d after",
			what, pre.freeB, pre.freeI, post.freeB, post.freeI)
	}
	if !bytes.Equal(pre.bitmaps, post.bitmaps) {
		return x.errf("%s failed, yet the on-disk bitmaps changed (first differing byte %d)", what, firstDiff(pre.bitmaps, post.bitmaps))
	}
	var cerr error
	if err := x.call(func() { cerr = CacheCoherent(x.S.N.VerifFsState()) }); err != nil {
		return err
	}
	if cerr != nil {
		return x.errf("%s failed, and afterwards %v", what, cerr)
	}
	if err := x.CompareAll(); err != nil {
		return x.errf("%s failed, yet the file system is not what it was before: %v", what, err)
	}
	return nil
}

// pointerData: n bytes of 8-byte little-endian words, each the number of a block in the data region.
func pointerData(diskSize uint64, n uint64) []byte {
	b := make([]byte, n)
	for i := uint64(0); i+8 <= n; i += 8 {
		v := 1540 + (i/8*7)%(diskSize-1540)
		for k := uint64(0); k < 8; k++ {
			b[i+k] = byte(v >> (8 * k))
		}
	}
	return b
}

// ---- the nearly exhausted inode table: built once per process ----

var inodeFullOnce sync.Once
var inodeFullImg map[uint64][]byte
var inodeFullDirs []string

const inodeFullDisk = 1540 + 2800 // room for 32k directory entries of up to 256 bytes

func buildInodeFullImage() {
	d := NewDisk(inodeFullDisk)
	d.SetRecord(false)
	s := StartSrv(d, true, false)
	api := s.API()
	root := s.RootFH()
	for di := 0; ; di++ {
		dn := fmt.Sprintf("prefill%d", di)
		r := api.NFSPROC3_MKDIR(nt.MKDIR3args{Where: nt.Diropargs3{Dir: root, Name: nt.Filename3(dn)}})
		if r.Status != nt.NFS3_OK {
			break
		}
		inodeFullDirs = append(inodeFullDirs, dn)
		full := false
		for i := 0; i < 2200; i++ {
			c := api.NFSPROC3_CREATE(nt.CREATE3args{Where: nt.Diropargs3{Dir: r.Resok.Obj.Handle, Name: nt.Filename3(fmt.Sprintf("p%d", i))}})
			if c.Status != nt.NFS3_OK {
				full = true
				break
			}
		}
		if full {
			break
		}
	}
	s.Stop()
	inodeFullImg = d.Snapshot()
}

type fullCfg struct {
	Prop     string
	Relevant func(err error) bool // which oracle failures count for this property (others cut the case short)
	Fsck     FsckOpts
	NoTrace  bool // apply the no-trace oracle after every failed request
	// ReadHoles: also read holes (on a full disk such a read may end early; it is not a failing request)
	ReadHoles bool
	// Coherence: check cache-vs-disk coherence after every step
	Coherence bool
	// Reclaim: at the end delete everything and require that all space is back (C05's oracle)
	Reclaim bool
	// CrashImage: at every restart action and at the end, the device as it is at that moment (a crash: what the
	// journal holds only in memory is gone) is recovered by a second server and compared with the reference
	CrashImage bool
}

func runFullDiskCase(t *rapid.T, fc fullCfg) {
	prop := fc.Prop
	unstable := rapid.Bool().Draw(t, "unstable")
	inodeMode := rapid.IntRange(0, 4).Draw(t, "inodetable_nearly_exhausted") == 0
	var d *Disk
	if inodeMode {
		inodeFullOnce.Do(buildInodeFullImage)
		d = NewDiskFrom(inodeFullDisk, inodeFullImg)
	} else {
		d = NewDisk(1540 + uint64(pick(t, []int{60, 100, 150, 300, 600, 1500}, "datablocks")))
	}
	d.SetRecord(false)
	s := StartSrv(d, unstable, false)
	x, err := NewExec(s, prop)
	if err != nil {
		s.Stop()
		failf(t, prop, nil, "%v", err)
	}
	defer func() { x.S.Stop() }()
	x.SpaceMayBind = true
	fail := func(err error) {
		failf(t, prop, map[string]any{"history": x.Log, "unstable": unstable, "inode_table_nearly_exhausted": inodeMode, "disk": d.Size()}, "%v", err)
	}
	cut := false
	sawFailure := false // a request failed for lack of resources, or an aborted transaction had modified state
	inNoTrace := false
	judge := func(err error) {
		if err == nil {
			return
		}
		if fc.Relevant(err) && (inNoTrace || sawFailure || !fc.NoTrace) {
			fail(err)
		}
		cut = true
	}
	root := LiveRef(x.M.Root)
	if inodeMode {
		// the model knows the prefill directories but not their 32k files (CompareTree skips them)
		for _, dn := range inodeFullDirs {
			res := x.S.API().NFSPROC3_LOOKUP(nt.LOOKUP3args{What: nt.Diropargs3{Dir: root.fh(), Name: nt.Filename3(dn)}})
			n := x.M.Create(x.M.Root, dn, nt.NF3DIR, "")
			n.FH, n.Fileid, n.Opaque = res.Resok.Object.Data, uint64(res.Resok.Obj_attributes.Attributes.Fileid), true
			x.allFH[string(n.FH)] = n.ID
		}
		// leave r inodes free
		r := rapid.IntRange(0, 3).Draw(t, "freeinodes")
		pd := x.M.Root.Children[inodeFullDirs[len(inodeFullDirs)-1]]
		for i := 0; i < r; i++ {
			x.S.API().NFSPROC3_REMOVE(nt.REMOVE3args{Object: nt.Diropargs3{Dir: nt.Nfs_fh3{Data: pd.FH}, Name: nt.Filename3(fmt.Sprintf("p%d", i))}})
		}
		x.logf("inode table prefilled; %d inodes free", x.S.N.VerifFsState().Ialloc.NumFree())
	}
	cfg := DefaultCfg()
	cfg.BadRefs, cfg.WrongKind, cfg.HugeOffsets, cfg.BigWrites, cfg.MaxWriteBlks, cfg.MaxDepth = 3, 3, false, false, 6, 2
	excluded := 0
	cfg.Excluded = &excluded
	g := NewGen(x, cfg)
	nfailedChecked, nResFail, nAbortMod := 0, 0, int64(0)
	steps := 0
	// wrap: run one request; if it failed, apply the no-trace oracle
	wrap := func(kind string, f func(t *rapid.T) error) func(*rapid.T) {
		return func(t *rapid.T) {
			if cut {
				t.Skip("case cut short")
			}
			var pre resSnap
			if fc.NoTrace {
				pre = takeResSnap(x)
			}
			mon := x.S.Mon()
			abortsBefore := mon.AbortsModified
			failedBefore, okBefore, resBefore := x.NFailed, x.NOk, x.FailedForResources
			nlog := len(x.Log)
			err := f(t)
			judge(err)
			if cut {
				return
			}
			if x.NFailed > failedBefore && x.NOk == okBefore && len(x.Log) > nlog {
				// exactly the failed request(s) of this step
				if mon.AbortsModified > abortsBefore {
					sawFailure = true
					nAbortMod += mon.AbortsModified - abortsBefore
					St.NT(Hash(prop, x.Log[len(x.Log)-1], d.Size(), len(x.Log)))
				}
				if x.FailedForResources > resBefore {
					sawFailure = true
					nResFail++
				}
				if fc.NoTrace {
					nfailedChecked++
					inNoTrace = true
					judge(noTrace(x, pre, x.Log[len(x.Log)-1]))
					inNoTrace = false
				}
			}
		}
	}
	base := g.Actions(func(t *rapid.T, err error) {})
	_ = base
	acts := map[string]func(*rapid.T){}
	file := func(t *rapid.T) *MNode {
		files := x.M.LiveKind(nt.NF3REG)
		if len(files) == 0 {
			return nil
		}
		return pick(t, files, "file")
	}
	dirOf := func(t *rapid.T) Ref {
		var ds []*MNode
		for _, n := range x.M.LiveKind(nt.NF3DIR) {
			if !n.Opaque {
				ds = append(ds, n)
			}
		}
		return LiveRef(pick(t, ds, "dir"))
	}
	acts["create"] = wrap("CREATE", func(t *rapid.T) error { dr := dirOf(t); return x.Create(dr, g.NewName(t, dr.N)) })
	acts["mkdir"] = wrap("MKDIR", func(t *rapid.T) error {
		dr := dirOf(t)
		if dr.N.Depth() >= 2 {
			dr = root
		}
		return x.Mkdir(dr, g.NewName(t, dr.N))
	})
	acts["symlink"] = wrap("SYMLINK", func(t *rapid.T) error {
		dr := dirOf(t)
		target := pick(t, []string{"", "x", strings.Repeat("t", 200), strings.Repeat("p", 4097), strings.Repeat("q", 3*4096), strings.Repeat("r", 512*4096), strings.Repeat("r", 520*4096), strings.Repeat("r", 600*4096)}, "target")
		return x.Symlink(dr, g.NewName(t, dr.N), target)
	})
	acts["write"] = wrap("WRITE", func(t *rapid.T) error {
		f := file(t)
		if f == nil {
			return nil
		}
		// appends and writes just past the direct blocks (needs an indirect block as well)
		off := pick(t, []uint64{f.Size, f.Size, 0, f.Size + BlockSize, 8 * BlockSize, 7 * BlockSize, 9 * BlockSize, 520 * BlockSize, 519 * BlockSize, 1031 * BlockSize}, "off")
		cnt := uint32(pick(t, []int{1, 100, 4096, 4097, 8192, 3 * 4096, 20 * 4096, 70 * 4096, 480 * 4096}, "cnt"))
		data := patternData(g.nextTag(), uint64(cnt))
		if rapid.IntRange(0, 4).Draw(t, "pointerlike") == 0 {
			// data that reads like an index block (valid block numbers): a dangling index pointer to a block
			// that now belongs to this file then leads a reader to other files' blocks instead of a crash
			data = pointerData(d.Size(), uint64(cnt))
		}
		return x.Write(LiveRef(f), off, data, cnt, pick(t, g.Cfg.Stable, "stable"))
	})
	acts["write2"] = acts["write"]
	acts["setattr"] = wrap("SETATTR", func(t *rapid.T) error {
		f := file(t)
		if f == nil {
			return nil
		}
		sz := pick(t, []uint64{0, 1, f.Size / 2, f.Size + 100, f.Size + 10*BlockSize, 100 * BlockSize, x.M.Lim.MaxFileSize, x.M.Lim.MaxFileSize + 1}, "size")
		return x.Setattr(LiveRef(f), &sz, false)
	})
	acts["read"] = wrap("READ", func(t *rapid.T) error {
		f := file(t)
		if f == nil || len(f.Blocks) == 0 {
			return nil
		}
		// only blocks that were written: a read of a hole on a full disk is not a failing request
		var bs []uint64
		for b := range f.Blocks {
			bs = append(bs, b)
		}
		sortU64(bs)
		b := pick(t, bs, "block")
		return x.Read(LiveRef(f), b*BlockSize, BlockSize)
	})
	if fc.ReadHoles {
		acts["readhole"] = wrap("READHOLE", func(t *rapid.T) error {
			f := file(t)
			if f == nil || f.Size == 0 {
				return nil
			}
			nblk := (f.Size + BlockSize - 1) / BlockSize
			b := rapid.Uint64Range(0, nblk-1).Draw(t, "block")
			// the first block under each kind of index block (a read there may have to allocate index blocks first)
			if h := pick(t, []uint64{0, 0, 8, 520, 521, 1031, 1032}, "indexedge"); h != 0 && h < nblk {
				b = h
			}
			return x.Read(LiveRef(f), b*BlockSize, uint32(pick(t, []int{1, 4096, 3 * 4096}, "cnt")))
		})
		// sparse files: sizes far beyond the data, so that reads meet holes under missing index blocks
		acts["sparse"] = wrap("SPARSE", func(t *rapid.T) error {
			f := file(t)
			if f == nil {
				return nil
			}
			sz := uint64(pick(t, []int{9, 12, 30, 520, 521, 600, 1100, 1100}, "blocks")) * BlockSize
			return x.Setattr(LiveRef(f), &sz, false)
		})
	}
	acts["remove"] = wrap("REMOVE", func(t *rapid.T) error { dr := dirOf(t); return x.Remove(dr, g.OldName(t, dr.N)) })
	acts["rmdir"] = wrap("RMDIR", func(t *rapid.T) error { dr := dirOf(t); return x.Rmdir(dr, g.OldName(t, dr.N)) })
	acts["lookup"] = wrap("LOOKUP", func(t *rapid.T) error { dr := dirOf(t); return x.Lookup(dr, g.OldName(t, dr.N)) })
	acts["rename"] = wrap("RENAME", func(t *rapid.T) error {
		fd, td := dirOf(t), dirOf(t)
		fn := g.OldName(t, fd.N)
		var tn string
		switch rapid.IntRange(0, 3).Draw(t, "target") {
		case 0:
			tn = g.OldName(t, td.N)
		case 1:
			// a target name the directory layer refuses after the source entry is already gone
			tn = longName(pick(t, []int{113, 114, 128, 200, 255, 300}, "toolong"), 0)
		default:
			tn = g.NewName(t, td.N)
		}
		if x.RenameIsKnownFinding(fd.N, fn, td.N) {
			excluded++
			td = fd
		}
		return x.Rename(fd, fn, td, tn)
	})
	acts["rename2"] = acts["rename"]
	// a size for a directory or a symbolic link (or beyond the maximum for a file), sent together with times and mode
	acts["setattr_refused"] = wrap("SETATTR", func(t *rapid.T) error {
		var cands []*MNode
		switch rapid.IntRange(0, 2).Draw(t, "refusedkind") {
		case 0:
			cands = x.M.LiveKind(nt.NF3DIR)
		case 1:
			cands = x.M.LiveKind(nt.NF3LNK)
		}
		sz := uint64(pick(t, []int{0, 100, 4096}, "size"))
		if len(cands) == 0 {
			cands = x.M.LiveKind(nt.NF3REG)
			sz = x.M.Lim.MaxFileSize + uint64(pick(t, []int{1, 4096, 1 << 20}, "beyond"))
		}
		if len(cands) == 0 {
			return nil
		}
		return x.Setattr(LiveRef(pick(t, cands, "obj")), &sz, true)
	})
	// a directory moves to another parent (the target directory may have to grow, which can fail half-way on a full disk)
	acts["movedir"] = wrap("MOVEDIR", func(t *rapid.T) error {
		var srcs []*MNode
		for _, d := range x.M.LiveKind(nt.NF3DIR) {
			if d != x.M.Root {
				srcs = append(srcs, d)
			}
		}
		if len(srcs) == 0 {
			return nil
		}
		src := pick(t, srcs, "srcdir")
		var tds []*MNode
		for _, d := range x.M.LiveKind(nt.NF3DIR) {
			if d != src.Parent {
				tds = append(tds, d)
			}
		}
		if len(tds) == 0 {
			return nil
		}
		td := pick(t, tds, "todir")
		tn := g.NewName(t, td)
		if rapid.IntRange(0, 2).Draw(t, "overwrite") == 0 {
			tn = g.OldName(t, td)
		}
		return x.Rename(LiveRef(src.Parent), src.Name, LiveRef(td), tn)
	})
	// a directory whose last block is exactly full: the next new name needs another block
	acts["fulldir"] = wrap("FULLDIR", func(t *rapid.T) error {
		dr := dirOf(t)
		want := 30 - len(dr.N.Children)%32
		if want <= 0 || want > 30 {
			return nil
		}
		for i := 0; i < want; i++ {
			if err := x.Create(dr, fmt.Sprintf("fd%d_%d", len(x.Log), i)); err != nil {
				return err
			}
			if !x.LastOK {
				break
			}
		}
		return nil
	})
	// fill: leave exactly r free blocks
	fillTo := func(t *rapid.T, r uint64) {
		fs := x.S.N.VerifFsState()
		x.S.Quiesce()
		x.logf("fill the disk until exactly %d block(s) are free (now %d)", r, fs.Balloc.NumFree())
		nfill := 0
		for iter := 0; iter < 1500 && !cut; iter++ {
			free := fs.Balloc.NumFree()
			if free == r {
				break
			}
			if free < r {
				// overshot (a directory grew): give a block back
				var victim *MNode
				for _, f := range x.M.LiveKind(nt.NF3REG) {
					if f.Size >= BlockSize && len(f.Blocks) > 0 && f.Size <= 8*BlockSize {
						victim = f
						break
					}
				}
				if victim == nil {
					break
				}
				sz := (victim.Size - 1) / BlockSize * BlockSize
				judge(x.Setattr(LiveRef(victim), &sz, false))
				x.S.Quiesce()
				continue
			}
			// grow a filler file by one direct block, or start a new one
			var tgt *MNode
			for _, f := range x.M.LiveKind(nt.NF3REG) {
				if strings.HasPrefix(f.Name, "fill") && f.Size < 8*BlockSize && f.Size%BlockSize == 0 {
					tgt = f
					break
				}
			}
			if tgt == nil {
				if inodeMode && fs.Ialloc.NumFree() == 0 {
					break
				}
				nfill++
				name := fmt.Sprintf("fill%d_%d", len(x.Log), nfill)
				judge(x.Create(root, name))
				tgt = x.M.Root.Children[name]
				if tgt == nil {
					break
				}
			}
			n := uint32(BlockSize)
			if free-r >= 8 && tgt.Size == 0 {
				n = 8 * BlockSize
			}
			judge(x.Write(LiveRef(tgt), tgt.Size, patternData(g.nextTag(), uint64(n)), n, nt.FILE_SYNC))
			if !x.LastOK {
				break
			}
		}
		x.logf("filled: %d block(s) and %d inode(s) free", fs.Balloc.NumFree(), fs.Ialloc.NumFree())
		if n := fs.Balloc.NumFree(); n <= 3 {
			St.Class(fmt.Sprintf("filled_to_%d_free_blocks", n))
		} else {
			St.Class("fill_stopped_early_inodes_exhausted")
		}
	}
	crashCompare := func() {
		if !fc.CrashImage || cut {
			return
		}
		if x.Unflushed && x.lastUnstable != nil && x.lastUnstable.Alive {
			judge(x.Commit(LiveRef(x.lastUnstable), 0, 0))
			if cut {
				return
			}
		}
		x.logf("crash image of the device at this moment, recovered by a second server")
		var cerr error
		err := x.call(func() {
			img := x.S.D.Clone()
			img.SetRecord(false)
			b := StartSrv(img, unstable, false)
			defer b.Stop()
			cerr = CompareTreeOpt(b.API(), x.M, true, true)
		})
		if err != nil {
			judge(err)
			return
		}
		if cerr != nil {
			judge(&OracleErr{Kind: "crash", Msg: "every request so far was acknowledged as stable (or committed), yet a server recovering from the device as it is now shows: " + cerr.Error()})
		}
		St.Class("crash_images_of_nearly_full_disks")
	}
	acts["fill"] = func(t *rapid.T) {
		if cut {
			t.Skip("case cut short")
		}
		if d.Size() >= 1540+1500 && steps < 25 {
			t.Skip("on the large disk the journal, not the disk, is the resource that runs out first")
		}
		fillTo(t, uint64(rapid.IntRange(0, 3).Draw(t, "freeblocks")))
	}
	acts["fill2"] = acts["fill"]
	if fc.ReadHoles {
		// a request that needs index blocks and a data block when only some of them can be had:
		// a sparse file reaching into the double-indirect range, r blocks free, then a READ or WRITE
		// at the first block under an index block
		acts["indexedge"] = func(t *rapid.T) {
			if cut {
				t.Skip("case cut short")
			}
			if d.Size() >= 1540+1500 && steps < 25 {
				t.Skip("large disk")
			}
			f := file(t)
			if f == nil || strings.HasPrefix(f.Name, "fill") {
				t.Skip("no file")
			}
			if f.Size < 1100*BlockSize {
				sz := uint64(1100 * BlockSize)
				judge(x.Setattr(LiveRef(f), &sz, false))
				if cut || !x.LastOK {
					return
				}
			}
			b := pick(t, []uint64{8, 520, 521, 1031, 1032}, "block")
			straddle := rapid.IntRange(0, 2).Draw(t, "straddle") == 0
			// aimed: a stable two-block WRITE across the edge with exactly as many blocks free as the new index
			// block(s) need - the data block under them cannot be had, the WRITE commits short
			aimed := rapid.IntRange(0, 3).Draw(t, "aimed") < map[bool]int{true: 2, false: 1}[fc.CrashImage]
			if aimed {
				b = pick(t, []uint64{8, 8, 520}, "edge")
				straddle = true
			}
			if straddle {
				// the request starts in a block that exists, one before the edge, and runs across it
				b--
				wrap("WRITE", func(t *rapid.T) error {
					return x.Write(LiveRef(f), b*BlockSize, patternData(g.nextTag(), BlockSize), BlockSize, nt.FILE_SYNC)
				})(t)
				if cut || !x.LastOK {
					return
				}
			}
			free := uint64(rapid.IntRange(1, 3).Draw(t, "freeblocks"))
			if aimed {
				free = 1
				if b == 519 && rapid.Bool().Draw(t, "two") {
					free = 2
				}
			}
			fillTo(t, free)
			if cut {
				return
			}
			St.Class("requests_at_an_index_block_edge_with_1_to_3_blocks_free")
			if !aimed && rapid.Bool().Draw(t, "read") {
				wrap("READHOLE", func(t *rapid.T) error {
					return x.Read(LiveRef(f), b*BlockSize, uint32(pick(t, []int{1, 4096, 3 * 4096}, "cnt")))
				})(t)
			} else {
				wrap("WRITE", func(t *rapid.T) error {
					cnt := uint32(pick(t, []int{4096, 8192, 3 * 4096}, "cnt"))
					if aimed {
						return x.Write(LiveRef(f), b*BlockSize, patternData(g.nextTag(), 2*BlockSize), 2*BlockSize, nt.FILE_SYNC)
					}
					return x.Write(LiveRef(f), b*BlockSize, patternData(g.nextTag(), uint64(cnt)), cnt, pick(t, g.Cfg.Stable, "stable"))
				})(t)
				if fc.CrashImage && !cut && f.Alive {
					// room again, a stable write further into the range under the same index block, and the device as it is then
					for name, n := range x.M.Root.Children {
						if strings.HasPrefix(name, "fill") && !n.IsDir() {
							judge(x.Remove(root, name))
							break
						}
					}
					if !cut {
						wrap("WRITE", func(t *rapid.T) error {
							return x.Write(LiveRef(f), (b+2)*BlockSize+100, patternData(g.nextTag(), 5000), 5000, nt.FILE_SYNC)
						})(t)
						crashCompare()
					}
				}
			}
		}
	}
	acts["restart"] = func(t *rapid.T) {
		if cut {
			t.Skip("case cut short")
		}
		crashCompare()
		judge(x.Restart())
	}
	nfsck := 0
	acts[""] = func(t *rapid.T) {
		steps++
		if cut {
			t.Skip("case cut short")
		}
		if fc.Coherence {
			var cerr error
			x.call(func() { x.S.Quiesce(); cerr = CacheCoherent(x.S.N.VerifFsState()) })
			if cerr != nil {
				judge(&OracleErr{Kind: "coherence", Msg: cerr.Error() + "\n  after: " + x.Log[len(x.Log)-1]})
			}
		}
		if steps%10 == 0 {
			nfsck++
			if _, err := quiescentFsck(x, fc.Fsck); err != nil {
				judge(&OracleErr{Kind: "fsck", Msg: err.Error()})
			}
		}
	}
	t.Repeat(acts)
	if !cut {
		// the reference, which ignored every failed request, still matches - also after a restart
		judge(x.CompareAll())
		crashCompare()
		judge(x.Restart())
		judge(x.CompareAll())
		nfsck++
		if _, err := quiescentFsck(x, fc.Fsck); err != nil {
			judge(&OracleErr{Kind: "fsck", Msg: err.Error()})
		}
		var cerr error
		x.call(func() { cerr = CacheCoherent(x.S.N.VerifFsState()) })
		if cerr != nil {
			judge(&OracleErr{Kind: "coherence", Msg: cerr.Error()})
		}
	}
	if fc.Reclaim && !cut && !inodeMode {
		x.SpaceMayBind = false
		if _, err := reclaimCheck(x, false); err != nil {
			judge(&OracleErr{Kind: "reclaim", Msg: err.Error()})
		}
		St.Class("full_disk_history_emptied_and_counted")
	}
	St.Eval(1)
	St.ClassN("failed_requests_checked_for_traces", nfailedChecked)
	St.ClassN("requests_failed_for_lack_of_resources", nResFail)
	St.ClassN("aborted_transactions_that_had_modified_state", int(nAbortMod))
	St.ClassN("fsck_runs", nfsck)
	St.ClassN("short_writes", x.ShortWrites)
	St.ClassN("requests_refused_by_the_journal", x.ServerFaults)
	if inodeMode {
		St.Class("case_with_nearly_exhausted_inode_table")
	}
	if cut {
		St.Class("case_cut_short_by_another_oracle")
	}
	if excluded > 0 {
		St.ClassN("excluded_known_finding_draws", excluded)
	}
	if St.WantSample(nAbortMod > 0) {
		St.Sample(map[string]any{"kind": "nearly-full-disk history", "disk_blocks": d.Size(), "inode_table_nearly_exhausted": inodeMode,
			"failed_requests_checked": nfailedChecked, "aborts_of_modified_transactions": nAbortMod, "history": headLog(x.Log, 60)}, nAbortMod > 0)
	}
}

func TestC09Full(t *testing.T) {
	rapid.Check(t, func(t *rapid.T) {
		runFullDiskCase(t, fullCfg{Prop: "C09", NoTrace: true, Fsck: FsckOpts{Allocators: true},
			Relevant: func(err error) bool {
				k := errKind(err)
				// every mismatch after a failed request is this property's business, except a wrong status as such
				return k != "status"
			}})
	})
}

// C04 on nearly-full disks: only the structural oracle counts.
func TestC04Full(t *testing.T) {
	rapid.Check(t, func(t *rapid.T) {
		runFullDiskCase(t, fullCfg{Prop: "C04", Fsck: FsckOpts{Allocators: true},
			Relevant: func(err error) bool { return errKind(err) == "fsck" }})
	})
}

// C12 on nearly-full disks: foreign or stale bytes, and free blocks that are not zero.
func TestC12Full(t *testing.T) {
	rapid.Check(t, func(t *rapid.T) {
		runFullDiskCase(t, fullCfg{Prop: "C12", Fsck: FsckOpts{ZeroFree: true}, ReadHoles: true,
			Relevant: func(err error) bool {
				return errKind(err) == "data-exposed" || (errKind(err) == "fsck" && strings.Contains(err.Error(), "[free-not-zero]"))
			}})
	})
}

// C05 on nearly-full disks: after the history everything is deleted and all space must be back.
func TestC05Full(t *testing.T) {
	rapid.Check(t, func(t *rapid.T) {
		runFullDiskCase(t, fullCfg{Prop: "C05", Fsck: FsckOpts{Allocators: true}, ReadHoles: true, Reclaim: true,
			Relevant: func(err error) bool { return errKind(err) == "reclaim" }})
	})
}

// C10 on nearly-full disks: after every step the caches still agree with the disk.
func TestC10Full(t *testing.T) {
	rapid.Check(t, func(t *rapid.T) {
		runFullDiskCase(t, fullCfg{Prop: "C10", Fsck: FsckOpts{Allocators: true}, ReadHoles: true, Coherence: true,
			Relevant: func(err error) bool {
				return errKind(err) == "coherence" || (errKind(err) == "fsck" && strings.Contains(err.Error(), "[allocator]"))
			}})
	})
}

// C02 on nearly-full disks: whatever the server accepted must read back like the reference (a wrong
// status cannot be judged there, because the reference does not model free space).
func TestC02Full(t *testing.T) {
	rapid.Check(t, func(t *rapid.T) {
		runFullDiskCase(t, fullCfg{Prop: "C02", Fsck: FsckOpts{},
			Relevant: func(err error) bool {
				k := errKind(err)
				return k == "data-exposed" || k == "data-lost" || k == "other"
			}})
	})
}

// C11 on nearly-full disks: whatever fails for lack of space, no request makes the server panic or hang
// (a failed allocation half-way through a request is where stale pointers and nil results come from).
func TestC11Full(t *testing.T) {
	rapid.Check(t, func(t *rapid.T) {
		runFullDiskCase(t, fullCfg{Prop: "C11", Fsck: FsckOpts{}, ReadHoles: true,
			Relevant: func(err error) bool {
				k := errKind(err)
				return k == "panic" || k == "hang"
			}})
	})
}

// C01 on nearly-full disks: requests that run out of space half-way (short writes at index-block edges, creations
// without room) are where an acknowledged change can stay in the caches only.  At every restart action and at the
// end, the device as it is at that moment is recovered by a second server (a crash: what the journal holds only in
// memory is gone) and must show everything acknowledged so far.
func TestC01Full(t *testing.T) {
	rapid.Check(t, func(t *rapid.T) {
		runFullDiskCase(t, fullCfg{Prop: "C01", Fsck: FsckOpts{}, CrashImage: true, ReadHoles: true,
			Relevant: func(err error) bool { return errKind(err) == "crash" }})
	})
}

// Refused requests seen by concurrent clients: the enumerated windows of the C03 check whose held request is one
// that is refused after it has changed cached state (RENAME or CREATE with a name beyond the limit), with a second
// client waiting for the same directory and, in one family, a third pushing the directory's inode out of the cache
// - under the linearizability oracle: no reply of the other clients and nothing in the final state may show a trace
// of the refused request.
func TestC09Enum(t *testing.T) {
	enumLin(t, "C09", func(ec enumCase) bool {
		if ec.Op0.Kind == "renamelong" || ec.Op0.Kind == "createlong" {
			return true
		}
		for _, o := range ec.Prog1 {
			if o.Kind == "renamelong" || o.Kind == "createlong" {
				return true
			}
		}
		return false
	})
}
