package checks

// A recording disk.  Every Write and Barrier is appended to a trace under
// one mutex: that order is the disk's linearization, whoever issued the
// event (request handlers, the journal's logger and installer, shrinker
// threads).  From the trace the harness builds crash images: the disk as
// it would be if power were cut after a prefix of the events, optionally
// with some of the writes issued since the last barrier missing.
//
// Blocks are immutable once recorded (Write copies), so images share them.

import (
	"sync"
	"sync/atomic"
	"time"
)

const BlockSize = 4096

type Event struct {
	Addr    uint64
	Blk     []byte // nil for a barrier
	Barrier bool
}

type Disk struct {
	mu      sync.Mutex
	size    uint64
	init    map[uint64][]byte // contents at construction (never modified)
	cur     map[uint64][]byte // writes since construction
	trace   []Event
	record  bool
	reads   uint64
	closed  bool
	gate    chan struct{} // non-nil: writes block until it is closed (the device stopped accepting writes)
	hook    atomic.Pointer[func(kind string, addr uint64)]
	nwrites uint64
}

// SetHook installs f, called (outside the disk's mutex, on the caller's goroutine) at the start of every
// Read ("r"), at the end of every Read when the data has been fetched ("R") and at the start of every Write ("w"); nil removes it.  Used to hold one client between two of its disk accesses.
func (d *Disk) SetHook(f func(kind string, addr uint64)) {
	if f == nil {
		d.hook.Store(nil)
		return
	}
	d.hook.Store(&f)
}

// DiskPause holds the goroutine registered with Enter at its K-th disk access until Release or MaxWait.
type DiskPause struct {
	K       int32
	MaxWait time.Duration
	gid     atomic.Uint64
	n       atomic.Int32
	Paused  atomic.Bool
	reached chan struct{}
	release chan struct{}
	once    sync.Once
	ronce   sync.Once
}

func NewDiskPause(k int, maxWait time.Duration) *DiskPause {
	return &DiskPause{K: int32(k), MaxWait: maxWait, reached: make(chan struct{}), release: make(chan struct{})}
}

// Enter registers the calling goroutine as the one to hold.
func (p *DiskPause) Enter() { p.gid.Store(goid()) }

// Reach marks the pause point as reached (also called when the held client finishes without reaching it).
func (p *DiskPause) Reach()   { p.once.Do(func() { close(p.reached) }) }
func (p *DiskPause) Release() { p.ronce.Do(func() { close(p.release) }) }

// Reached is closed once the held client sits at its pause point (or has finished).
func (p *DiskPause) Reached() <-chan struct{} { return p.reached }

func (p *DiskPause) Hook(kind string, addr uint64) {
	if g := p.gid.Load(); g == 0 || goid() != g {
		return
	}
	if p.n.Add(1)-1 != p.K {
		return
	}
	p.Paused.Store(true)
	p.Reach()
	select {
	case <-p.release:
	case <-time.After(p.MaxWait):
	}
}

// CloseGate makes every later Write block until OpenGate; it returns the disk contents at that moment.
func (d *Disk) CloseGate() map[uint64][]byte {
	d.mu.Lock()
	d.gate = make(chan struct{})
	d.mu.Unlock()
	return d.Snapshot()
}

func (d *Disk) OpenGate() {
	d.mu.Lock()
	if d.gate != nil {
		close(d.gate)
		d.gate = nil
	}
	d.mu.Unlock()
}

var zeroBlock = make([]byte, BlockSize)

// NewDisk returns an all-zero recording disk.
func NewDisk(size uint64) *Disk {
	return &Disk{size: size, init: map[uint64][]byte{}, cur: map[uint64][]byte{}, record: true}
}

// NewDiskFrom returns a recording disk whose initial contents are img (not copied; must not be modified).
func NewDiskFrom(size uint64, img map[uint64][]byte) *Disk {
	return &Disk{size: size, init: img, cur: map[uint64][]byte{}, record: true}
}

func (d *Disk) SetRecord(on bool) {
	d.mu.Lock()
	d.record = on
	d.mu.Unlock()
}

func (d *Disk) get(a uint64) []byte {
	if b, ok := d.cur[a]; ok {
		return b
	}
	if b, ok := d.init[a]; ok {
		return b
	}
	return zeroBlock
}

func (d *Disk) Read(a uint64) []byte {
	if h := d.hook.Load(); h != nil {
		(*h)("r", a)
	}
	d.mu.Lock()
	if a >= d.size {
		d.mu.Unlock()
		panic("crashdisk: read out of bounds")
	}
	b := make([]byte, BlockSize)
	copy(b, d.get(a))
	d.reads++
	d.mu.Unlock()
	if h := d.hook.Load(); h != nil {
		(*h)("R", a) // the data has been fetched; delivering it may take a while
	}
	return b
}

func (d *Disk) ReadTo(a uint64, b []byte) {
	if h := d.hook.Load(); h != nil {
		(*h)("r", a)
	}
	d.mu.Lock()
	if a >= d.size {
		d.mu.Unlock()
		panic("crashdisk: read out of bounds")
	}
	copy(b, d.get(a))
	d.mu.Unlock()
	if h := d.hook.Load(); h != nil {
		(*h)("R", a)
	}
}

func (d *Disk) Write(a uint64, v []byte) {
	if len(v) != BlockSize {
		panic("crashdisk: write of a non-block")
	}
	b := make([]byte, BlockSize)
	copy(b, v)
	if h := d.hook.Load(); h != nil {
		(*h)("w", a)
	}
	d.mu.Lock()
	for d.gate != nil {
		g := d.gate
		d.mu.Unlock()
		<-g
		d.mu.Lock()
	}
	if a >= d.size {
		d.mu.Unlock()
		panic("crashdisk: write out of bounds")
	}
	d.cur[a] = b
	atomic.AddUint64(&d.nwrites, 1)
	if d.record {
		d.trace = append(d.trace, Event{Addr: a, Blk: b})
	}
	d.mu.Unlock()
}

func (d *Disk) Size() uint64 { return d.size }

// WaitQuiet returns once no write has arrived for the duration quiet (or max has passed): background
// installation has probably caught up.  Only used to set a scene, never for a verdict.
func (d *Disk) WaitQuiet(quiet, max time.Duration) {
	t0 := time.Now()
	last, since := atomic.LoadUint64(&d.nwrites), time.Now()
	for time.Since(t0) < max {
		time.Sleep(50 * time.Microsecond)
		if n := atomic.LoadUint64(&d.nwrites); n != last {
			last, since = n, time.Now()
		} else if time.Since(since) >= quiet {
			return
		}
	}
}

func (d *Disk) Barrier() {
	d.mu.Lock()
	if d.record {
		d.trace = append(d.trace, Event{Barrier: true})
	}
	d.mu.Unlock()
}

func (d *Disk) Close() {}

// Mark returns the current length of the trace.
func (d *Disk) Mark() int {
	d.mu.Lock()
	n := len(d.trace)
	d.mu.Unlock()
	return n
}

// Trace returns the events recorded so far (shared, read-only).
func (d *Disk) Trace() []Event {
	d.mu.Lock()
	t := d.trace[:len(d.trace):len(d.trace)]
	d.mu.Unlock()
	return t
}

// Snapshot returns the current contents as an immutable image map.
func (d *Disk) Snapshot() map[uint64][]byte {
	d.mu.Lock()
	m := make(map[uint64][]byte, len(d.init)+len(d.cur))
	for a, b := range d.init {
		m[a] = b
	}
	for a, b := range d.cur {
		m[a] = b
	}
	d.mu.Unlock()
	return m
}

// Clone returns an independent recording disk with the current contents.
func (d *Disk) Clone() *Disk {
	return NewDiskFrom(d.size, d.Snapshot())
}

// Pending returns the indices (into trace[0:k]) of the writes issued after
// the last barrier in trace[0:k].
func Pending(trace []Event, k int) []int {
	var p []int
	for i := k - 1; i >= 0; i-- {
		if trace[i].Barrier {
			break
		}
		p = append(p, i)
	}
	// ascending order
	for i, j := 0, len(p)-1; i < j; i, j = i+1, j-1 {
		p[i], p[j] = p[j], p[i]
	}
	return p
}

// ImageAt builds the crash image "events trace[0:k] applied in order,
// except the writes whose index is in drop".  drop may only name writes
// returned by Pending(trace, k); the caller guarantees that.
func (d *Disk) ImageAt(k int, drop map[int]bool) *Disk {
	d.mu.Lock()
	trace := d.trace
	d.mu.Unlock()
	return ImageOf(d.size, d.init, trace, k, drop)
}

func ImageOf(size uint64, init map[uint64][]byte, trace []Event, k int, drop map[int]bool) *Disk {
	m := make(map[uint64][]byte, len(init)+64)
	for a, b := range init {
		m[a] = b
	}
	for i := 0; i < k; i++ {
		e := trace[i]
		if e.Barrier || drop[i] {
			continue
		}
		m[e.Addr] = e.Blk
	}
	return NewDiskFrom(size, m)
}

// A crash variant: which pending writes are lost.
type Variant struct {
	Name string
	Drop map[int]bool
}

// Variants enumerates the loss patterns explored at crash point k:
// nothing lost; everything un-barriered lost; only the last pending write
// survives; only the first is lost; every single-write loss when few are
// pending; and nrand pseudo-random subsets that are a pure function of
// (salt, k).
func Variants(trace []Event, k int, salt uint64, nrand int) []Variant {
	vs := []Variant{{Name: "cut", Drop: nil}}
	p := Pending(trace, k)
	if len(p) == 0 {
		return vs
	}
	all := map[int]bool{}
	for _, i := range p {
		all[i] = true
	}
	vs = append(vs, Variant{"drop-all-pending", all})
	if len(p) >= 2 {
		keepLast := map[int]bool{}
		for _, i := range p[:len(p)-1] {
			keepLast[i] = true
		}
		vs = append(vs, Variant{"keep-only-last", keepLast})
		vs = append(vs, Variant{"drop-first", map[int]bool{p[0]: true}})
		if len(p) <= 8 {
			for _, i := range p[1:] {
				vs = append(vs, Variant{"drop-one", map[int]bool{i: true}})
			}
		}
		for r := 0; r < nrand; r++ {
			h := Hash(salt, k, r)
			dm := map[int]bool{}
			for j, i := range p {
				if (h>>(uint(j)%61))&1 == 1 {
					dm[i] = true
				}
				if j%61 == 60 {
					h = Hash(h, j)
				}
			}
			if len(dm) > 0 && len(dm) < len(p) {
				vs = append(vs, Variant{"drop-subset", dm})
			}
		}
	}
	return vs
}
