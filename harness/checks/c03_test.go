package checks

// C03 - concurrent RPCs are linearizable.

import (
	"fmt"
	"os"
	"strings"
	"testing"
	"time"

	"github.com/anishathalye/porcupine"
	nt "github.com/mit-pdos/go-nfsd/nfstypes"
	"pgregory.net/rapid"
)

type concCase struct {
	Unstable    bool
	LowChildren bool
	ViaRPC      bool
	Progs       [][]cOp
	YieldSeed   uint64
	Pause       *pauseSpec
}

func genConcCase(t *rapid.T, cfg cGenCfg, rpcPct int) concCase {
	cc := concCase{Unstable: rapid.Bool().Draw(t, "unstable"), LowChildren: rapid.Bool().Draw(t, "lowchildren"), ViaRPC: pct(t, rpcPct, "rpc")}
	nclients := rapid.IntRange(2, 4).Draw(t, "clients")
	var tag uint32
	for c := 0; c < nclients; c++ {
		var prog []cOp
		for i := 0; i < rapid.IntRange(3, 8).Draw(t, "nops"); i++ {
			prog = append(prog, genCOp(t, cfg, &tag))
		}
		cc.Progs = append(cc.Progs, prog)
	}
	switch rapid.IntRange(0, 3).Draw(t, "schedule") {
	case 0: // free running
	case 1: // random yields and short sleeps at lock and commit points
		cc.YieldSeed = rapid.Uint64Range(1, 1<<62).Draw(t, "yieldseed")
	default: // one client is held at one of its lock/commit points while the others run to completion
		if !cc.ViaRPC {
			cc.Pause = &pauseSpec{Client: rapid.IntRange(0, nclients-1).Draw(t, "pauseclient"), Hook: rapid.IntRange(0, 24).Draw(t, "pausehook"), MaxWait: 20 * time.Millisecond}
		}
	}
	return cc
}

func (cc concCase) describe() map[string]any {
	var progs [][]string
	for _, p := range cc.Progs {
		var l []string
		for _, o := range p {
			l = append(l, o.String())
		}
		progs = append(progs, l)
	}
	pause := "none"
	if cc.Pause != nil {
		pause = fmt.Sprintf("client %d held at its lock/commit point #%d until the others finish (at most %v)", cc.Pause.Client, cc.Pause.Hook, cc.Pause.MaxWait)
	}
	return map[string]any{"pause": pause, "unstable": cc.Unstable, "children_numbered_below_parents": cc.LowChildren, "rpc": cc.ViaRPC, "yield_seed": cc.YieldSeed, "programs": progs}
}

func TestC03Linearizable(t *testing.T) {
	if EnvInt("VERIF_SHARD", 0) == 0 {
		probeKF4()
	}
	rapid.Check(t, func(t *rapid.T) {
		cfg := cGenCfg{RootPlus: true, DataOps: true, NameOps: true, DirRename: true, BigTrunc: rapid.IntRange(0, 3).Draw(t, "bigtrunc") == 0,
			Focus: rapid.Bool().Draw(t, "focus"), FocusDir: rapid.IntRange(0, 2).Draw(t, "focusdir"), HandleOps: rapid.Bool().Draw(t, "handleops")}
		cc := genConcCase(t, cfg, 15)
		// half of the cases on a tiny data region, where freed blocks are handed out again at once
		size := uint64(9000)
		if rapid.Bool().Draw(t, "tinydisk") {
			size = 1540 + 96
			St.Class("history_on_a_tiny_data_region")
		}
		d := NewDisk(size)
		d.SetRecord(false)
		w, err := setupWorld(cc.Unstable, cc.LowChildren, d)
		if err != nil {
			failf(t, "C03", nil, "setup: %v", err)
		}
		defer func() { w.S.Stop() }()
		run := w.runConcurrent(cc.Progs, cc.YieldSeed, cc.ViaRPC, 60*time.Second, cc.Pause)
		detail := cc.describe()
		detail["history"] = describeHistory(run.Ops)
		if run.Slow {
			St.Class("call_too_slow_for_the_harness_not_judged")
			t.Skip("harness too slow")
		}
		if run.Hung && !run.HungInFinal {
			// a hang of concurrent requests is C06's subject; here the history cannot be judged
			St.Class("run_hung_not_judged")
			t.Skip("the run did not terminate (reported by the C06 check)")
		}
		if run.HungInFinal {
			failf(t, "C03", detail, "all clients returned, but the sequential observation of the final state does not terminate: the concurrent requests left a state no sequential order produces")
		}
		if run.Panic != "" {
			St.Class("run_panicked_not_judged")
			t.Skip("a request panicked (reported by the C11 check)")
		}
		res, _ := porcupine.CheckOperationsVerbose(cModel, run.Ops, 30*time.Second)
		St.Eval(1)
		nconf := conflicting(run.Ops)
		if nconf > 0 {
			St.NT(Hash(describeHistory(run.Ops)))
			St.Class("history_with_overlapping_conflicting_operations")
		}
		if cc.YieldSeed != 0 {
			St.Class("history_with_injected_yields")
		}
		for _, o := range run.Ops {
			if in := o.Input.(cOp); in.H != "" && o.ClientId < len(cc.Progs) {
				St.ClassN("requests_through_the_handle_of_a_file_the_programs_created", 1)
				if !o.Output.(cRes).OK {
					St.ClassN("requests_through_the_handle_of_a_file_removed_or_replaced_by_then", 1)
				}
			}
		}
		if run.Paused {
			St.Class("history_with_a_client_held_at_a_lock_or_commit_point")
		}
		if cc.LowChildren {
			St.Class("history_with_children_numbered_below_parents")
		}
		if cfg.Focus {
			St.Class("history_focused_on_one_directory")
		}
		if cfg.BigTrunc {
			St.Class("history_with_shrinker_sized_truncations")
		}
		if cc.ViaRPC {
			St.Class("history_via_rpc")
		}
		switch res {
		case porcupine.Illegal:
			failf(t, "C03", detail, "the concurrent history (%d operations, %d overlapping conflicting pairs) is not linearizable: no sequential order of the operations explains the replies and the final state", len(run.Ops), nconf)
		case porcupine.Unknown:
			St.Class("linearizability_check_timed_out")
		}
		if St.WantSample(nconf > 0) {
			h := describeHistory(run.Ops)
			if len(h) > 40 {
				h = append(h[:40], fmt.Sprintf("... (%d more)", len(h)-40))
			}
			St.Sample(map[string]any{"kind": "concurrent history", "case": cc.describe(), "history": h, "overlapping_conflicting_pairs": nconf}, nconf > 0)
		}
	})
}

// Windows: short, dense programs in one directory; client 0 is held at one of its lock or commit
// points while the others run to completion - the windows in which a half-applied effect would show.
func TestC03Windows(t *testing.T) {
	rapid.Check(t, func(t *rapid.T) {
		unstable := rapid.Bool().Draw(t, "unstable")
		low := rapid.IntRange(0, 3).Draw(t, "lowchildren") > 0
		fulldisk := rapid.IntRange(0, 2).Draw(t, "fulldisk") == 0
		size := uint64(9000)
		if fulldisk {
			size = 1540 + 80
		}
		d := NewDisk(size)
		d.SetRecord(false)
		w, err := setupWorld(unstable, low, d)
		if err != nil {
			failf(t, "C03", nil, "setup: %v", err)
		}
		defer func() { w.S.Stop() }()
		w.FullDisk = fulldisk
		cfg := cGenCfg{RootPlus: true, DataOps: true, NameOps: true, DirRename: true, Focus: true, FocusDir: rapid.IntRange(0, 2).Draw(t, "dir"), HandleOps: rapid.Bool().Draw(t, "handleops")}
		var tag uint32
		// prefix: executed sequentially, part of the history
		var pre []cOp
		for i := 0; i < rapid.IntRange(0, 4).Draw(t, "npre"); i++ {
			o := genCOp(t, cfg, &tag)
			if o.Kind == "create" || o.Kind == "mkdir" || o.Kind == "write" {
				pre = append(pre, o)
			}
		}
		init := w.Init
		if fulldisk {
			// data in f0 (so that truncating it frees blocks), then a filler leaves 0..2 free blocks
			pre = append(pre, cOp{Kind: "write", File: 0, Off: 0, Data: string(patternData(999, 8000)), Stable: 2})
		}
		api := w.S.API()
		var ops []porcupine.Operation
		clock := int64(0)
		for _, o := range pre {
			res := w.exec(api, o)
			ops = append(ops, porcupine.Operation{ClientId: 9, Input: o, Call: clock + 1, Output: res, Return: clock + 2})
			clock += 2
		}
		if fulldisk {
			free := uint64(rapid.IntRange(0, 2).Draw(t, "freeblocks"))
			if err := fillWorld(w, free); err != nil {
				t.Skip("could not fill the disk: " + err.Error())
			}
			init.Fixed = append(append([]string{}, init.Fixed...), "fill0", "fill1", "fill2", "fill3", "fill4", "fill5", "fill6", "fill7", "fill8", "fill9")[:4+fillCount(w)]
		}
		nclients := rapid.IntRange(2, 3).Draw(t, "clients")
		progs := make([][]cOp, nclients)
		for c := range progs {
			for i := 0; i < rapid.IntRange(1, 3).Draw(t, "nops"); i++ {
				o := genCOp(t, cfg, &tag)
				o.MayFail = fulldisk
				progs[c] = append(progs[c], o)
			}
		}
		pause := &pauseSpec{Client: 0, Hook: rapid.IntRange(0, 9).Draw(t, "hook"), MaxWait: 20 * time.Millisecond}
		run := w.runConcurrentFrom(progs, 0, false, 10*time.Second, pause, clock)
		all := append(ops, run.Ops...)
		cc := concCase{Unstable: unstable, LowChildren: low, Progs: progs, Pause: pause}
		detail := cc.describe()
		detail["full_disk"] = fulldisk
		detail["history"] = describeHistory(all)
		if run.Slow {
			St.Class("call_too_slow_for_the_harness_not_judged")
			t.Skip("harness too slow")
		}
		if run.Hung && !run.HungInFinal {
			St.Class("run_hung_not_judged")
			t.Skip("the run did not terminate (reported by the C06 check)")
		}
		if run.HungInFinal {
			failf(t, "C03", detail, "all clients returned, but the sequential observation of the final state does not terminate: the concurrent requests left a state no sequential order produces")
		}
		if run.Panic != "" {
			t.Skip("a request panicked (reported by the C11 check)")
		}
		res, _ := porcupine.CheckOperationsVerbose(cModelFor(init), all, 30*time.Second)
		St.Eval(1)
		nconf := conflicting(run.Ops)
		if run.Paused && nconf > 0 {
			St.NT(Hash(describeHistory(all)))
			St.Class("window_history_with_conflict_while_a_client_is_held")
		}
		if fulldisk {
			St.Class("window_history_on_a_full_disk")
		}
		if res == porcupine.Illegal {
			failf(t, "C03", detail, "the history (%d operations; client 0 held at its lock/commit point #%d) is not linearizable", len(all), pause.Hook)
		}
		// the disk must still be a well-formed file system
		var ferr error
		if o := Guard(10*time.Second, func() { w.S.Quiesce(); ferr = Fsck(w.S.N.VerifFsState(), FsckOpts{Allocators: true}).Err() }); o.Slow {
			St.Class("call_too_slow_for_the_harness_not_judged")
		} else if o.Bad() || ferr != nil {
			failf(t, "C03", detail, "after the concurrent history the disk is damaged: %v %v", o, ferr)
		}
		if St.WantSample(run.Paused && nconf > 0) {
			St.Sample(map[string]any{"kind": "window history", "case": cc.describe(), "history": describeHistory(all)}, run.Paused && nconf > 0)
		}
	})
}

// Small-scope enumeration: every pair (one operation of client 0, a program of one or two mutating
// operations of client 1) over two names in one directory (or over the two shared files), for every
// initial state of those names, with client 0 held at each of its first six lock/commit points while
// client 1 runs to completion.  thorough: the whole space; quick: a seed-dependent quarter of it.
type enumCase struct {
	Data     bool
	FullDisk bool
	// HalfFreed: the lowest free inode number belongs to a removed big file whose blocks the shrinker had not
	// finished freeing when the server was stopped: the next allocation finds it and has to finish the job first
	HalfFreed bool
	// HalfCut: the shared file f0 held 600 blocks, was cut to 0 and the server stopped before the shrinker had freed
	// them: f0 is live, empty and still owns blocks; the first WRITE/SETATTR that meets it finishes the job, in
	// transactions of its own, with the file unlocked in between
	HalfCut bool
	// HFile: the operations with kinds ending in h go through the handle of the file D0/a, which holds two blocks of data
	HFile bool
	// Sweep: 130 further files exist, and a third client looks at all of them while client 0 is held (the cached
	// copies of the inodes client 0 works on are pushed out of the inode cache meanwhile)
	Sweep bool
	// Cold: the server is restarted before the two clients start (nothing is cached); DiskPause: client 0 is held
	// at its Hook-th access to the device instead of its Hook-th lock/commit/abort point
	Cold, DiskPause bool
	Pre             []cOp
	Op0       cOp
	Prog1     []cOp
	Hook      int
}

func enumSpace() []enumCase {
	const D = 1 // D0: with the low-children setup its entries are numbered below the directory
	nameOps := []cOp{
		{Kind: "create", Dir: D, Name: "a"}, {Kind: "create", Dir: D, Name: "b"}, {Kind: "remove", Dir: D, Name: "a"}, {Kind: "remove", Dir: D, Name: "b"},
		{Kind: "rename", Dir: D, Name: "a", Dir2: D, Name2: "b"}, {Kind: "rename", Dir: D, Name: "b", Dir2: D, Name2: "a"},
		{Kind: "mkdir", Dir: D, Name: "x"}, {Kind: "rmdir", Dir: D, Name: "x"}, {Kind: "rename", Dir: D, Name: "x", Dir2: D, Name2: "y"},
	}
	nameReads := []cOp{{Kind: "lookup", Dir: D, Name: "a"}, {Kind: "lookup", Dir: D, Name: "b"}, {Kind: "lookup", Dir: D, Name: "x"}, {Kind: "readdir", Dir: D}}
	var cases []enumCase
	for pre := 0; pre < 8; pre++ {
		var p []cOp
		if pre&1 != 0 {
			p = append(p, cOp{Kind: "create", Dir: D, Name: "a"})
		}
		if pre&2 != 0 {
			p = append(p, cOp{Kind: "create", Dir: D, Name: "b"})
		}
		if pre&4 != 0 {
			p = append(p, cOp{Kind: "mkdir", Dir: D, Name: "x"})
		}
		for _, op0 := range append(append([]cOp{}, nameOps...), nameReads...) {
			var progs [][]cOp
			for _, a := range nameOps {
				progs = append(progs, []cOp{a})
				for _, b := range nameOps {
					progs = append(progs, []cOp{a, b})
				}
			}
			for _, prog := range progs {
				// independent programs commute trivially: keep those in which every operation of client 1
				// touches a name client 0's operation touches (a listing touches all names)
				related := true
				for _, o := range prog {
					if !(op0.Kind == "readdir" || o.Name == op0.Name || o.Name2 == op0.Name || (op0.Name2 != "" && (o.Name == op0.Name2 || o.Name2 == op0.Name2)) ||
						(isDirName(o.Name) != isDirName(op0.Name) && false)) {
						related = false
					}
				}
				if !related {
					continue
				}
				for hook := 0; hook < 6; hook++ {
					cases = append(cases, enumCase{Pre: p, Op0: op0, Prog1: prog, Hook: hook})
				}
			}
		}
	}
	for _, op0 := range []cOp{{Kind: "create", Dir: D, Name: "a"}, {Kind: "mkdir", Dir: D, Name: "x"}} {
		for _, prog := range [][]cOp{{op0}, {{Kind: "create", Dir: D, Name: "b"}, op0}, {op0, {Kind: "rename", Dir: D, Name: op0.Name, Dir2: D, Name2: map[string]string{"a": "b", "x": "y"}[op0.Name]}}} {
			for hook := 0; hook < 12; hook++ {
				cases = append(cases, enumCase{HalfFreed: true, Op0: op0, Prog1: prog, Hook: hook})
			}
		}
	}
	w := func(f int, off uint64, n int, tag uint32) cOp {
		return cOp{Kind: "write", File: f, Off: off, Data: string(patternData(tag, uint64(n))), Stable: 2}
	}
	dataMut := []cOp{w(0, 0, 100, 1), w(0, 4090, 20, 2), {Kind: "setattr", File: 0, Size: 0}, {Kind: "setattr", File: 0, Size: 5000},
		w(1, 0, 100, 3), w(1, 4096, 100, 4), {Kind: "setattr", File: 1, Size: 0}, {Kind: "setattr", File: 1, Size: 4097}}
	dataReads := []cOp{{Kind: "read", File: 0, Off: 0, Cnt: 8192}, {Kind: "getattr", File: 0}}
	for _, full := range []bool{false, true} {
		for _, op0 := range append(append([]cOp{}, dataMut...), dataReads...) {
			var progs [][]cOp
			for _, a := range dataMut {
				progs = append(progs, []cOp{a})
				for _, b := range dataMut {
					progs = append(progs, []cOp{a, b})
				}
			}
			for _, prog := range progs {
				for hook := 0; hook < 4; hook++ {
					pre := []cOp{w(0, 0, 8000, 9), w(1, 0, 100, 8)}
					cases = append(cases, enumCase{Data: true, FullDisk: full, Pre: pre, Op0: op0, Prog1: prog, Hook: hook})
				}
			}
		}
	}
	// a file moved to another directory (the request gives up its locks and takes {from-dir, to-dir, file} again in
	// inode order) while the other client makes requests in the two directories - among them creations that are
	// refused after they have started (which makes the server forget its cached copy of the directory)
	for _, mv := range []cOp{{Kind: "rename", Dir: D, Name: "a", Dir2: 0, Name2: "a"}, {Kind: "rename", Dir: 0, Name: "a", Dir2: D, Name2: "b"}} {
		other := []cOp{{Kind: "createlong", Dir: D}, {Kind: "createlong", Dir: 0}, {Kind: "create", Dir: D, Name: "b"}, {Kind: "create", Dir: 0, Name: "b"},
			{Kind: "create", Dir: D, Name: "c"}, {Kind: "create", Dir: 0, Name: "c"}, {Kind: "remove", Dir: mv.Dir, Name: "a"}, {Kind: "mkdir", Dir: mv.Dir2, Name: "x"}}
		for _, a := range other {
			progs := [][]cOp{{a}}
			for _, b := range other {
				progs = append(progs, []cOp{a, b})
			}
			for _, prog := range progs {
				for hook := 0; hook < 12; hook++ {
					cases = append(cases, enumCase{Pre: []cOp{{Kind: "create", Dir: mv.Dir, Name: "a"}}, Op0: mv, Prog1: prog, Hook: hook})
				}
			}
		}
	}
	// a request that is refused after it has changed cached state (RENAME to a name that is too long), held before
	// and at its abort, while a second client waits for the same directory and a third pushes that directory's
	// inode out of the cache by looking at 130 other files
	for _, low := range []bool{false, true} {
		_ = low
		for _, prog := range [][]cOp{{{Kind: "lookup", Dir: D, Name: "a"}}, {{Kind: "create", Dir: D, Name: "a"}}, {{Kind: "remove", Dir: D, Name: "a"}},
			{{Kind: "lookup", Dir: D, Name: "a"}, {Kind: "create", Dir: D, Name: "b"}}, {{Kind: "rename", Dir: D, Name: "a", Dir2: D, Name2: "b"}}} {
			for hook := 0; hook < 8; hook++ {
				cases = append(cases, enumCase{Sweep: true, Pre: []cOp{{Kind: "create", Dir: D, Name: "a"}}, Op0: cOp{Kind: "renamelong", Dir: D, Name: "a"}, Prog1: prog, Hook: hook})
			}
		}
	}
	// READDIRPLUS of a directory whose entry "a" (numbered below the directory) is being changed by a SETATTR that
	// sets size and mtime together: the listing shows the file before or after, never half of it.  (Only requests
	// on the file itself run next to the listing: a request that locks the directory would meet known finding KF1.)
	plusD := cOp{Kind: "readdirplus", Dir: D}
	sm := func(size uint64, mt uint32) cOp { return cOp{Kind: "setattrhm", Size: size, Cnt: mt} }
	for pre := 0; pre < 2; pre++ {
		p := []cOp{{Kind: "create", Dir: D, Name: "a"}}
		if pre == 1 {
			p = append(p, cOp{Kind: "create", Dir: D, Name: "b"})
		}
		for _, op0 := range []cOp{sm(100, 7777), sm(0, 7777), sm(5000, 7777), sm(3*4096, 7777)} {
			for _, prog := range [][]cOp{{plusD}, {plusD, {Kind: "getattrh"}}} {
				for hook := 0; hook < 4; hook++ {
					cases = append(cases, enumCase{HFile: true, Pre: p, Op0: op0, Prog1: prog, Hook: hook})
				}
				for hook := 0; hook < 10; hook++ {
					cases = append(cases, enumCase{HFile: true, Cold: true, DiskPause: true, Pre: p, Op0: op0, Prog1: prog, Hook: hook})
				}
			}
		}
		for _, prog := range [][]cOp{{sm(100, 7777)}, {sm(100, 7777), sm(5000, 8888)}, {sm(0, 7777)}, {{Kind: "writeh", Off: 0, Data: string(patternData(41, 100)), Stable: 2}, sm(100, 7777)}} {
			for hook := 0; hook < 10; hook++ {
				cases = append(cases, enumCase{HFile: true, Pre: p, Op0: plusD, Prog1: prog, Hook: hook})
				cases = append(cases, enumCase{HFile: true, Cold: true, DiskPause: true, Pre: p, Op0: plusD, Prog1: prog, Hook: hook})
			}
		}
	}
	// the first families once more on a cold server (restart before the two clients start: no name cache, no cached
	// inodes, so the requests read directories and inodes from the device inside their windows)
	for _, op0 := range []cOp{{Kind: "remove", Dir: D, Name: "a"}, {Kind: "lookup", Dir: D, Name: "a"}, {Kind: "rename", Dir: D, Name: "a", Dir2: D, Name2: "b"}, {Kind: "rmdir", Dir: D, Name: "x"}} {
		for _, prog := range [][]cOp{{{Kind: "create", Dir: D, Name: "b"}}, {{Kind: "create", Dir: D, Name: "c"}}, {{Kind: "mkdir", Dir: D, Name: "y"}},
			{{Kind: "rename", Dir: D, Name: "a", Dir2: D, Name2: "c"}, {Kind: "create", Dir: D, Name: "a"}}, {{Kind: "create", Dir: D, Name: "b"}, {Kind: "remove", Dir: D, Name: "b"}}} {
			for hook := 0; hook < 8; hook++ {
				cases = append(cases, enumCase{Cold: true, Pre: []cOp{{Kind: "create", Dir: D, Name: "a"}, {Kind: "mkdir", Dir: D, Name: "x"}}, Op0: op0, Prog1: prog, Hook: hook})
				cases = append(cases, enumCase{Cold: true, DiskPause: true, Pre: []cOp{{Kind: "create", Dir: D, Name: "a"}, {Kind: "mkdir", Dir: D, Name: "x"}}, Op0: op0, Prog1: prog, Hook: hook})
			}
		}
	}
	// a file reached through its handle while its name is removed, replaced or moved
	wh := func(off uint64, n int, tag uint32) cOp {
		return cOp{Kind: "writeh", Off: off, Data: string(patternData(tag, uint64(n))), Stable: 2}
	}
	hMut := []cOp{wh(0, 100, 21), wh(4090, 20, 22), {Kind: "setattrh", Size: 0}, {Kind: "setattrh", Size: 5000},
		{Kind: "remove", Dir: D, Name: "a"}, {Kind: "rename", Dir: D, Name: "a", Dir2: D, Name2: "b"}, {Kind: "rename", Dir: D, Name: "b", Dir2: D, Name2: "a"},
		{Kind: "create", Dir: D, Name: "a"}}
	hReads := []cOp{{Kind: "readh", Off: 0, Cnt: 8192}, {Kind: "getattrh"}, {Kind: "lookup", Dir: D, Name: "a"}}
	for pre := 0; pre < 2; pre++ {
		p := []cOp{{Kind: "create", Dir: D, Name: "a"}}
		if pre == 1 {
			p = append(p, cOp{Kind: "create", Dir: D, Name: "b"})
		}
		for _, op0 := range append(append([]cOp{}, hMut...), hReads...) {
			for _, a := range hMut {
				progs := [][]cOp{{a}}
				for _, b := range hMut {
					progs = append(progs, []cOp{a, b})
				}
				for _, prog := range progs {
					// at least one side uses the handle and at least one side changes a name
					usesH, names := strings.HasSuffix(op0.Kind, "h"), !strings.HasSuffix(op0.Kind, "h") && op0.Kind != "lookup"
					for _, o := range prog {
						usesH = usesH || strings.HasSuffix(o.Kind, "h")
						names = names || !strings.HasSuffix(o.Kind, "h")
					}
					if !usesH || !names {
						continue
					}
					for hook := 0; hook < 5; hook++ {
						cases = append(cases, enumCase{HFile: true, Pre: p, Op0: op0, Prog1: prog, Hook: hook})
					}
				}
			}
		}
	}
	// a request that finishes an interrupted cut of f0 (and holds no lock while it does) against a client that
	// refills the file, grows it and cuts it again
	for _, op0 := range []cOp{w(0, BlockSize+100, 10, 21), w(0, 100, 10, 22), {Kind: "setattr", File: 0, Size: BlockSize + 5}, {Kind: "setattr", File: 0, Size: 2 * BlockSize}} {
		for _, prog := range [][]cOp{
			{w(0, 0, 2*BlockSize, 23), {Kind: "setattr", File: 0, Size: 600 * BlockSize}, {Kind: "setattr", File: 0, Size: 0}},
			{w(0, 0, 2*BlockSize, 24), {Kind: "setattr", File: 0, Size: 600 * BlockSize}, {Kind: "setattr", File: 0, Size: 100}},
			{w(0, BlockSize, BlockSize, 25), {Kind: "setattr", File: 0, Size: 0}},
		} {
			for hook := 0; hook < 10; hook++ {
				cases = append(cases, enumCase{Data: true, HalfCut: true, Op0: op0, Prog1: prog, Hook: hook})
				if op0.Kind == "write" {
					// ... and a third client pushes the file's inode out of the cache meanwhile
					cases = append(cases, enumCase{Data: true, HalfCut: true, Sweep: true, Op0: op0, Prog1: prog, Hook: hook})
				}
			}
		}
	}
	return cases
}

// makeHalfFreed: a dense 600-block file is created (it gets the lowest free inode number), removed, and the
// server stopped with the shrinker interrupted and started again.  Reports whether an interrupted free is left.
func makeHalfFreed(w *cWorld) bool {
	api := w.S.API()
	root := w.Dirs[0]
	c := api.NFSPROC3_CREATE(nt.CREATE3args{Where: nt.Diropargs3{Dir: root, Name: "zbig"}})
	if c.Status != nt.NFS3_OK {
		return false
	}
	for i := uint64(0); i < 2; i++ {
		api.NFSPROC3_WRITE(nt.WRITE3args{File: c.Resok.Obj.Handle, Offset: nt.Offset3(i * 300 * BlockSize), Count: 300 * BlockSize, Stable: nt.FILE_SYNC, Data: patternData(uint32(90+i), 300*BlockSize)})
	}
	api.NFSPROC3_REMOVE(nt.REMOVE3args{Object: nt.Diropargs3{Dir: root, Name: "zbig"}})
	w.S.StopCrash()
	w.S.start()
	return len(Fsck(w.S.N.VerifFsState(), FsckOpts{}).HalfFreedFree) > 0
}

func TestC03Enum(t *testing.T) { enumLin(t, "C03", nil) }

// Two clients move two directories into each other (or into directories inside each other), client 0 held at each of
// its first fourteen lock/commit/abort points: in every sequential order exactly one of the two requests succeeds.
func TestC03RenameCycle(t *testing.T) { renameCycle(t, "C03") }

// enumLin runs the enumerated cases (all, or those filter selects) under the linearizability oracle and reports
// violations under prop.
func enumLin(t *testing.T, prop string, filter func(enumCase) bool) {
	shard, nshards := EnvInt("VERIF_SHARD", 0), EnvInt("VERIF_NSHARDS", 1)
	seed := EnvInt("VERIF_SEED", 1)
	cases := enumSpace()
	St.Exhaustive(Thorough())
	run, paused := 0, 0
	for i, ec := range cases {
		if i%nshards != shard || (filter != nil && !filter(ec)) {
			continue
		}
		if !Thorough() && Hash(seed, i)%4 != 0 && !ec.HalfFreed && !ec.HalfCut && !ec.Sweep && prop != "C14" {
			continue
		}
		if only := os.Getenv("VERIF_ENUM_ONLY"); (only == "sweep" && !ec.Sweep) || (only == "plus" && ec.Op0.Kind != "readdirplus" && ec.Op0.Kind != "setattrhm") || (only == "cold" && (!ec.Cold || ec.HFile)) || (only == "halfcut" && !ec.HalfCut) {
			continue // (debugging aid: one family of cases)
		}
		size := uint64(9000)
		if ec.FullDisk {
			size = 1540 + 80
		}
		d := NewDisk(size)
		d.SetRecord(false)
		w, err := setupWorld(true, true, d)
		if err != nil {
			t.Fatalf("setup: %v", err)
		}
		w.FullDisk = ec.FullDisk
		if ec.HalfFreed {
			if makeHalfFreed(w) {
				St.Class("enumerated_cases_starting_with_a_half_freed_inode")
			}
		}
		if ec.Sweep {
			if err := w.addExtras(130); err != nil {
				t.Fatalf("setup: %v", err)
			}
			St.Class("enumerated_cases_with_a_third_client_pushing_inodes_out_of_the_cache")
		}
		api := w.S.API()
		if prop == "C14" {
			// a request that fails early on a dead directory handle (RENAME between two directories, one of them
			// removed) precedes every case: whatever such a request leaves behind in the server's bookkeeping is
			// then used by the overlapping transactions of the case
			if mk := api.NFSPROC3_MKDIR(nt.MKDIR3args{Where: nt.Diropargs3{Dir: w.Dirs[0], Name: "zdead"}}); mk.Status == nt.NFS3_OK {
				api.NFSPROC3_RMDIR(nt.RMDIR3args{Object: nt.Diropargs3{Dir: w.Dirs[0], Name: "zdead"}})
				api.NFSPROC3_RENAME(nt.RENAME3args{From: nt.Diropargs3{Dir: mk.Resok.Obj.Handle, Name: "a"}, To: nt.Diropargs3{Dir: w.Dirs[1], Name: "q"}})
				api.NFSPROC3_RENAME(nt.RENAME3args{From: nt.Diropargs3{Dir: w.Dirs[1], Name: "a"}, To: nt.Diropargs3{Dir: mk.Resok.Obj.Handle, Name: "q"}})
			}
		}
		var ops []porcupine.Operation
		clock := int64(0)
		for _, o := range ec.Pre {
			res := w.exec(api, o)
			ops = append(ops, porcupine.Operation{ClientId: 9, Input: o, Call: clock + 1, Output: res, Return: clock + 2})
			clock += 2
		}
		if ec.HalfCut {
			for _, o := range []cOp{{Kind: "write", File: 0, Off: 0, Data: string(patternData(0xbb1, 300*BlockSize)), Stable: 2},
				{Kind: "write", File: 0, Off: 300 * BlockSize, Data: string(patternData(0xbb2, 300*BlockSize)), Stable: 2}, {Kind: "setattr", File: 0, Size: 0}} {
				ops = append(ops, porcupine.Operation{ClientId: 9, Input: o, Call: clock + 1, Output: w.exec(api, o), Return: clock + 2})
				clock += 2
			}
			w.S.StopCrash()
			w.S.start()
			api = w.S.API()
			if Fsck(w.S.N.VerifFsState(), FsckOpts{}).HalfFreed > 0 {
				St.Class("enumerated_cases_starting_with_a_live_file_whose_cut_was_interrupted")
			}
		}
		hfile := ""
		if ec.HFile {
			hfile = ops[0].Output.(cRes).Handle
			o := cOp{Kind: "writeh", H: hfile, Off: 0, Data: string(patternData(31, 8000)), Stable: 2}
			ops = append(ops, porcupine.Operation{ClientId: 9, Input: o, Call: clock + 1, Output: w.exec(api, o), Return: clock + 2})
			clock += 2
			St.Class("enumerated_cases_with_a_file_used_through_its_handle_while_its_name_changes")
		}
		init := w.Init
		if ec.FullDisk {
			if err := fillWorld(w, 0); err != nil {
				w.S.Stop()
				continue
			}
			init.Fixed = append(append([]string{}, init.Fixed...), "fill0", "fill1", "fill2", "fill3", "fill4", "fill5", "fill6", "fill7", "fill8", "fill9")[:4+fillCount(w)]
		}
		op0 := ec.Op0
		op0.MayFail = ec.FullDisk
		prog1 := append([]cOp{}, ec.Prog1...)
		for k := range prog1 {
			prog1[k].MayFail = ec.FullDisk
			if strings.HasSuffix(prog1[k].Kind, "h") || prog1[k].Kind == "setattrhm" {
				prog1[k].H = hfile
			}
		}
		if strings.HasSuffix(op0.Kind, "h") || op0.Kind == "setattrhm" {
			op0.H = hfile
		}
		if ec.Cold {
			w.S.Restart()
			api = w.S.API()
		}
		progs := [][]cOp{{op0}, prog1}
		if ec.Sweep {
			progs = append(progs, []cOp{{Kind: "sweep"}})
		}
		pause := &pauseSpec{Client: 0, Hook: ec.Hook, MaxWait: 20 * time.Millisecond, Disk: ec.DiskPause}
		r := w.runConcurrentFrom(progs, 0, false, 10*time.Second, pause, clock)
		all := append(ops, r.Ops...)
		cc := concCase{Unstable: true, LowChildren: true, Progs: progs, Pause: pause}
		detail := cc.describe()
		detail["full_disk"], detail["history"], detail["enum_index"] = ec.FullDisk, describeHistory(all), i
		fail := func(format string, a ...any) {
			msg := fmt.Sprintf(format, a...)
			St.Violation(prop, msg, detail)
			t.Fatalf("%s: %s\n%v", prop, msg, detail)
		}
		if r.Slow {
			St.Class("call_too_slow_for_the_harness_not_judged")
			continue
		}
		if prop == "C14" {
			// race build: the detector is the oracle, replies are other properties' subjects
			if !r.Hung && r.Panic == "" {
				Guard(10*time.Second, func() { w.S.Quiesce() })
				w.S.Stop()
			}
			run++
			St.Eval(1)
			if r.Paused {
				paused++
				St.NT(Hash("enum", i))
			}
			if run == 1 {
				St.Sample(map[string]any{"kind": "enumerated two-client case under the race detector", "index": i, "case": cc.describe(), "history": describeHistory(all)}, r.Paused)
			}
			continue
		}
		if r.HungInFinal {
			fail("all clients returned, but the sequential observation of the final state does not terminate: the concurrent requests left a state no sequential order produces")
		}
		if r.Hung || r.Panic != "" {
			St.Class("run_hung_or_panicked_not_judged")
			continue // C06 / C11 report these; the server is wedged, leave it
		}
		if res, _ := porcupine.CheckOperationsVerbose(cModelFor(init), all, 30*time.Second); res == porcupine.Illegal {
			fail("the history (client 0 held at its lock/commit point #%d while client 1 runs) is not linearizable", ec.Hook)
		}
		var ferr error
		if o := Guard(10*time.Second, func() { w.S.Quiesce(); ferr = Fsck(w.S.N.VerifFsState(), FsckOpts{Allocators: true}).Err() }); o.Slow {
			St.Class("call_too_slow_for_the_harness_not_judged")
		} else if o.Bad() || ferr != nil {
			fail("after the concurrent history the disk is damaged: %v %v", o, ferr)
		}
		w.S.Stop()
		run++
		St.Eval(1)
		if r.Paused {
			paused++
			St.NT(Hash("enum", i))
		}
		if run == 1 || (r.Paused && St.WantSample(true)) {
			St.Sample(map[string]any{"kind": "enumerated two-client case", "index": i, "case": cc.describe(), "history": describeHistory(all)}, r.Paused)
		}
	}
	St.ClassN("enumerated_cases_run", run)
	St.ClassN("enumerated_cases_in_which_the_pause_point_was_reached", paused)
	St.Extra("enumeration_space", len(cases))
}

// A working set larger than the inode cache (100 slots): several clients write, truncate and read one shared
// file while others keep looking at 160 further files, so that cached inodes are evicted while requests wait
// for the shared file's lock.  Same oracle as TestC03Linearizable.
func TestC03BigSet(t *testing.T) {
	rapid.Check(t, func(t *rapid.T) {
		unstable := rapid.Bool().Draw(t, "unstable")
		d := NewDisk(9000)
		d.SetRecord(false)
		w, err := setupWorld(unstable, false, d)
		if err != nil {
			failf(t, "C03", nil, "setup: %v", err)
		}
		defer func() { w.S.Stop() }()
		if err := w.addExtras(160); err != nil {
			failf(t, "C03", nil, "setup: %v", err)
		}
		if rapid.Bool().Draw(t, "cold") {
			w.S.Restart()
		}
		nwriters, nsweepers := rapid.IntRange(2, 4).Draw(t, "writers"), rapid.IntRange(1, 3).Draw(t, "sweepers")
		var tag uint32
		var progs [][]cOp
		for c := 0; c < nwriters; c++ {
			var prog []cOp
			for i := 0; i < rapid.IntRange(6, 14).Draw(t, "nops"); i++ {
				o := genCOp(t, cGenCfg{DataOps: true, Focus: true}, &tag)
				if o.Kind == "write" {
					o.Stable = nt.FILE_SYNC
				}
				prog = append(prog, o)
			}
			progs = append(progs, prog)
		}
		for c := 0; c < nsweepers; c++ {
			var prog []cOp
			for i := 0; i < rapid.IntRange(2, 5).Draw(t, "nsweeps"); i++ {
				prog = append(prog, cOp{Kind: "sweep", Off: rapid.Uint64Range(0, 1000).Draw(t, "rotation")})
			}
			progs = append(progs, prog)
		}
		var yield uint64
		if rapid.Bool().Draw(t, "yields") {
			yield = rapid.Uint64Range(1, 1<<62).Draw(t, "yieldseed")
		}
		run := w.runConcurrent(progs, yield, false, 60*time.Second, nil)
		cc := concCase{Unstable: unstable, Progs: progs, YieldSeed: yield}
		detail := cc.describe()
		detail["history"] = describeHistory(run.Ops)
		if run.Slow || run.Panic != "" || (run.Hung && !run.HungInFinal) {
			St.Class("run_not_judged")
			t.Skip("not judged here")
		}
		if run.HungInFinal {
			failf(t, "C03", detail, "all clients returned, but the sequential observation of the final state does not terminate")
		}
		// the sweeps have no effect and always succeed: judge the rest (they only shape the schedule)
		var ops []porcupine.Operation
		for _, o := range run.Ops {
			if o.Input.(cOp).Kind == "sweep" {
				if !o.Output.(cRes).OK {
					failf(t, "C03", detail, "GETATTR of a file nobody touches failed")
				}
				continue
			}
			ops = append(ops, o)
		}
		res, _ := porcupine.CheckOperationsVerbose(cModelFor(w.Init), ops, 30*time.Second)
		St.Eval(1)
		if conflicting(ops) > 0 {
			St.NT(Hash(describeHistory(ops)))
			St.Class("big_working_set_history_with_overlapping_conflicting_operations")
		}
		switch res {
		case porcupine.Illegal:
			failf(t, "C03", detail, "the concurrent history on a working set larger than the inode cache (%d operations) is not linearizable", len(ops))
		case porcupine.Unknown:
			St.Class("linearizability_check_timed_out")
		}
		if St.WantSample(true) {
			St.Sample(map[string]any{"kind": "concurrent history, 160 further files being looked at", "writers": nwriters, "sweepers": nsweepers, "operations": len(ops)}, true)
		}
	})
}
