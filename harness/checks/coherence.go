package checks

// White-box check that the running server's caches agree with its disk:
// every cached inode re-encodes to the bytes on the logical disk, every
// cached name table equals a scan of its directory, and the allocators
// equal the bitmaps.  Only meaningful when no request is in flight.

import (
	"bytes"
	"fmt"

	"github.com/mit-pdos/go-journal/addr"
	"github.com/mit-pdos/go-journal/common"
	"github.com/mit-pdos/go-nfsd/dcache"
	"github.com/mit-pdos/go-nfsd/dir"
	"github.com/mit-pdos/go-nfsd/fstxn"
	"github.com/mit-pdos/go-nfsd/inode"
	nt "github.com/mit-pdos/go-nfsd/nfstypes"
)

// blockMap returns logical block index -> block number for an inode, read from the logical disk.
func blockMap(fs *fstxn.FsState, ip *inode.Inode) map[uint64]common.Bnum {
	read := func(bn common.Bnum) []byte { return fs.Txn.Load(addr.MkAddr(bn, 0), common.NBITBLOCK).Data }
	m := map[uint64]common.Bnum{}
	blks := ip.VerifBlks()
	for k := uint64(0); k < inode.NDIRECT; k++ {
		if blks[k] != 0 {
			m[k] = blks[k]
		}
	}
	ind := func(root common.Bnum, base uint64) {
		b := read(root)
		for s := uint64(0); s < inode.NBLKBLK; s++ {
			if p := common.Bnum(leU64(b[s*8:])); p != 0 {
				m[base+s] = p
			}
		}
	}
	if b := blks[inode.INDIRECT]; b != 0 {
		ind(b, inode.NDIRECT)
	}
	if b := blks[inode.DINDIRECT]; b != 0 {
		db := read(b)
		for s := uint64(0); s < inode.NBLKBLK; s++ {
			if l1 := common.Bnum(leU64(db[s*8:])); l1 != 0 {
				ind(l1, inode.NDIRECT+inode.NBLKBLK+s*inode.NBLKBLK)
			}
		}
	}
	return m
}

type diskDirent struct {
	Inum uint64
	Off  uint64
}

// scanDir reads a directory's entries from the logical disk.
func scanDir(fs *fstxn.FsState, ip *inode.Inode) map[string]diskDirent {
	bm := blockMap(fs, ip)
	out := map[string]diskDirent{}
	for off := uint64(0); off+dir.DIRENTSZ <= ip.Size; off += dir.DIRENTSZ {
		bn, ok := bm[off/BlockSize]
		if !ok {
			continue
		}
		blk := fs.Txn.Load(addr.MkAddr(bn, 0), common.NBITBLOCK).Data
		ent := blk[off%BlockSize : off%BlockSize+dir.DIRENTSZ]
		inum, name, derr := decodeDirEnt(ent)
		if derr != nil {
			continue
		}
		if inum != common.NULLINUM {
			out[name] = diskDirent{uint64(inum), off}
		}
	}
	return out
}

func CacheCoherent(fs *fstxn.FsState) error {
	var problems []string
	bad := func(format string, a ...any) {
		if len(problems) < 12 {
			problems = append(problems, fmt.Sprintf(format, a...))
		}
	}
	type cached struct {
		id uint64
		ip *inode.Inode
	}
	var all []cached
	fs.Icache.VerifEach(func(id uint64, obj interface{}) {
		if ip, ok := obj.(*inode.Inode); ok && ip != nil {
			all = append(all, cached{id, ip})
		}
	})
	for _, c := range all {
		ip := c.ip
		if uint64(ip.Inum) != c.id {
			bad("cache slot %d holds inode %d", c.id, ip.Inum)
			continue
		}
		disk := fs.Txn.Load(fs.Super.Inum2Addr(ip.Inum), common.INODESZ*8).Data
		if mem := ip.Encode(); !bytes.Equal(mem, disk) {
			dip := inode.Decode(fs.Txn.Load(fs.Super.Inum2Addr(ip.Inum), common.INODESZ*8), ip.Inum)
			bad("cached inode %d differs from the disk: cached {%v} disk {%v}", ip.Inum, ip, dip)
			continue
		}
		if ip.Dcache != nil && ip.Kind == nt.NF3DIR {
			ondisk := scanDir(fs, ip)
			n := 0
			ip.Dcache.VerifEach(func(name string, d dcache.Dentry) {
				n++
				e, ok := ondisk[name]
				if !ok {
					bad("directory inode %d: cached name %q (inode %d, offset %d) is not on disk", ip.Inum, trunc(name, 24), d.Inum, d.Off)
				} else if e.Inum != uint64(d.Inum) || e.Off != d.Off {
					bad("directory inode %d: cached name %q -> (inode %d, offset %d), on disk (inode %d, offset %d)", ip.Inum, trunc(name, 24), d.Inum, d.Off, e.Inum, e.Off)
				}
			})
			if n != len(ondisk) {
				for name := range ondisk {
					if _, ok := ip.Dcache.Lookup(name); !ok {
						bad("directory inode %d: name %q is on disk but not in the name cache", ip.Inum, trunc(name, 24))
					}
				}
			}
			if ip.Dcache.Lastoff%dir.DIRENTSZ != 0 || ip.Dcache.Lastoff > ip.Size {
				bad("directory inode %d: name-cache hint offset %d is not a slot of a directory of size %d", ip.Inum, ip.Dcache.Lastoff, ip.Size)
			}
		}
	}
	if len(problems) > 0 {
		s := "the server's caches disagree with its disk:"
		for _, p := range problems {
			s += "\n    " + p
		}
		return fmt.Errorf("%s", s)
	}
	return nil
}
