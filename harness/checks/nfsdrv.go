package checks

// Server wrapper and the two adapters through which checks talk to it:
// direct Go calls, and the real XDR/RPC path (rfc1057 client -> net.Pipe ->
// rfc1057 server with the repository's registration tables).

import (
	"fmt"
	"net"
	"runtime"
	"strings"
	"sync"
	"time"

	"github.com/mit-pdos/go-nfsd/nfs"
	nt "github.com/mit-pdos/go-nfsd/nfstypes"
	"github.com/zeldovich/go-rpcgen/rfc1057"
	"github.com/zeldovich/go-rpcgen/xdr"
)

// API is the procedure set both adapters provide.
type API = nt.NFS_PROGRAM_NFS_V3_handler

type Srv struct {
	D        *Disk
	N        *nfs.Nfs
	Unstable bool
	ViaRPC   bool
	api      API
	rpcs     []*rpcClient
	mu       sync.Mutex
}

// StartSrv formats (if the disk is blank) or recovers the file system on d and starts a server.
func StartSrv(d *Disk, unstable bool, viaRPC bool) *Srv {
	s := &Srv{D: d, Unstable: unstable, ViaRPC: viaRPC}
	s.start()
	return s
}

func (s *Srv) start() {
	s.N = nfs.MakeNfs(s.D)
	s.N.Unstable = s.Unstable
	if s.ViaRPC {
		s.api = s.NewRPCClient()
	} else {
		s.api = s.N
	}
}

func (s *Srv) API() API { return s.api }

// Mon returns the transaction monitor of the running server instance.
func (s *Srv) Mon() *Monitor { return monitorFor(s.N.VerifFsState()) }

// NewRPCClient opens a fresh connection (its own pipe and server loop) to the running server.
func (s *Srv) NewRPCClient() API {
	cs, cc := net.Pipe()
	srv := rfc1057.MakeServer()
	srv.RegisterMany(nt.MOUNT_PROGRAM_MOUNT_V3_regs(s.N))
	srv.RegisterMany(nt.NFS_PROGRAM_NFS_V3_regs(s.N))
	done := make(chan struct{})
	go func() { srv.Run(cs); close(done) }()
	c := &rpcClient{conn: cc, srvconn: cs, done: done, c: rfc1057.MakeClient(cc, nt.NFS_PROGRAM, nt.NFS_V3)}
	s.mu.Lock()
	s.rpcs = append(s.rpcs, c)
	s.mu.Unlock()
	return c
}

func (s *Srv) closeRPC() {
	s.mu.Lock()
	for _, c := range s.rpcs {
		c.conn.Close()
		c.srvconn.Close()
		<-c.done
	}
	s.rpcs = nil
	s.mu.Unlock()
}

// Stop shuts the server down cleanly (waits for shrinkers, stops the journal threads).
func (s *Srv) Stop() {
	s.closeRPC()
	s.N.ShutdownNfs()
	dropMonitor(s.N.VerifFsState())
}

// StopCrash stops the shrinker after its current transaction, then shuts down (nfs.Crash).
func (s *Srv) StopCrash() {
	s.closeRPC()
	s.N.Crash()
	dropMonitor(s.N.VerifFsState())
}

// Restart = clean shutdown + start on the same disk.
func (s *Srv) Restart() {
	s.Stop()
	s.start()
}

// Quiesce waits for background shrinkers and flushes the journal.
func (s *Srv) Quiesce() {
	s.N.VerifWaitShrinkers()
	s.N.VerifFsState().Txn.Flush()
}

type rpcClient struct {
	conn, srvconn net.Conn
	done          chan struct{}
	c             *rfc1057.Client
}

var noAuth = rfc1057.Opaque_auth{Flavor: rfc1057.AUTH_NONE}

func (c *rpcClient) call(proc uint32, args, res xdr.Xdrable) {
	if err := c.c.Call(proc, noAuth, noAuth, args, res); err != nil {
		panic(fmt.Sprintf("rpc transport: proc %d: %v", proc, err))
	}
}

func (c *rpcClient) NFSPROC3_NULL() {
	var a, r xdr.Void
	c.call(nt.NFSPROC3_NULL, &a, &r)
}
func (c *rpcClient) NFSPROC3_GETATTR(a nt.GETATTR3args) (r nt.GETATTR3res) {
	c.call(nt.NFSPROC3_GETATTR, &a, &r)
	return
}
func (c *rpcClient) NFSPROC3_SETATTR(a nt.SETATTR3args) (r nt.SETATTR3res) {
	c.call(nt.NFSPROC3_SETATTR, &a, &r)
	return
}
func (c *rpcClient) NFSPROC3_LOOKUP(a nt.LOOKUP3args) (r nt.LOOKUP3res) {
	c.call(nt.NFSPROC3_LOOKUP, &a, &r)
	return
}
func (c *rpcClient) NFSPROC3_ACCESS(a nt.ACCESS3args) (r nt.ACCESS3res) {
	c.call(nt.NFSPROC3_ACCESS, &a, &r)
	return
}
func (c *rpcClient) NFSPROC3_READLINK(a nt.READLINK3args) (r nt.READLINK3res) {
	c.call(nt.NFSPROC3_READLINK, &a, &r)
	return
}
func (c *rpcClient) NFSPROC3_READ(a nt.READ3args) (r nt.READ3res) {
	c.call(nt.NFSPROC3_READ, &a, &r)
	return
}
func (c *rpcClient) NFSPROC3_WRITE(a nt.WRITE3args) (r nt.WRITE3res) {
	c.call(nt.NFSPROC3_WRITE, &a, &r)
	return
}
func (c *rpcClient) NFSPROC3_CREATE(a nt.CREATE3args) (r nt.CREATE3res) {
	c.call(nt.NFSPROC3_CREATE, &a, &r)
	return
}
func (c *rpcClient) NFSPROC3_MKDIR(a nt.MKDIR3args) (r nt.MKDIR3res) {
	c.call(nt.NFSPROC3_MKDIR, &a, &r)
	return
}
func (c *rpcClient) NFSPROC3_SYMLINK(a nt.SYMLINK3args) (r nt.SYMLINK3res) {
	c.call(nt.NFSPROC3_SYMLINK, &a, &r)
	return
}
func (c *rpcClient) NFSPROC3_MKNOD(a nt.MKNOD3args) (r nt.MKNOD3res) {
	c.call(nt.NFSPROC3_MKNOD, &a, &r)
	return
}
func (c *rpcClient) NFSPROC3_REMOVE(a nt.REMOVE3args) (r nt.REMOVE3res) {
	c.call(nt.NFSPROC3_REMOVE, &a, &r)
	return
}
func (c *rpcClient) NFSPROC3_RMDIR(a nt.RMDIR3args) (r nt.RMDIR3res) {
	c.call(nt.NFSPROC3_RMDIR, &a, &r)
	return
}
func (c *rpcClient) NFSPROC3_RENAME(a nt.RENAME3args) (r nt.RENAME3res) {
	c.call(nt.NFSPROC3_RENAME, &a, &r)
	return
}
func (c *rpcClient) NFSPROC3_LINK(a nt.LINK3args) (r nt.LINK3res) {
	c.call(nt.NFSPROC3_LINK, &a, &r)
	return
}
func (c *rpcClient) NFSPROC3_READDIR(a nt.READDIR3args) (r nt.READDIR3res) {
	c.call(nt.NFSPROC3_READDIR, &a, &r)
	return
}
func (c *rpcClient) NFSPROC3_READDIRPLUS(a nt.READDIRPLUS3args) (r nt.READDIRPLUS3res) {
	c.call(nt.NFSPROC3_READDIRPLUS, &a, &r)
	return
}
func (c *rpcClient) NFSPROC3_FSSTAT(a nt.FSSTAT3args) (r nt.FSSTAT3res) {
	c.call(nt.NFSPROC3_FSSTAT, &a, &r)
	return
}
func (c *rpcClient) NFSPROC3_FSINFO(a nt.FSINFO3args) (r nt.FSINFO3res) {
	c.call(nt.NFSPROC3_FSINFO, &a, &r)
	return
}
func (c *rpcClient) NFSPROC3_PATHCONF(a nt.PATHCONF3args) (r nt.PATHCONF3res) {
	c.call(nt.NFSPROC3_PATHCONF, &a, &r)
	return
}
func (c *rpcClient) NFSPROC3_COMMIT(a nt.COMMIT3args) (r nt.COMMIT3res) {
	c.call(nt.NFSPROC3_COMMIT, &a, &r)
	return
}

// ---- guarded calls: a panic or a hang inside a handler is a result, not a harness crash ----

type CallOutcome struct {
	Panic string // non-empty if the call panicked
	Hung  bool   // the call did not return and there is evidence that it never will (see Guard)
	Slow  bool   // the call did not return in time but shows no sign of being stuck: inconclusive, not a verdict
	Stack string
	Why   string
}

func (o CallOutcome) Bad() bool { return o.Panic != "" || o.Hung }

func (o CallOutcome) String() string {
	if o.Hung {
		return "the call does not return (" + o.Why + "); goroutines:\n" + o.Stack
	}
	if o.Slow {
		return "the call was too slow for the harness (machine overloaded?); not judged"
	}
	if o.Panic != "" {
		return "the call panicked: " + o.Panic + "\n" + o.Stack
	}
	return "returned"
}

// Guard runs f on its own goroutine with a watchdog.  A wall-clock time-out alone is never a
// verdict: after the watchdog the goroutine is sampled once a second, and the call is declared
// hung only if it sits in the same blocked state (lock, condition, channel) for 10 consecutive
// samples, or if it has begun an absurd number of transactions (livelock).  Otherwise the harness
// keeps waiting (a slow machine), up to 5 more minutes, and then gives up without a verdict.
func Guard(watchdog time.Duration, f func()) CallOutcome { return GuardTxn(watchdog, f, nil) }

func GuardTxn(watchdog time.Duration, f func(), txnCount func() int64) CallOutcome {
	done := make(chan CallOutcome, 1)
	gidc := make(chan uint64, 1)
	var txn0 int64
	if txnCount != nil {
		txn0 = txnCount()
	}
	go func() {
		gidc <- goid()
		defer func() {
			if r := recover(); r != nil {
				buf := make([]byte, 8000)
				buf = buf[:runtime.Stack(buf, false)]
				done <- CallOutcome{Panic: fmt.Sprint(r), Stack: string(buf)}
			}
		}()
		f()
		done <- CallOutcome{}
	}()
	gid := <-gidc
	select {
	case o := <-done:
		return o
	case <-time.After(watchdog):
	}
	same, last := 0, ""
	for extra := 0; extra < 300; extra++ {
		select {
		case o := <-done:
			return o
		case <-time.After(time.Second):
		}
		buf := make([]byte, 1<<20)
		buf = buf[:runtime.Stack(buf, true)]
		dump := string(buf)
		state, frames := goroutineBlock(dump, gid)
		blocked := false
		for _, k := range []string{"sync.Cond.Wait", "sync.Mutex.Lock", "semacquire", "chan receive", "chan send", "select", "sync.WaitGroup.Wait", "IO wait", "sync.RWMutex"} {
			if strings.Contains(state, k) {
				blocked = true
			}
		}
		if blocked && frames == last {
			same++
		} else {
			same = 0
		}
		last = frames
		if len(dump) > 30000 {
			dump = dump[:30000]
		}
		if same >= 10 {
			return CallOutcome{Hung: true, Stack: dump, Why: fmt.Sprintf("blocked in the same place for %d s after a %v watchdog: %s", same, watchdog, state)}
		}
		if txnCount != nil && txnCount()-txn0 > 200000 {
			return CallOutcome{Hung: true, Stack: dump, Why: fmt.Sprintf("it has begun %d transactions and is still retrying", txnCount()-txn0)}
		}
	}
	return CallOutcome{Slow: true}
}

// goroutineBlock extracts the header state and the frames of goroutine gid from a full dump.
func goroutineBlock(dump string, gid uint64) (state, frames string) {
	hdr := fmt.Sprintf("goroutine %d [", gid)
	i := strings.Index(dump, hdr)
	if i < 0 {
		return "gone", ""
	}
	rest := dump[i:]
	if j := strings.Index(rest, "\n\n"); j >= 0 {
		rest = rest[:j]
	}
	nl := strings.Index(rest, "\n")
	if nl < 0 {
		return rest, ""
	}
	state = rest[len(hdr)-1 : nl]
	// drop the ", N minutes" part, which changes
	if k := strings.Index(state, ","); k >= 0 {
		state = state[:k] + "]"
	}
	// frames: function names only (argument values and pcs change)
	var fs []string
	for _, l := range strings.Split(rest[nl+1:], "\n") {
		if !strings.HasPrefix(l, "\t") {
			if p := strings.Index(l, "("); p > 0 {
				l = l[:p]
			}
			fs = append(fs, l)
		}
	}
	return state, strings.Join(fs, ";")
}

// RootFH asks the MOUNT protocol for the root handle.
func (s *Srv) RootFH() nt.Nfs_fh3 {
	r := s.N.MOUNTPROC3_MNT("/")
	return nt.Nfs_fh3{Data: append([]byte{}, r.Mountinfo.Fhandle...)}
}
