package checks

// C06 - no deadlock or livelock: every RPC terminates.
// Schedule-independent part: the lock-acquisition order of every transaction (monitor in observer.go).
// Schedule-dependent part: concurrent programs under a watchdog.

import (
	"fmt"
	"strings"
	"testing"
	"time"

	nt "github.com/mit-pdos/go-nfsd/nfstypes"
	"pgregory.net/rapid"
)

// orderProblems reports what the monitor saw since the last call.
func orderProblems(m *Monitor) []string {
	m.mu.Lock()
	defer m.mu.Unlock()
	var out []string
	for _, v := range m.Violations {
		out = append(out, v.String())
	}
	m.Violations = nil
	return out
}

// persistentlyHeld: lock sets of transactions that hold locks although no request is running and the
// background shrinkers have finished (a shrinker transaction in flight is not a leak: wait for those first;
// if the shrinkers themselves never finish, what they hold is reported).
func persistentlyHeld(s *Srv) [][]uint64 {
	m := s.Mon()
	un := m.Unfinished()
	if len(un) == 0 {
		return nil
	}
	if o := Guard(30*time.Second, func() { s.N.VerifWaitShrinkers() }); o.Slow {
		return nil // inconclusive: the machine is too slow to tell
	}
	return m.Unfinished()
}

// probeKF1 runs the listed input of known finding KF1 on a fresh server.
func probeKF1() {
	d := NewDisk(3000)
	d.SetRecord(false)
	DefaultCheckOrder = true
	s := StartSrv(d, true, false)
	defer s.Stop()
	api := s.API()
	r := api.NFSPROC3_MKDIR(nt.MKDIR3args{Where: nt.Diropargs3{Dir: s.RootFH(), Name: "d"}})
	if r.Status != nt.NFS3_OK {
		return
	}
	api.NFSPROC3_READDIRPLUS(nt.READDIRPLUS3args{Dir: r.Resok.Obj.Handle, Dircount: 4096, Maxcount: 4096})
	if s.Mon().KnownKF1 > 0 {
		St.Known("KF1: READDIRPLUS of directory /d (inode 2) locks '..' (inode 1) while holding the directory: acquisition from dir.Apply against the ascending lock order (can deadlock with a request that locks parent then child)")
	}
}

func TestC06Order(t *testing.T) {
	if EnvInt("VERIF_SHARD", 0) == 0 {
		probeKF1()
	}
	rapid.Check(t, func(t *rapid.T) {
		DefaultCheckOrder = true
		DefaultPanicOnSelf = true
		x, cc := newSeqCase(t, "C06", 6000, 0)
		defer func() { x.S.Stop() }()
		x.Budget = 1500
		x.Watchdog = 15 * time.Second
		cfg := DefaultCfg()
		cfg.BadRefs, cfg.WrongKind, cfg.HugeOffsets, cfg.BigWrites, cfg.MaxWriteBlks, cfg.MaxDepth = 12, 8, false, false, 3, 4
		excluded := 0
		cfg.Excluded = &excluded
		g := NewGen(x, cfg)
		cut := false
		fail := func(format string, a ...any) {
			failf(t, "C06", map[string]any{"history": tailLog(x.Log, 60), "unstable": cc.Unstable}, format, a...)
		}
		nmulti, nkf1 := int64(0), int64(0)
		// after every request: what did its transactions do?
		after := func() {
			m := x.S.Mon()
			if ps := orderProblems(m); len(ps) > 0 {
				fail("lock order: %s", strings.Join(ps, "\n"))
			}
			if un := persistentlyHeld(x.S); len(un) > 0 {
				fail("the request returned, but a transaction of it still holds the locks of inodes %v: the next request that needs them waits for ever", un)
			}
		}
		judge := func(t *rapid.T, err error) {
			if err == nil {
				return
			}
			switch errKind(err) {
			case "hang":
				fail("a request does not return (no other request is running): %v", err)
			case "panic":
				if strings.Contains(err.Error(), "verif: self-acquire") {
					fail("%v", err)
				}
			}
			cut = true
		}
		base := g.Actions(judge)
		wrap := func(f func(*rapid.T)) func(*rapid.T) {
			return func(t *rapid.T) {
				if cut || x.Budget < 60 {
					t.Skip("case cut short")
				}
				m := x.S.Mon()
				begun := m.Begun
				f(t)
				if cut {
					return
				}
				after()
				if n := x.S.Mon().Begun - begun; n > 8 && x.S.Mon() == m {
					fail("one request without any contention began %d transactions (retrying without end?)", n)
				}
			}
		}
		acts := map[string]func(*rapid.T){}
		for _, k := range []string{"create", "create2", "mkdir", "symlink", "write", "setattr", "remove", "remove2", "rmdir", "rename", "rename2", "movedir",
			"lookup", "readdir", "readdirplus", "misc", "restart"} {
			acts[k] = wrap(base[k])
		}
		acts["mkdir2"], acts["rename3"], acts["lookup2"], acts["lookup3"], acts["restart2"] = acts["mkdir"], acts["rename"], acts["lookup"], acts["lookup"], acts["restart"]
		// geometry: delete + restart + recreate, so that new children get numbers below their parents
		acts["lookupdots"] = wrap(func(t *rapid.T) {
			d := g.DirRef(t)
			judge(t, x.Lookup(d, pick(t, []string{".", ".."}, "dot")))
		})
		// a file whose background free was interrupted (stop with the shrinker at work, new server): the next
		// requests on that very file find it still shrinking and must finish the job themselves - and return
		ninterrupted := 0
		acts["touch_half_freed"] = func(t *rapid.T) {
			if cut || ninterrupted >= 1 || x.Budget < 900 {
				t.Skip("once per case")
			}
			ninterrupted++
			root := LiveRef(x.M.Root)
			name := g.NewName(t, x.M.Root)
			judge(t, x.Create(root, name))
			f := x.M.Root.Children[name]
			if cut || f == nil {
				return
			}
			for i := uint64(0); i < 3 && !cut; i++ {
				judge(t, x.Write(LiveRef(f), i*300*BlockSize, patternData(g.nextTag(), 300*BlockSize), 300*BlockSize, nt.FILE_SYNC))
			}
			if cut {
				return
			}
			sz := uint64(pick(t, []int{0, 1, 4096, 9 * 4096}, "cutto"))
			judge(t, x.Setattr(LiveRef(f), &sz, false))
			if cut {
				return
			}
			judge(t, crashRestart(x))
			if cut {
				return
			}
			St.Class("requests_on_a_file_whose_background_free_was_interrupted")
			m := x.S.Mon()
			begun := m.Begun
			switch rapid.IntRange(0, 2).Draw(t, "touch") {
			case 0:
				judge(t, x.Write(LiveRef(f), 0, patternData(g.nextTag(), 5000), 5000, nt.FILE_SYNC))
			case 1:
				nsz := uint64(pick(t, []int{0, 100, 20 * 4096}, "newsize"))
				judge(t, x.Setattr(LiveRef(f), &nsz, false))
			default:
				judge(t, x.Read(LiveRef(f), 0, 4096))
			}
			if cut {
				return
			}
			if n := x.S.Mon().Begun - begun; n > 40 && x.S.Mon() == m {
				fail("one request on a file whose free had been interrupted began %d transactions (retrying without end?)", n)
			}
		}
		// RENAME with its four inode roles drawn from a small pool: all coincidence patterns
		acts["renamepool"] = wrap(func(t *rapid.T) {
			dirs := x.M.LiveKind(nt.NF3DIR)
			if len(dirs) > 3 {
				dirs = dirs[:3]
			}
			fd, td := pick(t, dirs, "fd"), pick(t, dirs, "td")
			names := []string{"a", "b", ".", ".."}
			for n := range fd.Children {
				names = append(names, n)
				break
			}
			fn, tn := pick(t, names, "fn"), pick(t, names, "tn")
			if x.RenameIsKnownFinding(fd, fn, td) {
				excluded++
				td = fd
			}
			fr, tr := LiveRef(fd), LiveRef(td)
			if pct(t, 15, "forgedto") {
				tr = ForgedRef(td, 1)
			}
			judge(t, x.Rename(fr, fn, tr, tn))
		})
		t.Repeat(acts)
		m := x.S.Mon()
		nmulti += m.MultiLock
		nkf1 += m.KnownKF1
		St.Eval(1)
		St.ClassN("acquisitions_while_holding_another_lock", int(nmulti))
		St.ClassN("known_finding_KF1_acquisitions_exempted", int(nkf1))
		if cut {
			St.Class("case_cut_short_by_another_oracle")
		}
		if excluded > 0 {
			St.ClassN("excluded_known_finding_draws", excluded)
		}
		if nmulti > 0 {
			St.NT(Hash(x.Log))
		}
		if St.WantSample(nmulti > 0) {
			St.Sample(map[string]any{"kind": "sequential history under the lock monitor", "multi_lock_acquisitions": nmulti, "history": headLog(x.Log, 50)}, nmulti > 0)
		}
	})
}

// Concurrent programs under the watchdog; a run that does not end with clients waiting in the lock table is a deadlock.
func TestC06Concurrent(t *testing.T) {
	rapid.Check(t, func(t *rapid.T) {
		DefaultCheckOrder = true
		cfg := cGenCfg{RootPlus: true, DataOps: rapid.Bool().Draw(t, "dataops"), NameOps: true, DirRename: true, BigTrunc: true,
			Focus: rapid.Bool().Draw(t, "focus"), FocusDir: rapid.IntRange(0, 2).Draw(t, "focusdir"), HandleOps: rapid.Bool().Draw(t, "handleops")}
		cc := genConcCase(t, cfg, 0)
		d := NewDisk(9000)
		d.SetRecord(false)
		w, err := setupWorld(cc.Unstable, cc.LowChildren, d)
		if err != nil {
			failf(t, "C06", nil, "setup: %v", err)
		}
		run := w.runConcurrent(cc.Progs, cc.YieldSeed, false, 20*time.Second, cc.Pause)
		detail := cc.describe()
		detail["history"] = describeHistory(run.Ops)
		m := w.S.Mon()
		if run.Slow {
			St.Class("call_too_slow_for_the_harness_not_judged")
			t.Skip("harness too slow")
		}
		if run.Hung {
			detail["goroutines"] = trunc(run.Dump, 6000)
			failf(t, "C06", detail, "the requests did not all return within 20 s; %d goroutine(s) wait in the inode lock table; transactions still holding locks: %v",
				lockWaiters(run.Dump), m.Unfinished())
		}
		if ps := orderProblems(m); len(ps) > 0 {
			failf(t, "C06", detail, "lock order: %s", strings.Join(ps, "\n"))
		}
		if un := persistentlyHeld(w.S); len(un) > 0 {
			failf(t, "C06", detail, "all requests returned, but transactions still hold the locks of inodes %v", un)
		}
		w.S.Stop()
		St.Eval(1)
		if m.MultiLock > 0 {
			St.NT(Hash(describeHistory(run.Ops)))
		}
		St.ClassN("concurrent_acquisitions_while_holding_another_lock", int(m.MultiLock))
		if run.Paused {
			St.Class("concurrent_run_with_a_client_held_at_a_lock_point")
		}
		if St.WantSample(m.MultiLock > 0) {
			St.Sample(map[string]any{"kind": "concurrent program under the watchdog and lock monitor", "case": cc.describe(), "duration_ms": run.Duration.Milliseconds()}, m.MultiLock > 0)
		}
	})
}

// The enumerated two-client cases of C03 under the C06 oracles (hang, leaked locks, order).
func TestC06Enum(t *testing.T) {
	DefaultCheckOrder = true
	shard, nshards := EnvInt("VERIF_SHARD", 0), EnvInt("VERIF_NSHARDS", 1)
	seed := EnvInt("VERIF_SEED", 1)
	cases := enumSpace()
	St.Exhaustive(Thorough())
	run := 0
	for i, ec := range cases {
		if i%nshards != shard || ec.Data {
			continue
		}
		if !Thorough() && Hash(seed, i, "c06")%4 != 0 && !ec.HalfFreed {
			continue
		}
		d := NewDisk(9000)
		d.SetRecord(false)
		w, err := setupWorld(true, true, d)
		if err != nil {
			t.Fatalf("setup: %v", err)
		}
		if ec.HalfFreed {
			makeHalfFreed(w)
		}
		api := w.S.API()
		for _, o := range ec.Pre {
			w.exec(api, o)
		}
		progs := [][]cOp{{ec.Op0}, ec.Prog1}
		pause := &pauseSpec{Client: 0, Hook: ec.Hook, MaxWait: 20 * time.Millisecond}
		r := w.runConcurrentFrom(progs, 0, false, 10*time.Second, pause, 0)
		cc := concCase{Unstable: true, LowChildren: true, Progs: progs, Pause: pause}
		detail := cc.describe()
		detail["history"], detail["enum_index"] = describeHistory(r.Ops), i
		m := w.S.Mon()
		fail := func(format string, a ...any) {
			msg := fmt.Sprintf(format, a...)
			St.Violation("C06", msg, detail)
			t.Fatalf("C06: %s\n%v", msg, detail)
		}
		if r.Slow {
			St.Class("call_too_slow_for_the_harness_not_judged")
			continue
		}
		if r.Hung {
			fail("requests do not return (client 0 was held at its lock/commit point #%d while client 1 ran); %d goroutine(s) wait in the inode lock table; transactions still holding locks: %v",
				ec.Hook, lockWaiters(r.Dump), m.Unfinished())
		}
		if ps := orderProblems(m); len(ps) > 0 {
			fail("lock order: %s", strings.Join(ps, "\n"))
		}
		if un := persistentlyHeld(w.S); len(un) > 0 {
			fail("all requests returned, but transactions still hold the locks of inodes %v", un)
		}
		w.S.Stop()
		run++
		St.Eval(1)
		if r.Paused {
			St.NT(Hash("c06enum", i))
		}
	}
	St.ClassN("enumerated_cases_run", run)
	St.Sample(map[string]any{"kind": "enumerated two-client cases under the deadlock oracles", "cases_in_this_shard": run}, true)
}
