package checks

import (
	"fmt"
	"runtime"
	"sort"
	"sync"
)

// CrashPoints chooses the crash points (number of trace events applied)
// to explore: all of them when there are at most max, otherwise every
// point within 3 events of a log-header write (block 0 or 1: the commit
// and the install points) or of a barrier, topped up with an even sample.
func CrashPoints(trace []Event, from int, max int) (pts []int, exhaustive bool) {
	n := len(trace)
	if n-from+1 <= max {
		for k := from; k <= n; k++ {
			pts = append(pts, k)
		}
		return pts, true
	}
	sel := map[int]bool{from: true, n: true}
	var adj []int
	for i := from; i < n; i++ {
		e := trace[i]
		if e.Barrier || e.Addr <= 1 {
			for k := i - 2; k <= i+3; k++ {
				if k >= from && k <= n && !sel[k] {
					sel[k] = true
					adj = append(adj, k)
				}
			}
		}
	}
	if len(sel) > max {
		// too many commit-adjacent points: thin them evenly
		sort.Ints(adj)
		sel = map[int]bool{from: true, n: true}
		step := float64(len(adj)) / float64(max-2)
		for x := 0.0; int(x) < len(adj); x += step {
			sel[adj[int(x)]] = true
		}
	} else if len(sel) < max {
		rest := max - len(sel)
		step := float64(n-from) / float64(rest)
		if step < 1 {
			step = 1
		}
		for x := float64(from); int(x) <= n; x += step {
			sel[int(x)] = true
		}
	}
	for k := range sel {
		pts = append(pts, k)
	}
	sort.Ints(pts)
	return pts, false
}

type CrashCase struct {
	K       int
	VarIdx  int
	Variant Variant
}

func (c CrashCase) String() string {
	var dropped []int
	for i := range c.Variant.Drop {
		dropped = append(dropped, i)
	}
	sort.Ints(dropped)
	if len(dropped) > 12 {
		return fmt.Sprintf("crash after %d events, variant %s (%d writes lost)", c.K, c.Variant.Name, len(dropped))
	}
	return fmt.Sprintf("crash after %d events, variant %s lost=%v", c.K, c.Variant.Name, dropped)
}

type CrashFailure struct {
	Case CrashCase
	Err  error
}

// ExploreCrashes builds every (point, variant) image of d's trace and runs
// check on it, in parallel.  It returns the number of images checked and
// the failure with the smallest (point, variant) if any, so the outcome
// does not depend on goroutine scheduling.
func ExploreCrashes(d *Disk, pts []int, salt uint64, nrand int,
	check func(img *Disk, c CrashCase) error) (int, *CrashFailure) {
	trace := d.Trace()
	var cases []CrashCase
	for _, k := range pts {
		for vi, v := range Variants(trace, k, salt, nrand) {
			cases = append(cases, CrashCase{K: k, VarIdx: vi, Variant: v})
		}
	}
	workers := runtime.GOMAXPROCS(0)
	if w := EnvInt("VERIF_WORKERS", 0); w > 0 {
		workers = w
	}
	var mu sync.Mutex
	var fail *CrashFailure
	next := 0
	var wg sync.WaitGroup
	for w := 0; w < workers; w++ {
		wg.Add(1)
		go func() {
			defer wg.Done()
			for {
				mu.Lock()
				i := next
				next++
				stop := fail != nil && i > 0 && (cases[minInt(i, len(cases)-1)].K > fail.Case.K)
				mu.Unlock()
				if i >= len(cases) || stop {
					return
				}
				c := cases[i]
				img := ImageOf(d.size, d.init, trace, c.K, c.Variant.Drop)
				err := safely(func() error { return check(img, c) })
				if err != nil {
					mu.Lock()
					if fail == nil || c.K < fail.Case.K || (c.K == fail.Case.K && c.VarIdx < fail.Case.VarIdx) {
						fail = &CrashFailure{Case: c, Err: err}
					}
					mu.Unlock()
				}
			}
		}()
	}
	wg.Wait()
	return len(cases), fail
}

func minInt(a, b int) int {
	if a < b {
		return a
	}
	return b
}

// safely runs f and turns a panic into an error.
func safely(f func() error) (err error) {
	defer func() {
		if r := recover(); r != nil {
			buf := make([]byte, 6000)
			buf = buf[:runtime.Stack(buf, false)]
			err = fmt.Errorf("panic: %v\n%s", r, buf)
		}
	}()
	return f()
}
