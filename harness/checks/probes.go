package checks

// Probes for the known findings (KNOWN_FINDINGS.json): each runs the listed input on a fresh
// server; if it still fails the way the finding says, the check prints a KNOWN-FINDING line.
// They suppress nothing: the generators keep the search away from these inputs by construction.

import (
	"sync"
	"sync/atomic"
	"time"

	nt "github.com/mit-pdos/go-nfsd/nfstypes"
)

// KF2: RENAME of a directory to another parent leaves its ".." pointing to the old parent.
func probeKF2() {
	d := NewDisk(3000)
	d.SetRecord(false)
	s := StartSrv(d, true, false)
	defer s.Stop()
	x, err := NewExec(s, "C02")
	if err != nil {
		return
	}
	root := LiveRef(x.M.Root)
	if x.Mkdir(root, "a") != nil || x.Mkdir(root, "b") != nil {
		return
	}
	a, b := x.M.Root.Children["a"], x.M.Root.Children["b"]
	if x.Mkdir(LiveRef(a), "s") != nil {
		return
	}
	var lk nt.LOOKUP3res
	o := Guard(10*time.Second, func() {
		r := s.API().NFSPROC3_RENAME(nt.RENAME3args{From: nt.Diropargs3{Dir: nt.Nfs_fh3{Data: a.FH}, Name: "s"}, To: nt.Diropargs3{Dir: nt.Nfs_fh3{Data: b.FH}, Name: "s"}})
		if r.Status != nt.NFS3_OK {
			return
		}
		moved := s.API().NFSPROC3_LOOKUP(nt.LOOKUP3args{What: nt.Diropargs3{Dir: nt.Nfs_fh3{Data: b.FH}, Name: "s"}})
		lk = s.API().NFSPROC3_LOOKUP(nt.LOOKUP3args{What: nt.Diropargs3{Dir: moved.Resok.Object, Name: ".."}})
	})
	if !o.Bad() && lk.Status == nt.NFS3_OK && string(lk.Resok.Object.Data) == string(a.FH) {
		St.Known("KF2: MKDIR /a, MKDIR /b, MKDIR /a/s, RENAME /a/s -> /b/s: LOOKUP /b/s '..' still returns /a (the moved directory's '..' entry is not rewritten; after RMDIR /a it names a freed inode and READDIRPLUS /b/s panics)")
	}
}

// KF3: RENAME of a directory into its own subtree is accepted and detaches a cycle.
func probeKF3() {
	d := NewDisk(3000)
	d.SetRecord(false)
	s := StartSrv(d, true, false)
	defer s.Stop()
	x, err := NewExec(s, "C04")
	if err != nil {
		return
	}
	root := LiveRef(x.M.Root)
	if x.Mkdir(root, "a") != nil {
		return
	}
	a := x.M.Root.Children["a"]
	if x.Mkdir(LiveRef(a), "b") != nil {
		return
	}
	bb := a.Children["b"]
	var st nt.Nfsstat3 = 1
	o := Guard(10*time.Second, func() {
		st = s.API().NFSPROC3_RENAME(nt.RENAME3args{From: nt.Diropargs3{Dir: root.fh(), Name: "a"}, To: nt.Diropargs3{Dir: nt.Nfs_fh3{Data: bb.FH}, Name: "x"}}).Status
	})
	if !o.Bad() && st == nt.NFS3_OK {
		St.Known("KF3: MKDIR /a, MKDIR /a/b, RENAME /a -> /a/b/x is accepted: /a and /a/b form a cycle that is no longer reachable from the root")
	}
}

// KF4: READDIRPLUS reads each entry's attributes under that entry's lock only, one entry after the other, so one
// listing can show a later write to one file together with the state before an earlier write to another.
// Deterministic: the listing is held before it locks the second file while another client writes to the first
// file and then to the second.
func probeKF4() {
	d := NewDisk(3000)
	d.SetRecord(false)
	s := StartSrv(d, true, false)
	defer s.Stop()
	api := s.API()
	root := s.RootFH()
	var fhs [2]nt.Nfs_fh3
	for i, n := range []string{"f0", "f1"} {
		c := api.NFSPROC3_CREATE(nt.CREATE3args{Where: nt.Diropargs3{Dir: root, Name: nt.Filename3(n)}})
		if c.Status != nt.NFS3_OK {
			return
		}
		fhs[i] = c.Resok.Obj.Handle
	}
	mon := s.Mon()
	var gid0 atomic.Uint64
	var n atomic.Int32
	reached, release := make(chan struct{}), make(chan struct{})
	var once sync.Once
	mon.SetYield(func(point string) {
		if goid() != gid0.Load() || point != "acquire" {
			return
		}
		// acquisitions of the listing: the root, then f0, then f1
		if n.Add(1)-1 != 2 {
			return
		}
		once.Do(func() { close(reached) })
		select {
		case <-release:
		case <-time.After(2 * time.Second):
		}
	})
	defer mon.SetYield(nil)
	sizes := map[string]uint64{}
	o := Guard(20*time.Second, func() {
		done := make(chan struct{})
		go func() {
			defer close(done)
			defer once.Do(func() { close(reached) })
			gid0.Store(goid())
			r := api.NFSPROC3_READDIRPLUS(nt.READDIRPLUS3args{Dir: root, Dircount: 8192, Maxcount: 8192})
			for e := r.Resok.Reply.Entries; e != nil; e = e.Nextentry {
				sizes[string(e.Name)] = uint64(e.Name_attributes.Attributes.Size)
			}
		}()
		<-reached
		api.NFSPROC3_WRITE(nt.WRITE3args{File: fhs[0], Offset: 0, Count: 110, Stable: nt.FILE_SYNC, Data: patternData(1, 110)})
		api.NFSPROC3_WRITE(nt.WRITE3args{File: fhs[1], Offset: 0, Count: 11, Stable: nt.FILE_SYNC, Data: patternData(2, 11)})
		close(release)
		<-done
	})
	if !o.Bad() && !o.Slow && sizes["f0"] == 0 && sizes["f1"] == 11 {
		St.Known("KF4: READDIRPLUS / held before it locks its second file while another client completes WRITE f0 (110 bytes) and then WRITE f1 (11 bytes): the listing shows f0 with size 0 and f1 with size 11, a state no sequential order of the three requests produces (attributes are read under each entry's own lock, one after the other)")
	}
}
