package checks

// Probes for the known findings (KNOWN_FINDINGS.json): each runs the listed input on a fresh
// server; if it still fails the way the finding says, the check prints a KNOWN-FINDING line.
// They suppress nothing: the generators keep the search away from these inputs by construction.

import (
	"time"

	nt "github.com/mit-pdos/go-nfsd/nfstypes"
)

// KF2: RENAME of a directory to another parent leaves its ".." pointing to the old parent.
func probeKF2() {
	d := NewDisk(3000)
	d.SetRecord(false)
	s := StartSrv(d, true, false)
	defer s.Stop()
	x, err := NewExec(s, "C02")
	if err != nil {
		return
	}
	root := LiveRef(x.M.Root)
	if x.Mkdir(root, "a") != nil || x.Mkdir(root, "b") != nil {
		return
	}
	a, b := x.M.Root.Children["a"], x.M.Root.Children["b"]
	if x.Mkdir(LiveRef(a), "s") != nil {
		return
	}
	var lk nt.LOOKUP3res
	o := Guard(10*time.Second, func() {
		r := s.API().NFSPROC3_RENAME(nt.RENAME3args{From: nt.Diropargs3{Dir: nt.Nfs_fh3{Data: a.FH}, Name: "s"}, To: nt.Diropargs3{Dir: nt.Nfs_fh3{Data: b.FH}, Name: "s"}})
		if r.Status != nt.NFS3_OK {
			return
		}
		moved := s.API().NFSPROC3_LOOKUP(nt.LOOKUP3args{What: nt.Diropargs3{Dir: nt.Nfs_fh3{Data: b.FH}, Name: "s"}})
		lk = s.API().NFSPROC3_LOOKUP(nt.LOOKUP3args{What: nt.Diropargs3{Dir: moved.Resok.Object, Name: ".."}})
	})
	if !o.Bad() && lk.Status == nt.NFS3_OK && string(lk.Resok.Object.Data) == string(a.FH) {
		St.Known("KF2: MKDIR /a, MKDIR /b, MKDIR /a/s, RENAME /a/s -> /b/s: LOOKUP /b/s '..' still returns /a (the moved directory's '..' entry is not rewritten; after RMDIR /a it names a freed inode and READDIRPLUS /b/s panics)")
	}
}

// KF3: RENAME of a directory into its own subtree is accepted and detaches a cycle.
func probeKF3() {
	d := NewDisk(3000)
	d.SetRecord(false)
	s := StartSrv(d, true, false)
	defer s.Stop()
	x, err := NewExec(s, "C04")
	if err != nil {
		return
	}
	root := LiveRef(x.M.Root)
	if x.Mkdir(root, "a") != nil {
		return
	}
	a := x.M.Root.Children["a"]
	if x.Mkdir(LiveRef(a), "b") != nil {
		return
	}
	bb := a.Children["b"]
	var st nt.Nfsstat3 = 1
	o := Guard(10*time.Second, func() {
		st = s.API().NFSPROC3_RENAME(nt.RENAME3args{From: nt.Diropargs3{Dir: root.fh(), Name: "a"}, To: nt.Diropargs3{Dir: nt.Nfs_fh3{Data: bb.FH}, Name: "x"}}).Status
	})
	if !o.Bad() && st == nt.NFS3_OK {
		St.Known("KF3: MKDIR /a, MKDIR /a/b, RENAME /a -> /a/b/x is accepted: /a and /a/b form a cycle that is no longer reachable from the root")
	}
}
