package checks

// Structural oracle over the logical disk (home blocks overlaid with the
// journal), read through the server's own obj.Log.  It uses the
// repository's own decoders (super, inode.Decode, the dirent decoder) so
// that a consistent change of the on-disk format raises no alarm.

import (
	"bytes"
	"fmt"
	"sort"
	"strings"

	"github.com/mit-pdos/go-journal/addr"
	"github.com/mit-pdos/go-journal/buf"
	"github.com/mit-pdos/go-journal/common"
	"github.com/mit-pdos/go-nfsd/dir"
	"github.com/mit-pdos/go-nfsd/fstxn"
	"github.com/mit-pdos/go-nfsd/inode"
	nt "github.com/mit-pdos/go-nfsd/nfstypes"
)

type FsckOpts struct {
	ZeroFree       bool // item 7: every unmarked data block is all-zero
	Exact          bool // item 8: marked blocks/inodes = owned/reachable ones
	AllowHalfFreed bool // blocks still held by half-freed inodes are tolerated by item 8
	Allocators     bool // the running server's allocators agree with the on-disk bitmaps
}

type FsckReport struct {
	Problems       []string
	NDirs          int
	NFiles         int
	NLinks         int
	NIndirect      int // indirect + double-indirect blocks in use
	HalfFreed      int // inodes with ShrinkSize beyond their size
	HalfFreedInums []uint64
	HalfFreedFree  []uint64        // those of them that are free inodes (objects removed while their blocks were still being freed)
	RootBlocks     int             // blocks mapped by the root directory
	Owned          map[uint64]bool `json:"-"` // block numbers in use by some inode
	OwnedBlocks    int
	MarkedData     int // data blocks marked in the bitmap
	MarkedInos     int
	FreeBlocks     uint64
	FreeInodes     uint64
	MaxDepth       int
}

func (r *FsckReport) bad(cat string, format string, a ...any) {
	if len(r.Problems) < 40 {
		r.Problems = append(r.Problems, "["+cat+"] "+fmt.Sprintf(format, a...))
	}
}

func (r *FsckReport) Err() error {
	if len(r.Problems) == 0 {
		return nil
	}
	s := fmt.Sprintf("the on-disk structure is not a well-formed file system (%d problem(s)):", len(r.Problems))
	for _, p := range r.Problems {
		s += "\n    " + p
	}
	return fmt.Errorf("%s", s)
}

type fsckInode struct {
	ip     *inode.Inode
	blks   []common.Bnum
	data   map[uint64]common.Bnum // logical block index -> block number
	marked bool
}

func Fsck(fs *fstxn.FsState, opts FsckOpts) *FsckReport {
	r := &FsckReport{}
	sup := fs.Super
	read := func(bn common.Bnum) []byte {
		return fs.Txn.Load(addr.MkAddr(bn, 0), common.NBITBLOCK).Data
	}
	dataStart, maxBnum := sup.DataStart(), sup.MaxBnum()
	inRange := func(bn common.Bnum) bool { return bn >= dataStart && bn < maxBnum }

	// bitmaps
	var bbits []byte
	for i := uint64(0); i < sup.NBlockBitmap; i++ {
		bbits = append(bbits, read(sup.BitmapBlockStart()+common.Bnum(i))...)
	}
	var ibits []byte
	for i := uint64(0); i < sup.NInodeBitmap; i++ {
		ibits = append(ibits, read(sup.BitmapInodeStart()+common.Bnum(i))...)
	}
	bit := func(m []byte, n uint64) bool { return m[n/8]&(1<<(n%8)) != 0 }

	// inodes
	ninode := uint64(sup.NInode())
	inodes := make(map[uint64]*fsckInode)
	owner := map[common.Bnum]string{}
	own := func(bn common.Bnum, who string) bool {
		if !inRange(bn) {
			r.bad("pointer", "%s points to block %d, outside the data region [%d,%d)", who, bn, dataStart, maxBnum)
			return false
		}
		if prev, dup := owner[bn]; dup {
			r.bad("two-owners", "block %d belongs to both %s and %s", bn, prev, who)
			return false
		}
		owner[bn] = who
		if !bit(bbits, uint64(bn)) {
			r.bad("unmarked", "block %d is in use by %s but free in the block bitmap", bn, who)
		}
		return true
	}
	perBlk := common.INODEBLK
	for ib := uint64(0); ib*perBlk < ninode; ib++ {
		first := common.Inum(ib * perBlk)
		a := sup.Inum2Addr(first)
		blk := read(a.Blkno)
		if bytes.Equal(blk, zeroBlock) {
			for i := uint64(0); i < perBlk; i++ {
				inum := ib*perBlk + i
				if inum >= 2 && bit(ibits, inum) {
					r.bad("inode-bitmap", "inode %d is marked in use but is free (never initialised)", inum)
				}
			}
			continue
		}
		for i := uint64(0); i < perBlk && ib*perBlk+i < ninode; i++ {
			inum := ib*perBlk + i
			ia := sup.Inum2Addr(common.Inum(inum))
			ip := inode.Decode(buf.MkBufLoad(ia, common.INODESZ*8, blk), common.Inum(inum))
			marked := bit(ibits, inum)
			if inum < 2 {
				if !marked {
					r.bad("inode-bitmap", "reserved inode %d is not marked in use", inum)
				}
				if inum == 0 {
					continue
				}
			}
			live := ip.Kind != inode.NF3FREE
			if inum >= 2 && live != marked {
				r.bad("inode-bitmap", "inode %d: kind %d but bitmap bit %v", inum, ip.Kind, marked)
			}
			fi := &fsckInode{ip: ip, blks: ip.VerifBlks(), data: map[uint64]common.Bnum{}, marked: marked}
			who := fmt.Sprintf("inode %d", inum)
			nonzero := false
			for _, b := range fi.blks {
				if b != 0 {
					nonzero = true
				}
			}
			if !live && !nonzero && ip.ShrinkSize == 0 {
				continue
			}
			inodes[inum] = fi
			if live {
				r.MarkedInos++
			}
			// block map
			for k := uint64(0); k < inode.NDIRECT; k++ {
				if b := fi.blks[k]; b != 0 && own(b, fmt.Sprintf("%s direct[%d]", who, k)) {
					fi.data[k] = b
				}
			}
			walkInd := func(root common.Bnum, base uint64, what string) {
				if !own(root, fmt.Sprintf("%s %s", who, what)) {
					return
				}
				r.NIndirect++
				ib := read(root)
				for s := uint64(0); s < inode.NBLKBLK; s++ {
					b := common.Bnum(leU64(ib[s*8:]))
					if b != 0 && own(b, fmt.Sprintf("%s %s slot %d", who, what, s)) {
						fi.data[base+s] = b
					}
				}
			}
			if b := fi.blks[inode.INDIRECT]; b != 0 {
				walkInd(b, inode.NDIRECT, "indirect block")
			}
			if b := fi.blks[inode.DINDIRECT]; b != 0 {
				if own(b, who+" double-indirect root") {
					r.NIndirect++
					db := read(b)
					for s := uint64(0); s < inode.NBLKBLK; s++ {
						l1 := common.Bnum(leU64(db[s*8:]))
						if l1 != 0 {
							walkInd(l1, inode.NDIRECT+inode.NBLKBLK+s*inode.NBLKBLK, fmt.Sprintf("double-indirect[%d]", s))
						}
					}
				}
			}
			// sizes agree with the blocks present
			nblk := (ip.Size + BlockSize - 1) / BlockSize
			limit := nblk
			if ip.ShrinkSize > limit {
				limit = ip.ShrinkSize
				r.HalfFreed++
				r.HalfFreedInums = append(r.HalfFreedInums, inum)
				if !live {
					r.HalfFreedFree = append(r.HalfFreedFree, inum)
				}
			}
			for idx, b := range fi.data {
				if idx >= limit {
					r.bad("size", "%s (kind %d, size %d, shrink position %d blocks) maps block %d at index %d, beyond its end", who, ip.Kind, ip.Size, ip.ShrinkSize, b, idx)
					break
				}
			}
			if !live && ip.ShrinkSize <= nblk && len(fi.data) > 0 {
				r.bad("size", "free %s is not being shrunk but still maps %d block(s)", who, len(fi.data))
			}
			if live && ip.Nlink == 0 {
				r.bad("inode", "%s is live (kind %d) with link count 0", who, ip.Kind)
			}
		}
	}
	r.OwnedBlocks = len(owner)
	r.Owned = make(map[uint64]bool, len(owner))
	for b := range owner {
		r.Owned[uint64(b)] = true
	}

	// the directory tree
	reached := map[uint64]string{}
	var walk func(inum, parent uint64, path string, depth int)
	walk = func(inum, parent uint64, path string, depth int) {
		if depth > r.MaxDepth {
			r.MaxDepth = depth
		}
		fi := inodes[inum]
		ip := fi.ip
		r.NDirs++
		if ip.Size%dir.DIRENTSZ != 0 {
			r.bad("dir", "directory %s (inode %d) has size %d, not a multiple of the entry size", path, inum, ip.Size)
		}
		names := map[string]bool{}
		sawDot, sawDotDot := false, false
		for off := uint64(0); off+dir.DIRENTSZ <= ip.Size; off += dir.DIRENTSZ {
			bn, ok := fi.data[off/BlockSize]
			var ent []byte
			if ok {
				blk := read(bn)
				ent = blk[off%BlockSize : off%BlockSize+dir.DIRENTSZ]
			} else {
				ent = zeroBlock[:dir.DIRENTSZ]
			}
			child, name, derr := decodeDirEnt(ent)
			if derr != nil {
				r.bad("dir", "directory %s (inode %d): the entry at offset %d cannot be decoded: %v", path, inum, off, derr)
				continue
			}
			if child == common.NULLINUM {
				continue
			}
			if names[name] {
				r.bad("dir", "directory %s (inode %d) contains the name %q twice", path, inum, trunc(name, 24))
			}
			names[name] = true
			switch name {
			case ".":
				sawDot = true
				if uint64(child) != inum {
					r.bad("dir", "directory %s (inode %d): '.' points to inode %d", path, inum, child)
				}
				continue
			case "..":
				sawDotDot = true
				if uint64(child) != parent {
					r.bad("dotdot", "directory %s (inode %d): '..' points to inode %d, its parent is inode %d", path, inum, child, parent)
				}
				continue
			}
			cpath := path + "/" + trunc(name, 24)
			if uint64(child) >= ninode {
				r.bad("dir", "%s refers to inode %d, outside the inode table", cpath, child)
				continue
			}
			cfi := inodes[uint64(child)]
			if cfi == nil || cfi.ip.Kind == inode.NF3FREE {
				r.bad("dir", "%s refers to inode %d, which is free", cpath, child)
				continue
			}
			if prev, dup := reached[uint64(child)]; dup {
				r.bad("tree", "inode %d has two names: %s and %s", child, prev, cpath)
				continue
			}
			reached[uint64(child)] = cpath
			switch cfi.ip.Kind {
			case nt.NF3DIR:
				walk(uint64(child), inum, cpath, depth+1)
			case nt.NF3REG:
				r.NFiles++
			case nt.NF3LNK:
				r.NLinks++
			default:
				r.bad("inode", "%s (inode %d) has kind %d", cpath, child, cfi.ip.Kind)
			}
		}
		if !sawDot || !sawDotDot {
			r.bad("dir", "directory %s (inode %d) lacks '.' or '..'", path, inum)
		}
	}
	root := inodes[uint64(common.ROOTINUM)]
	if root != nil {
		// every block the root directory owns: its data blocks and, once it has more than 256 entries, its index blocks
		for _, who := range owner {
			if strings.HasPrefix(who, "inode 1 ") {
				r.RootBlocks++
			}
		}
	}
	if root == nil || root.ip.Kind != nt.NF3DIR {
		r.bad("tree", "the root inode is not a directory")
	} else {
		reached[uint64(common.ROOTINUM)] = "/"
		walk(uint64(common.ROOTINUM), uint64(common.ROOTINUM), "", 0)
	}
	var orphans []uint64
	for inum, fi := range inodes {
		if fi.ip.Kind != inode.NF3FREE {
			if _, ok := reached[inum]; !ok {
				orphans = append(orphans, inum)
			}
		}
	}
	sort.Slice(orphans, func(i, j int) bool { return orphans[i] < orphans[j] })
	for _, inum := range orphans {
		r.bad("tree", "inode %d (kind %d, size %d) is live but has no name in the tree", inum, inodes[inum].ip.Kind, inodes[inum].ip.Size)
	}

	// bitmap accounting
	for bn := dataStart; bn < maxBnum; bn++ {
		if bit(bbits, uint64(bn)) {
			r.MarkedData++
			if _, owned := owner[bn]; !owned && opts.Exact {
				r.bad("leak", "block %d is marked in use but belongs to nobody", bn)
			}
		} else {
			r.FreeBlocks++
			if opts.ZeroFree {
				if blk := read(bn); !bytes.Equal(blk, zeroBlock) {
					r.bad("free-not-zero", "free block %d is not all-zero (first non-zero byte at %d)", bn, firstNonZero(blk))
				}
			}
		}
	}
	if opts.Exact && !opts.AllowHalfFreed {
		for inum, fi := range inodes {
			if fi.ip.Kind == inode.NF3FREE && (len(fi.data) > 0 || fi.ip.ShrinkSize > 0) {
				r.bad("leak", "free inode %d still holds %d block(s) (shrink position %d) although no freeing is in progress", inum, len(fi.data), fi.ip.ShrinkSize)
			}
			if nblk := (fi.ip.Size + BlockSize - 1) / BlockSize; fi.ip.Kind != inode.NF3FREE && fi.ip.ShrinkSize > nblk {
				beyond := 0
				for idx := range fi.data {
					if idx >= nblk {
						beyond++
					}
				}
				if beyond > 0 {
					r.bad("leak", "inode %d (size %d) was cut back but still holds %d block(s) beyond its end (shrink position %d blocks) although no freeing is in progress", inum, fi.ip.Size, beyond, fi.ip.ShrinkSize)
				}
			}
		}
	}
	for bn := common.Bnum(0); bn < dataStart; bn++ {
		if !bit(bbits, uint64(bn)) {
			r.bad("bitmap", "non-data block %d is not marked in use", bn)
			break
		}
	}
	for inum := uint64(2); inum < ninode; inum++ {
		if !bit(ibits, inum) {
			r.FreeInodes++
		}
	}
	if opts.Allocators {
		// Free numbers inside the disk / the inode table.  Bits beyond the end matter only if
		// the running allocator would hand those numbers out.
		var zb, zbAll, zi, ziAll uint64
		for n := uint64(0); n < uint64(len(bbits))*8; n++ {
			if !bit(bbits, n) {
				zbAll++
				if n < uint64(maxBnum) {
					zb++
				}
			}
		}
		for n := uint64(0); n < uint64(len(ibits))*8; n++ {
			if !bit(ibits, n) {
				ziAll++
				if n < ninode {
					zi++
				}
			}
		}
		if got := fs.Balloc.NumFree(); got != zb {
			if got == zbAll {
				r.bad("allocator", "the block allocator counts %d free blocks, but only %d of them exist: %d block numbers beyond the end of the disk are allocatable", got, zb, zbAll-zb)
			} else {
				r.bad("allocator", "the running server's block allocator has %d free blocks, the on-disk bitmap %d", got, zb)
			}
		}
		if got := fs.Ialloc.NumFree(); got != zi {
			if got == ziAll {
				r.bad("allocator", "the inode allocator counts %d free inodes, but only %d of them exist", got, zi)
			} else {
				r.bad("allocator", "the running server's inode allocator has %d free inodes, the on-disk bitmap %d", got, zi)
			}
		}
	}
	return r
}

func leU64(b []byte) uint64 {
	return uint64(b[0]) | uint64(b[1])<<8 | uint64(b[2])<<16 | uint64(b[3])<<24 |
		uint64(b[4])<<32 | uint64(b[5])<<40 | uint64(b[6])<<48 | uint64(b[7])<<56
}

func firstNonZero(b []byte) int {
	for i, x := range b {
		if x != 0 {
			return i
		}
	}
	return -1
}

// fsckServer is the structural check applied to recovered crash images (items 1-6).
func fsckServer(s *Srv) (*FsckReport, error) {
	s.N.VerifWaitShrinkers()
	r := Fsck(s.N.VerifFsState(), FsckOpts{})
	return r, r.Err()
}

// decodeDirEnt uses the repository's own decoder (so that the entry layout is not duplicated here);
// a garbage entry makes that decoder panic, which is reported as an undecodable entry.
func decodeDirEnt(ent []byte) (inum common.Inum, name string, err error) {
	defer func() {
		if r := recover(); r != nil {
			err = fmt.Errorf("%v", r)
		}
	}()
	inum, name = dir.VerifDecodeDirEnt(ent)
	if uint64(len(name)) > dir.MAXNAMELEN {
		err = fmt.Errorf("name of %d bytes", len(name))
	}
	return
}
