package checks

func fsckServer(s *Srv) error { return nil }
