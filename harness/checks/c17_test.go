package checks

// C17 - SimpleNFS implements its specification, atomically and durably.

import (
	"bytes"
	"encoding/binary"
	"fmt"
	"sync"
	"sync/atomic"
	"testing"
	"time"

	"github.com/anishathalye/porcupine"
	nt "github.com/mit-pdos/go-nfsd/nfstypes"
	"github.com/mit-pdos/go-nfsd/simple"
	"pgregory.net/rapid"
)

const simpleDiskSize = 513 + 1 + 32 + 20
const simpleMax = 4096

// the specification: 30 files (inode 2..31) of at most 4096 bytes
type sFile struct {
	Size uint64
	Data [simpleMax]byte
}

type sModel map[uint64]*sFile

func newSModel() sModel {
	m := sModel{}
	for i := uint64(2); i < 32; i++ {
		m[i] = &sFile{}
	}
	return m
}

func (m sModel) clone() sModel {
	c := sModel{}
	for k, v := range m {
		f := *v
		c[k] = &f
	}
	return c
}

func (m sModel) equal(o sModel) bool {
	for k, v := range m {
		w := o[k]
		if v.Size != w.Size || !bytes.Equal(v.Data[:v.Size], w.Data[:w.Size]) {
			return false
		}
	}
	return true
}

func sFH(inum uint64) nt.Nfs_fh3 {
	b := make([]byte, 16)
	binary.LittleEndian.PutUint64(b, inum)
	return nt.Nfs_fh3{Data: b}
}

type sOp struct {
	FHLen int    // 0 = a normal 16-byte handle; otherwise the handle is cut to FHLen-1 bytes
	Kind  string // read write setattr getattr commit lookup other
	Inum  uint64
	Off   uint64
	Cnt   uint32
	Data  []byte
	Size  uint64
	SetSz bool
	Name  string
	Which int
}

func (o sOp) String() string {
	switch o.Kind {
	case "read":
		return fmt.Sprintf("READ ino=%d off=%d cnt=%d fhcut=%d", o.Inum, o.Off, o.Cnt, o.FHLen)
	case "write":
		return fmt.Sprintf("WRITE ino=%d off=%d cnt=%d len=%d tag=%x", o.Inum, o.Off, o.Cnt, len(o.Data), tagOf(o.Data))
	case "setattr":
		return fmt.Sprintf("SETATTR ino=%d size=%d set=%v", o.Inum, o.Size, o.SetSz)
	case "lookup":
		return fmt.Sprintf("LOOKUP %q", o.Name)
	}
	return fmt.Sprintf("%s ino=%d", o.Kind, o.Inum)
}

type sRes struct {
	OK   bool
	Size uint64
	Data []byte
	Eof  bool
	Cnt  uint32
	Type nt.Ftype3
	Ino  uint64
}

func sValid(inum uint64) bool { return inum >= 2 && inum < 32 }

// sApply is the specification: what an operation returns and how it changes the state.
func sApply(m sModel, o sOp) (sRes, bool) {
	f := m[o.Inum]
	if o.FHLen > 0 && o.FHLen <= 8 && o.Kind != "lookup" && o.Kind != "other" {
		return sRes{}, false // not a handle of any file (nor of the root)
	}
	switch o.Kind {
	case "getattr":
		if o.Inum == 1 {
			return sRes{OK: true, Type: nt.NF3DIR, Ino: 1}, false
		}
		if f == nil {
			return sRes{}, false
		}
		return sRes{OK: true, Size: f.Size, Type: nt.NF3REG, Ino: o.Inum}, false
	case "read":
		if f == nil {
			return sRes{}, false
		}
		if o.Off >= f.Size {
			return sRes{OK: true, Eof: true}, false
		}
		end := o.Off + uint64(o.Cnt)
		if end > f.Size {
			end = f.Size
		}
		return sRes{OK: true, Data: append([]byte{}, f.Data[o.Off:end]...), Eof: end >= f.Size}, false
	case "write":
		cnt := uint64(o.Cnt)
		if f == nil || cnt != uint64(len(o.Data)) || o.Off+cnt < o.Off || o.Off+cnt > simpleMax || o.Off > f.Size {
			return sRes{}, false
		}
		copy(f.Data[o.Off:], o.Data)
		if o.Off+cnt > f.Size {
			f.Size = o.Off + cnt
		}
		return sRes{OK: true, Cnt: o.Cnt}, cnt > 0
	case "setattr":
		if f == nil {
			return sRes{}, false
		}
		if !o.SetSz {
			return sRes{OK: true}, false
		}
		if o.Size > simpleMax {
			return sRes{}, false
		}
		for i := f.Size; i < o.Size; i++ {
			f.Data[i] = 0
		}
		f.Size = o.Size
		return sRes{OK: true}, true
	case "commit":
		return sRes{OK: f != nil}, false
	case "lookup":
		switch o.Name {
		case "a":
			return sRes{OK: true, Ino: 2}, false
		case "b":
			return sRes{OK: true, Ino: 3}, false
		}
		return sRes{}, false
	}
	return sRes{}, false // unsupported procedures fail without effect
}

// sCall performs the operation on the server.
func sCall(n *simple.Nfs, o sOp) sRes {
	fh := sFH(o.Inum)
	if o.FHLen > 0 {
		fh.Data = fh.Data[:o.FHLen-1] // a handle that is too short to hold an inode number
	}
	switch o.Kind {
	case "getattr":
		r := n.NFSPROC3_GETATTR(nt.GETATTR3args{Object: fh})
		return sRes{OK: r.Status == nt.NFS3_OK, Size: uint64(r.Resok.Obj_attributes.Size), Type: r.Resok.Obj_attributes.Ftype, Ino: uint64(r.Resok.Obj_attributes.Fileid)}
	case "read":
		r := n.NFSPROC3_READ(nt.READ3args{File: fh, Offset: nt.Offset3(o.Off), Count: nt.Count3(o.Cnt)})
		return sRes{OK: r.Status == nt.NFS3_OK, Data: r.Resok.Data, Eof: r.Resok.Eof, Cnt: uint32(r.Resok.Count)}
	case "write":
		buf := append([]byte{}, o.Data...)
		r := n.NFSPROC3_WRITE(nt.WRITE3args{File: fh, Offset: nt.Offset3(o.Off), Count: nt.Count3(o.Cnt), Stable: nt.Stable_how(o.Which % 3), Data: buf})
		scribble(buf) // the request buffer belongs to the transport again once the reply is out
		return sRes{OK: r.Status == nt.NFS3_OK, Cnt: uint32(r.Resok.Count)}
	case "setattr":
		var a nt.Sattr3
		a.Size = nt.Set_size3{Set_it: o.SetSz, Size: nt.Size3(o.Size)}
		r := n.NFSPROC3_SETATTR(nt.SETATTR3args{Object: fh, New_attributes: a})
		return sRes{OK: r.Status == nt.NFS3_OK}
	case "commit":
		r := n.NFSPROC3_COMMIT(nt.COMMIT3args{File: fh, Offset: nt.Offset3(o.Off), Count: nt.Count3(o.Cnt)})
		return sRes{OK: r.Status == nt.NFS3_OK}
	case "lookup":
		r := n.NFSPROC3_LOOKUP(nt.LOOKUP3args{What: nt.Diropargs3{Dir: fh, Name: nt.Filename3(o.Name)}})
		res := sRes{OK: r.Status == nt.NFS3_OK}
		if res.OK && len(r.Resok.Object.Data) >= 8 {
			res.Ino = binary.LittleEndian.Uint64(r.Resok.Object.Data)
		}
		return res
	}
	dop := nt.Diropargs3{Dir: fh, Name: "x"}
	var st nt.Nfsstat3
	switch o.Which % 12 {
	case 0:
		st = n.NFSPROC3_CREATE(nt.CREATE3args{Where: dop}).Status
	case 1:
		st = n.NFSPROC3_MKDIR(nt.MKDIR3args{Where: dop}).Status
	case 2:
		st = n.NFSPROC3_SYMLINK(nt.SYMLINK3args{Where: dop}).Status
	case 3:
		st = n.NFSPROC3_READLINK(nt.READLINK3args{Symlink: fh}).Status
	case 4:
		st = n.NFSPROC3_MKNOD(nt.MKNOD3args{Where: dop}).Status
	case 5:
		st = n.NFSPROC3_REMOVE(nt.REMOVE3args{Object: dop}).Status
	case 6:
		st = n.NFSPROC3_RMDIR(nt.RMDIR3args{Object: dop}).Status
	case 7:
		st = n.NFSPROC3_RENAME(nt.RENAME3args{From: dop, To: dop}).Status
	case 8:
		st = n.NFSPROC3_LINK(nt.LINK3args{File: fh, Link: dop}).Status
	case 9:
		st = n.NFSPROC3_READDIRPLUS(nt.READDIRPLUS3args{Dir: fh}).Status
	case 10:
		st = n.NFSPROC3_FSSTAT(nt.FSSTAT3args{Fsroot: fh}).Status
	case 11:
		st = n.NFSPROC3_PATHCONF(nt.PATHCONF3args{Object: fh}).Status
	}
	return sRes{OK: st == nt.NFS3_OK}
}

func sCompare(o sOp, got, want sRes) error {
	if got.OK != want.OK {
		return fmt.Errorf("%v: server ok=%v, specification ok=%v", o, got.OK, want.OK)
	}
	if !want.OK {
		return nil
	}
	switch o.Kind {
	case "getattr":
		if got.Type != want.Type || got.Ino != want.Ino || (want.Type == nt.NF3REG && got.Size != want.Size) {
			return fmt.Errorf("%v: attributes (type %d, id %d, size %d), specification (type %d, id %d, size %d)", o, got.Type, got.Ino, got.Size, want.Type, want.Ino, want.Size)
		}
	case "read":
		if !bytes.Equal(got.Data, want.Data) {
			return fmt.Errorf("%v: returned %d bytes, specification %d; first difference at %d", o, len(got.Data), len(want.Data), firstDiff(got.Data, want.Data))
		}
		if got.Eof != want.Eof {
			return fmt.Errorf("%v: eof=%v, specification eof=%v", o, got.Eof, want.Eof)
		}
		if int(got.Cnt) != len(got.Data) {
			return fmt.Errorf("%v: count field %d with %d data bytes", o, got.Cnt, len(got.Data))
		}
	case "write":
		if got.Cnt != want.Cnt {
			return fmt.Errorf("%v: count %d, specification %d", o, got.Cnt, want.Cnt)
		}
	case "lookup":
		if got.Ino != want.Ino {
			return fmt.Errorf("%v: handle of inode %d, specification %d", o, got.Ino, want.Ino)
		}
	}
	return nil
}

var sInums = []uint64{2, 2, 3, 3, 4, 31, 0, 1, 32, 33, 1 << 32, 1 << 63, ^uint64(0)}
var sOffs = []uint64{0, 0, 1, 100, 4000, 4095, 4096, 4097, 8192, 1 << 31, 1<<32 - 1, 1 << 32, 1 << 63, ^uint64(0) - 4096, ^uint64(0) - 100, ^uint64(0) - 1, ^uint64(0)}
var sCnts = []uint32{0, 1, 2, 96, 100, 4000, 4095, 4096, 4097, 8192, 1 << 20, 1 << 31, ^uint32(0)}

func genSOp(t *rapid.T, m sModel, tag *uint32, hot bool) sOp {
	inum := pick(t, sInums, "inum")
	if hot || rapid.IntRange(0, 9).Draw(t, "valid") < 7 {
		inum = uint64(pick(t, []int{2, 2, 3, 4, 31}, "vinum"))
	}
	if !hot && rapid.IntRange(0, 19).Draw(t, "shortfh") == 0 {
		o := genSOp(t, m, tag, true)
		o.FHLen = 1 + rapid.IntRange(0, 7).Draw(t, "fhlen")
		return o
	}
	var size uint64
	if f := m[inum]; f != nil {
		size = f.Size
	}
	off := pick(t, sOffs, "off")
	switch rapid.IntRange(0, 3).Draw(t, "offkind") {
	case 0:
		off = size
	case 1:
		if size > 0 {
			off = rapid.Uint64Range(0, size).Draw(t, "offin")
		}
	}
	switch rapid.IntRange(0, 11).Draw(t, "kind") {
	case 0, 1, 2, 3:
		cnt := pick(t, sCnts, "cnt")
		if rapid.Bool().Draw(t, "fit") && off <= simpleMax {
			cnt = uint32(rapid.Uint64Range(0, simpleMax-off).Draw(t, "cntfit"))
		}
		dl := uint64(cnt)
		if rapid.IntRange(0, 7).Draw(t, "mismatch") == 0 {
			dl = uint64(pick(t, []int{0, 1, 100, 4096, 5000}, "datalen"))
		}
		if dl > 70000 {
			dl = 70000
		}
		*tag++
		return sOp{Kind: "write", Inum: inum, Off: off, Cnt: cnt, Data: patternData(*tag, dl), Which: rapid.IntRange(0, 2).Draw(t, "stable")}
	case 4, 5, 6:
		return sOp{Kind: "read", Inum: inum, Off: off, Cnt: pick(t, sCnts, "cnt")}
	case 7, 8:
		sz := pick(t, sOffs, "size")
		if rapid.Bool().Draw(t, "small") {
			sz = rapid.Uint64Range(0, simpleMax).Draw(t, "sizein")
		}
		return sOp{Kind: "setattr", Inum: inum, Size: sz, SetSz: rapid.IntRange(0, 9).Draw(t, "set") > 0}
	case 9:
		return sOp{Kind: "getattr", Inum: inum}
	case 10:
		if rapid.Bool().Draw(t, "lookup") {
			return sOp{Kind: "lookup", Inum: 1, Name: pick(t, []string{"a", "b", "c", "", "A"}, "name")}
		}
		return sOp{Kind: "commit", Inum: inum, Off: off, Cnt: pick(t, sCnts, "cnt")}
	default:
		return sOp{Kind: "other", Inum: inum, Which: rapid.IntRange(0, 11).Draw(t, "which")}
	}
}

func TestC17Seq(t *testing.T) {
	rapid.Check(t, func(t *rapid.T) {
		d := NewDisk(simpleDiskSize)
		d.SetRecord(false)
		n := simple.MakeNfs(d)
		defer func() { n.VerifShutdown() }()
		m := newSModel()
		var tag uint32
		var log []string
		nmut, nrej, nrestart := 0, 0, 0
		opAct := func(t *rapid.T) {
			o := genSOp(t, m, &tag, false)
			log = append(log, o.String())
			want, mutated := sApply(m, o)
			var got sRes
			var m2 memProbe
			m2.start()
			out := Guard(20*time.Second, func() { got = sCall(n, o) })
			if out.Slow {
				t.Skip("harness too slow")
			}
			if out.Bad() {
				failf(t, "C17", log, "%v: %v", o, out)
			}
			if mb := m2.allocatedMB(); mb > 32 {
				failf(t, "C17", log, "%v made the server allocate %.0f MB", o, mb)
			}
			if err := sCompare(o, got, want); err != nil {
				failf(t, "C17", log, "%v", err)
			}
			if mutated {
				nmut++
			}
			if !want.OK && (o.Kind == "write" || o.Kind == "setattr") && sValid(o.Inum) {
				nrej++
			}
		}
		t.Repeat(map[string]func(*rapid.T){
			"op": opAct, "op2": opAct, "op3": opAct, "op4": opAct, "op5": opAct, "op6": opAct, "op7": opAct, "op8": opAct, "op9": opAct,
			"restart": func(t *rapid.T) {
				// both ways of starting on an existing disk
				if nrestart >= 3 {
					t.Skip("enough restarts")
				}
				nrestart++
				n.VerifShutdown()
				if rapid.Bool().Draw(t, "recover") {
					log = append(log, "restart with Recover")
					n = simple.Recover(d)
				} else {
					log = append(log, "restart with MakeNfs")
					n = simple.MakeNfs(d)
				}
			},
			"": func(t *rapid.T) {
				for _, inum := range []uint64{2, 3, 4, 31} {
					o := sOp{Kind: "read", Inum: inum, Off: 0, Cnt: simpleMax}
					want, _ := sApply(m, o)
					if err := sCompare(o, sCall(n, o), want); err != nil {
						failf(t, "C17", log, "full read-back: %v", err)
					}
				}
			},
		})
		St.Eval(1)
		if nmut > 0 && nrej > 0 {
			St.NT(Hash(log))
			St.Class("seq_with_rejected_write_or_setattr")
		}
		if nrestart > 0 {
			St.Class("seq_with_restart")
		}
		if St.WantSample(nmut > 0 && nrej > 0) {
			St.Sample(map[string]any{"kind": "SimpleNFS sequence", "history": headLog(log, 40)}, nmut > 0 && nrej > 0)
		}
	})
}

// ---- concurrency: linearizable per file ----

type sHist struct {
	Op  sOp
	Res sRes
}

var sPorcupine = porcupine.Model{
	Partition: func(history []porcupine.Operation) [][]porcupine.Operation {
		parts := map[uint64][]porcupine.Operation{}
		for _, h := range history {
			k := h.Input.(sOp).Inum
			parts[k] = append(parts[k], h)
		}
		var out [][]porcupine.Operation
		for _, p := range parts {
			out = append(out, p)
		}
		return out
	},
	Init: func() interface{} { return sFile{} },
	Step: func(state, input, output interface{}) (bool, interface{}) {
		f := state.(sFile)
		o := input.(sOp)
		m := sModel{o.Inum: &f}
		if !sValid(o.Inum) {
			delete(m, o.Inum)
		}
		want, _ := sApply(m, o)
		return sCompare(o, output.(sRes), want) == nil, f
	},
	Equal: func(a, b interface{}) bool {
		x, y := a.(sFile), b.(sFile)
		return x.Size == y.Size && bytes.Equal(x.Data[:x.Size], y.Data[:y.Size])
	},
	DescribeOperation: func(input, output interface{}) string {
		r := output.(sRes)
		return fmt.Sprintf("%v -> ok=%v size=%d len=%d eof=%v", input.(sOp), r.OK, r.Size, len(r.Data), r.Eof)
	},
}

func TestC17Conc(t *testing.T) {
	rapid.Check(t, func(t *rapid.T) {
		d := NewDisk(simpleDiskSize)
		d.SetRecord(false)
		n := simple.MakeNfs(d)
		defer n.VerifShutdown()
		nclients := rapid.IntRange(2, 3).Draw(t, "clients")
		var tag uint32
		m := newSModel()
		progs := make([][]sOp, nclients)
		// focused: client 0 only reads file 2, the others rewrite it (size and bytes change together); before that,
		// file 2 gets contents and the journal is left to install them, so that client 0's reads go to the device
		focused := rapid.Bool().Draw(t, "focused")
		var prefix []sOp
		if focused {
			tag++
			prefix = append(prefix, sOp{Kind: "write", Inum: 2, Off: 0, Cnt: 0, Data: patternData(tag, uint64(pick(t, []int{10, 100, 4096}, "len0"))), Which: 2})
			prefix[0].Cnt = uint32(len(prefix[0].Data))
			for c := range progs {
				for i := 0; i < rapid.IntRange(1, 3).Draw(t, "fnops"); i++ {
					if c == 0 {
						progs[c] = append(progs[c], pick(t, []sOp{{Kind: "read", Inum: 2, Off: 0, Cnt: simpleMax}, {Kind: "getattr", Inum: 2}, {Kind: "read", Inum: 2, Off: 5, Cnt: 10}}, "rop"))
						continue
					}
					if rapid.Bool().Draw(t, "trunc") {
						progs[c] = append(progs[c], sOp{Kind: "setattr", Inum: 2, Size: uint64(pick(t, []int{0, 5, 50, 4096}, "size")), SetSz: true})
					} else {
						tag++
						data := patternData(tag, uint64(pick(t, []int{5, 20, 200, 4096}, "len")))
						progs[c] = append(progs[c], sOp{Kind: "write", Inum: 2, Off: 0, Cnt: uint32(len(data)), Data: data, Which: rapid.IntRange(0, 2).Draw(t, "stable")})
					}
				}
			}
		}
		for c := range progs {
			if focused {
				break
			}
			for i := 0; i < rapid.IntRange(2, 6).Draw(t, "nops"); i++ {
				o := genSOp(t, m, &tag, true)
				o.Inum = uint64(pick(t, []int{2, 2, 3}, "file"))
				if o.Kind == "write" && o.Off > 200 {
					o.Off = uint64(rapid.IntRange(0, 200).Draw(t, "off"))
				}
				progs[c] = append(progs[c], o)
			}
		}
		// one client may be held at one of its disk accesses (a slow device) until the others are done
		var pause *DiskPause
		if rapid.IntRange(0, 2).Draw(t, "pause") > 0 {
			pause = NewDiskPause(rapid.IntRange(0, 7).Draw(t, "access"), 5*time.Millisecond)
			d.SetHook(pause.Hook)
			defer d.SetHook(nil)
		}
		var clock int64
		var mu sync.Mutex
		var ops []porcupine.Operation
		for _, o := range prefix {
			call := atomic.AddInt64(&clock, 1)
			res := sCall(n, o)
			ops = append(ops, porcupine.Operation{ClientId: nclients + 1, Input: o, Call: call, Output: res, Return: atomic.AddInt64(&clock, 1)})
		}
		if focused {
			d.WaitQuiet(300*time.Microsecond, 30*time.Millisecond)
		}
		var wg sync.WaitGroup
		var others sync.WaitGroup
		others.Add(nclients - 1)
		for c := range progs {
			wg.Add(1)
			go func(c int) {
				defer wg.Done()
				if pause != nil {
					if c == 0 {
						pause.Enter()
						defer pause.Reach()
					} else {
						defer others.Done()
						<-pause.Reached()
					}
				}
				for _, o := range progs[c] {
					call := atomic.AddInt64(&clock, 1)
					res := sCall(n, o)
					ret := atomic.AddInt64(&clock, 1)
					mu.Lock()
					ops = append(ops, porcupine.Operation{ClientId: c, Input: o, Call: call, Output: res, Return: ret})
					mu.Unlock()
				}
			}(c)
		}
		if pause != nil {
			go func() { others.Wait(); pause.Release() }()
		}
		wg.Wait()
		if pause != nil && pause.Paused.Load() {
			St.Class("conc_with_a_client_held_at_a_disk_access")
		}
		for _, inum := range []uint64{2, 3} {
			for _, o := range []sOp{{Kind: "getattr", Inum: inum}, {Kind: "read", Inum: inum, Cnt: simpleMax}} {
				call := atomic.AddInt64(&clock, 1)
				res := sCall(n, o)
				ops = append(ops, porcupine.Operation{ClientId: nclients, Input: o, Call: call, Output: res, Return: atomic.AddInt64(&clock, 1)})
			}
		}
		res, _ := porcupine.CheckOperationsVerbose(sPorcupine, ops, 20*time.Second)
		St.Eval(1)
		if overlapping(ops) > 0 {
			St.NT(Hash(describeOps(sPorcupine, ops)))
			St.Class("conc_with_overlap")
			St.Sample(map[string]any{"kind": "SimpleNFS concurrent history", "history": describeOps(sPorcupine, ops)}, true)
		}
		if res == porcupine.Illegal {
			failf(t, "C17", describeOps(sPorcupine, ops), "concurrent history is not linearizable")
		}
	})
}

// ---- crash: acknowledged requests survive, unacknowledged ones apply entirely or not at all ----

func sReadAll(n *simple.Nfs) (sModel, error) {
	m := newSModel()
	for i := uint64(2); i < 32; i++ {
		ga := sCall(n, sOp{Kind: "getattr", Inum: i})
		rd := sCall(n, sOp{Kind: "read", Inum: i, Cnt: simpleMax})
		if !ga.OK || !rd.OK || ga.Size != uint64(len(rd.Data)) || ga.Size > simpleMax {
			return nil, fmt.Errorf("file %d: getattr ok=%v size=%d, read ok=%v %d bytes", i, ga.OK, ga.Size, rd.OK, len(rd.Data))
		}
		m[i].Size = ga.Size
		copy(m[i].Data[:], rd.Data)
	}
	return m, nil
}

func TestC17Crash(t *testing.T) {
	maxPts := 300
	if Thorough() {
		maxPts = 1 << 30
	}
	rapid.Check(t, func(t *rapid.T) {
		d := NewDisk(simpleDiskSize)
		n := simple.MakeNfs(d)
		defer n.VerifShutdown()
		from := d.Mark()
		m := newSModel()
		var tag uint32
		salt := rapid.Uint64().Draw(t, "salt")
		var log []string
		states := []sModel{m.clone()}
		var started, acked []int
		for i := 0; i < rapid.IntRange(2, 16).Draw(t, "nops"); i++ {
			o := genSOp(t, m, &tag, true)
			log = append(log, o.String())
			want, _ := sApply(m, o)
			started = append(started, d.Mark())
			got := sCall(n, o)
			acked = append(acked, d.Mark())
			if err := sCompare(o, got, want); err != nil {
				return // the sequential unit reports this
			}
			states = append(states, m.clone())
		}
		trace := d.Trace()
		pts, exhaustive := CrashPoints(trace, from, maxPts)
		St.Exhaustive(exhaustive)
		var nNT int64
		cnt, fail := ExploreCrashes(d, pts, salt, 2, func(img *Disk, c CrashCase) error {
			lo, hi := 0, 0
			for i := range started {
				if acked[i] <= c.K {
					lo = i + 1
				}
				if started[i] < c.K {
					hi = i + 1
				}
			}
			if hi < lo {
				hi = lo
			}
			for _, how := range []string{"Recover", "MakeNfs"} {
				img2 := img.Clone()
				var n2 *simple.Nfs
				if how == "Recover" {
					n2 = simple.Recover(img2)
				} else {
					n2 = simple.MakeNfs(img2)
				}
				got, err := sReadAll(n2)
				n2.VerifShutdown()
				if err != nil {
					return fmt.Errorf("%s: %v", how, err)
				}
				ok := false
				for j := lo; j <= hi; j++ {
					if got.equal(states[j]) {
						ok = true
					}
				}
				if !ok {
					return fmt.Errorf("after %s the files are not in the state after any prefix of requests in [%d,%d] (all %d acknowledged ones must be included)", how, lo, hi, lo)
				}
			}
			if hi > lo || len(c.Variant.Drop) > 0 {
				atomic.AddInt64(&nNT, 1)
				St.NT(Hash("c17", log, c.K, c.VarIdx))
			}
			return nil
		})
		St.Eval(cnt)
		St.ClassN("crash_images", cnt)
		if fail != nil {
			failf(t, "C17", map[string]any{"history": log, "crash": fail.Case.String()}, "%s: %v", fail.Case, fail.Err)
		}
		if St.WantSample(nNT > 0) {
			St.Sample(map[string]any{"kind": "SimpleNFS crash program", "history": log, "trace_events": len(trace), "images": cnt}, nNT > 0)
		}
	})
}

// Concurrent clients and a crash: what an acknowledged GETATTR or READ has shown is on the device at that
// moment.  One writer per file rewrites it with strictly growing sizes (the size names the version); readers
// note the version each reply shows and where the device trace stood when the reply arrived.  The image of
// that moment (un-barriered writes lost, or the plain cut), recovered with simple.Recover, must hold that
// version or a later one.  The device is slow (every write takes a moment), as devices are.
func TestC17ConcCrash(t *testing.T) {
	rapid.Check(t, func(t *rapid.T) {
		d := NewDisk(simpleDiskSize)
		n := simple.MakeNfs(d)
		nfiles := rapid.IntRange(1, 2).Draw(t, "files")
		nreaders := rapid.IntRange(1, 3).Draw(t, "readers")
		nwrites := rapid.IntRange(5, 40).Draw(t, "writes")
		delay := time.Duration(pick(t, []int{0, 20, 100, 300}, "write_delay_us")) * time.Microsecond
		useSetattr := rapid.Bool().Draw(t, "setattr_too")
		salt := rapid.Uint64().Draw(t, "salt")
		if delay > 0 {
			d.SetHook(func(kind string, addr uint64) {
				if kind == "w" {
					time.Sleep(delay)
				}
			})
		}
		type obs struct {
			File    uint64 `json:"file"`
			Version uint64 `json:"version"`
			How     string `json:"how"`
			Mark    int    `json:"trace_position"`
		}
		var mu sync.Mutex
		var seen []obs
		var wg, writers sync.WaitGroup
		done := make(chan struct{})
		for f := 0; f < nfiles; f++ {
			inum := uint64(2 + f)
			writers.Add(1)
			wg.Add(1)
			go func() {
				defer wg.Done()
				defer writers.Done()
				for k := 1; k <= nwrites; k++ {
					if useSetattr && k%5 == 0 {
						// growth by SETATTR: the version is still the size
						sCall(n, sOp{Kind: "setattr", Inum: inum, Size: uint64(10 + k), SetSz: true})
						continue
					}
					data := patternData(uint32(k), uint64(10+k))
					sCall(n, sOp{Kind: "write", Inum: inum, Off: 0, Cnt: uint32(len(data)), Data: data, Which: 2})
				}
			}()
			for r := 0; r < nreaders; r++ {
				wg.Add(1)
				go func(r int) {
					defer wg.Done()
					for i := 0; ; i++ {
						select {
						case <-done:
							return
						default:
						}
						var v uint64
						how := "GETATTR"
						if (i+r)%2 == 0 {
							g := sCall(n, sOp{Kind: "getattr", Inum: inum})
							if !g.OK || g.Size == 0 {
								continue
							}
							v = g.Size - 10
						} else {
							how = "READ"
							rd := sCall(n, sOp{Kind: "read", Inum: inum, Off: 0, Cnt: simpleMax})
							if !rd.OK || len(rd.Data) == 0 {
								continue
							}
							v = uint64(len(rd.Data)) - 10
						}
						m := d.Mark()
						mu.Lock()
						if len(seen) < 20000 {
							seen = append(seen, obs{inum, v, how, m})
						}
						mu.Unlock()
					}
				}(r)
			}
		}
		go func() { writers.Wait(); close(done) }()
		o := Guard(60*time.Second, func() { wg.Wait() })
		d.SetHook(nil)
		n.VerifShutdown()
		if o.Slow || o.Bad() {
			return // hangs and panics are reported by the other units
		}
		trace := d.Trace()
		// verify: every observation of a version for the first time, plus a sample
		first := map[[2]uint64]bool{}
		nchecked := 0
		for i, ob := range seen {
			key := [2]uint64{ob.File, ob.Version}
			if first[key] && Hash(salt, i)%uint64(len(seen)/20+1) != 0 {
				continue
			}
			first[key] = true
			nchecked++
			vs := Variants(trace, ob.Mark, salt, 0)
			if len(vs) > 2 {
				vs = vs[:2]
			}
			for _, v := range vs {
				img := ImageOf(d.size, d.init, trace, ob.Mark, v.Drop)
				img.SetRecord(false)
				n2 := simple.Recover(img)
				g := sCall(n2, sOp{Kind: "getattr", Inum: ob.File})
				n2.VerifShutdown()
				var have uint64
				if g.OK && g.Size >= 10 {
					have = g.Size - 10
				}
				if !g.OK || have < ob.Version {
					failf(t, "C17", map[string]any{"observation": ob, "variant": v.Name, "files": nfiles, "readers": nreaders, "write_delay_us": delay.Microseconds()},
						"%s of file %d was answered with version %d (size %d), but the device image of that moment (%s), recovered, holds version %d (GETATTR ok=%v size %d): an acknowledged reply showed a write that a crash would undo",
						ob.How, ob.File, ob.Version, ob.Version+10, v.Name, have, g.OK, g.Size)
				}
			}
		}
		St.Eval(nchecked)
		St.ClassN("read_replies_verified_in_a_crash_image", nchecked)
		if nchecked > 0 {
			St.NT(Hash("c17conccrash", nfiles, nreaders, nwrites, delay, salt))
		}
		if St.WantSample(nchecked > 0) {
			St.Sample(map[string]any{"kind": "concurrent readers and a writer, device image at a read reply", "files": nfiles, "readers_per_file": nreaders,
				"writes": nwrites, "replies_seen": len(seen), "verified": nchecked, "trace_events": len(trace)}, nchecked > 0)
		}
	})
}
