package checks

// C13 - directory enumeration is complete, duplicate-free and terminates.

import (
	"bytes"
	"fmt"
	"sort"
	"strings"
	"sync"
	"sync/atomic"
	"time"
	"testing"

	nt "github.com/mit-pdos/go-nfsd/nfstypes"
	"pgregory.net/rapid"
)

var pageCounts = []uint32{0, 1, 10, 64, 100, 200, 300, 512, 1000, 4096, 65536}

type pageReq struct {
	Plus     bool
	Cookie   uint64
	Count    uint32
	Dircount uint32
}

// onePage issues one READDIR/READDIRPLUS call.
func onePage(api API, fh nt.Nfs_fh3, r pageReq) (ents []DirEntry, eof bool, st nt.Nfsstat3) {
	if r.Plus {
		res := api.NFSPROC3_READDIRPLUS(nt.READDIRPLUS3args{Dir: fh, Cookie: nt.Cookie3(r.Cookie), Dircount: nt.Count3(r.Dircount), Maxcount: nt.Count3(r.Count)})
		st = res.Status
		if res.Resok.Reply.Entries != nil {
			// the reply is the caller's: another listing served before it has been read (a client that keeps a page
			// while it asks for the next, a transport that encodes later) must not change it
			api.NFSPROC3_READDIRPLUS(nt.READDIRPLUS3args{Dir: fh, Cookie: 0, Dircount: 512, Maxcount: 1500})
		}
		for e := res.Resok.Reply.Entries; e != nil; e = e.Nextentry {
			de := DirEntry{Name: string(e.Name), Fileid: uint64(e.Fileid), Cookie: uint64(e.Cookie)}
			if e.Name_handle.Handle_follows {
				de.FH = e.Name_handle.Handle.Data
			}
			if e.Name_attributes.Attributes_follow {
				a := e.Name_attributes.Attributes
				de.Attr = &a
			}
			ents = append(ents, de)
		}
		return ents, res.Resok.Reply.Eof, st
	}
	res := api.NFSPROC3_READDIR(nt.READDIR3args{Dir: fh, Cookie: nt.Cookie3(r.Cookie), Count: nt.Count3(r.Count)})
	st = res.Status
	for e := res.Resok.Reply.Entries; e != nil; e = e.Nextentry {
		ents = append(ents, DirEntry{Name: string(e.Name), Fileid: uint64(e.Fileid), Cookie: uint64(e.Cookie)})
	}
	return ents, res.Resok.Reply.Eof, st
}

// checkEntry: the entry names an object that is in the directory right now, with its file id, handle and attributes.
func checkEntry(x *Exec, d *MNode, e DirEntry, plus bool) error {
	n := x.M.Lookup(d, e.Name)
	if n == nil {
		return fmt.Errorf("the listing returned %q, which is not in the directory", trunc(e.Name, 24))
	}
	if n.Fileid != 0 && e.Fileid != n.Fileid {
		return fmt.Errorf("entry %q carries file id %d, the object's is %d", trunc(e.Name, 24), e.Fileid, n.Fileid)
	}
	if plus {
		if e.FH == nil || !bytes.Equal(e.FH, n.FH) {
			return fmt.Errorf("READDIRPLUS entry %q carries handle %x, LOOKUP gives %x", trunc(e.Name, 24), e.FH, n.FH)
		}
		if e.Attr == nil {
			return fmt.Errorf("READDIRPLUS entry %q carries no attributes", trunc(e.Name, 24))
		}
		if e.Attr.Ftype != n.Kind || uint64(e.Attr.Fileid) != n.Fileid || (n.Kind != nt.NF3DIR && uint64(e.Attr.Size) != n.Size) {
			return fmt.Errorf("READDIRPLUS entry %q: attributes (type %d, id %d, size %d) are not those of the object (type %d, id %d, size %d)",
				trunc(e.Name, 24), e.Attr.Ftype, e.Attr.Fileid, e.Attr.Size, n.Kind, n.Fileid, n.Size)
		}
	}
	return nil
}

func genEntryName(t *rapid.T, i int) string {
	switch rapid.IntRange(0, 5).Draw(t, "namelen") {
	case 0:
		return nameOfLen(pick(t, []int{60, 96, 97, 100, 111, 112}, "long"), fmt.Sprintf("n%d_", i))
	case 1:
		return nameOfLen(rapid.IntRange(8, 40).Draw(t, "mid"), fmt.Sprintf("n%d_", i))
	default:
		return fmt.Sprintf("n%d", i)
	}
}

func TestC13Paging(t *testing.T) {
	rapid.Check(t, func(t *rapid.T) {
		x, cc := newSeqCase(t, "C13", 8000, 15)
		defer func() { x.S.Stop() }()
		fail := func(format string, a ...any) {
			failf(t, "C13", map[string]any{"history": tailLog(x.Log, 60), "rpc": cc.ViaRPC}, format, a...)
		}
		cut := false
		do := func(err error) {
			if err != nil {
				cut = true
			}
		}
		root := LiveRef(x.M.Root)
		do(x.Mkdir(root, "d"))
		if cut {
			return
		}
		d := x.M.Root.Children["d"]
		dref := LiveRef(d)
		seq := 0
		addOne := func() {
			seq++
			name := genEntryName(t, seq)
			switch rapid.IntRange(0, 5).Draw(t, "kind") {
			case 0:
				do(x.Mkdir(dref, name))
			case 1:
				do(x.Symlink(dref, name, "t"))
			default:
				do(x.Create(dref, name))
				if n := d.Children[name]; n != nil && rapid.Bool().Draw(t, "data") {
					do(x.Write(LiveRef(n), 0, patternData(uint32(seq), 300), 300, nt.FILE_SYNC))
				}
			}
		}
		removeOne := func() {
			if len(d.Children) == 0 {
				return
			}
			name := pick(t, sortedNames(d.Children), "victim")
			if d.Children[name].IsDir() {
				do(x.Rmdir(dref, name))
			} else {
				do(x.Remove(dref, name))
			}
		}
		// build: entries, holes in the middle, slot reuse
		n0 := pick(t, []int{0, 1, 2, 5, 12, 30, 31, 32, 33, 40, 64, 90, 150, 520, 700}, "entries")
		big := n0 >= 500
		for i := 0; i < n0 && !cut; i++ {
			if big {
				// a directory of many blocks, long names (the listing of all of it exceeds any reply size)
				seq++
				do(x.Create(dref, nameOfLen(pick(t, []int{100, 112}, "biglen"), fmt.Sprintf("n%d_", seq))))
				continue
			}
			addOne()
		}
		for i := 0; i < rapid.IntRange(0, n0/2+1).Draw(t, "removals") && !cut; i++ {
			removeOne()
		}
		for i := 0; i < rapid.IntRange(0, 10).Draw(t, "readds") && !cut; i++ {
			addOne()
		}
		if rapid.IntRange(0, 3).Draw(t, "restart") == 0 || (big && rapid.Bool().Draw(t, "restartbig")) {
			do(x.Restart())
		}
		if big {
			St.Class("directory_of_500_or_more_long_names")
		}
		if cut {
			St.Class("case_cut_short_by_another_oracle")
			return
		}
		api := x.S.API()
		fh := dref.fh()
		nsessions := rapid.IntRange(1, 4).Draw(t, "sessions")
		for s := 0; s < nsessions && !cut; s++ {
			plus := rapid.Bool().Draw(t, "plus")
			mutate := rapid.IntRange(0, 2).Draw(t, "mutate") == 0
			req := pageReq{Plus: plus, Count: pick(t, pageCounts, "count"), Dircount: pick(t, pageCounts, "dircount")}
			lookupLater := !mutate && rapid.Bool().Draw(t, "lookuplater")
			x.logf("enumerate /d with %+v, mutations between pages: %v (%d entries)", req, mutate, len(d.Children))
			// incarnations present at the start
			type inc struct {
				obj  *MNode
				seen int
				gone bool
			}
			start := map[string]*inc{".": {obj: d}, "..": {obj: x.M.Root}}
			for name, n := range d.Children {
				start[name] = &inc{obj: n}
			}
			slots := int(nslots(x, d)) + 4
			var linear []DirEntry
			pages := 0
			for {
				pages++
				if pages > slots+200 {
					fail("the enumeration did not end after %d calls (the directory has %d slots)", pages, slots)
				}
				var ents []DirEntry
				var eof bool
				var st nt.Nfsstat3
				o := Guard(x.Watchdog, func() { ents, eof, st = onePage(api, fh, req) })
				if o.Slow {
					St.Class("call_too_slow_for_the_harness_not_judged")
					return
				}
				if o.Bad() {
					fail("READDIR call: %v", o)
				}
				if st != nt.NFS3_OK {
					fail("READDIR%s with cookie %d returned status %d", map[bool]string{true: "PLUS"}[plus], req.Cookie, st)
				}
				if len(ents) == 0 && !eof {
					fail("a call with cookie %d (count %d) returned no entry and no end-of-directory: no progress", req.Cookie, req.Count)
				}
				for _, e := range ents {
					if err := checkEntry(x, d, e, plus); err != nil {
						fail("page %d (cookie %d): %v", pages, req.Cookie, err)
					}
					// the file id listed is that of the named object: LOOKUP of the name agrees (in sessions without
					// mutations half of the time only after the enumeration: a LOOKUP makes the server build its name
					// cache of the directory, and an enumeration must also be right when it finds none)
					if e.Name != "." && e.Name != ".." && !lookupLater {
						lr := api.NFSPROC3_LOOKUP(nt.LOOKUP3args{What: nt.Diropargs3{Dir: fh, Name: nt.Filename3(e.Name)}})
						if lr.Status != nt.NFS3_OK || uint64(lr.Resok.Obj_attributes.Attributes.Fileid) != e.Fileid {
							fail("page %d lists %q with file id %d, but LOOKUP of that name answers status %d, file id %d", pages, trunc(e.Name, 24), e.Fileid, lr.Status, lr.Resok.Obj_attributes.Attributes.Fileid)
						}
					}
					if in := start[e.Name]; in != nil && !in.gone && x.M.Lookup(d, e.Name) == in.obj {
						in.seen++
						if in.seen > 1 {
							fail("entry %q, in the directory throughout the enumeration, was returned twice (page %d)", trunc(e.Name, 24), pages)
						}
					}
					linear = append(linear, e)
				}
				if eof {
					break
				}
				req.Cookie = ents[len(ents)-1].Cookie
				if mutate && !cut {
					switch rapid.IntRange(0, 4).Draw(t, "mut") {
					case 0:
						addOne()
					case 1:
						removeOne()
					case 2:
						// remove exactly the entry whose cookie is about to be passed back (what "rm -r" does)
						last := ents[len(ents)-1].Name
						if n := d.Children[last]; n != nil {
							if n.IsDir() {
								do(x.Rmdir(dref, last))
							} else {
								do(x.Remove(dref, last))
							}
							St.Class("removed_the_entry_whose_cookie_is_passed_back")
						}
					}
					for name, in := range start {
						if name != "." && name != ".." && d.Children[name] != in.obj {
							in.gone = true
						}
					}
					if cut {
						break
					}
				}
			}
			if cut {
				break
			}
			if lookupLater {
				for _, e := range linear {
					if e.Name == "." || e.Name == ".." {
						continue
					}
					lr := api.NFSPROC3_LOOKUP(nt.LOOKUP3args{What: nt.Diropargs3{Dir: fh, Name: nt.Filename3(e.Name)}})
					if lr.Status != nt.NFS3_OK || uint64(lr.Resok.Obj_attributes.Attributes.Fileid) != e.Fileid {
						fail("the enumeration listed %q with file id %d, but LOOKUP of that name afterwards answers status %d, file id %d", trunc(e.Name, 24), e.Fileid, lr.Status, lr.Resok.Obj_attributes.Attributes.Fileid)
					}
				}
				St.Class("session_cross_checked_with_lookup_only_afterwards")
			}
			for name, in := range start {
				if !in.gone && in.seen != 1 {
					fail("entry %q was in the directory throughout the enumeration but was returned %d times (count %d, %d pages)", trunc(name, 24), in.seen, req.Count, pages)
				}
			}
			St.Eval(1)
			nontrivial := pages >= 3 || mutate
			if nontrivial {
				St.NT(Hash(x.Log, s))
			}
			if pages >= 3 {
				St.Class("session_of_3_or_more_pages")
			}
			if mutate {
				St.Class("session_with_mutations_between_pages")
			}
			if plus {
				St.Class("session_readdirplus")
			}
			// resume from earlier cookies: with no mutation, the tail must be exactly what followed that entry
			if !mutate && len(linear) > 0 {
				for k := 0; k < 3; k++ {
					i := rapid.IntRange(0, len(linear)-1).Draw(t, "resumeat")
					req2 := pageReq{Plus: plus, Cookie: linear[i].Cookie, Count: pick(t, pageCounts, "count2"), Dircount: pick(t, pageCounts, "dircount2")}
					var tail []DirEntry
					for p := 0; ; p++ {
						if p > slots+200 {
							fail("the enumeration resumed at cookie %d did not end", linear[i].Cookie)
						}
						ents, eof, st := onePage(api, fh, req2)
						if st != nt.NFS3_OK || (len(ents) == 0 && !eof) {
							fail("resuming at cookie %d: status %d, %d entries, eof %v", req2.Cookie, st, len(ents), eof)
						}
						tail = append(tail, ents...)
						if eof {
							break
						}
						req2.Cookie = ents[len(ents)-1].Cookie
					}
					want := linear[i+1:]
					if len(tail) != len(want) {
						fail("resuming after entry %d (%q, cookie %d) returned %d entries, %d followed it in the first enumeration", i, trunc(linear[i].Name, 24), linear[i].Cookie, len(tail), len(want))
					}
					for j := range tail {
						if tail[j].Name != want[j].Name || tail[j].Fileid != want[j].Fileid {
							fail("resuming after entry %d: position %d is %q, the first enumeration had %q there", i, j, trunc(tail[j].Name, 24), trunc(want[j].Name, 24))
						}
					}
					St.Class("resumed_from_an_earlier_cookie")
				}
			}
			if St.WantSample(nontrivial) {
				St.Sample(map[string]any{"kind": "paging session", "request": fmt.Sprintf("%+v", req), "entries": len(d.Children), "pages": pages,
					"mutations_between_pages": mutate, "returned": len(linear)}, nontrivial)
			}
		}
		if cut {
			St.Class("case_cut_short_by_another_oracle")
		}
	})
}

func nslots(x *Exec, d *MNode) uint64 {
	r := x.S.API().NFSPROC3_GETATTR(nt.GETATTR3args{Object: nt.Nfs_fh3{Data: d.FH}})
	return uint64(r.Resok.Obj_attributes.Size) / 128
}

// Concurrent: one client enumerates with READDIR while another adds and removes other names.
func TestC13Concurrent(t *testing.T) {
	rapid.Check(t, func(t *rapid.T) {
		x, _ := newSeqCase(t, "C13", 8000, 0)
		defer func() { x.S.Stop() }()
		fail := func(format string, a ...any) {
			failf(t, "C13", map[string]any{"history": tailLog(x.Log, 30)}, format, a...)
		}
		root := LiveRef(x.M.Root)
		if x.Mkdir(root, "d") != nil {
			return
		}
		d := x.M.Root.Children["d"]
		dref := LiveRef(d)
		nstable := rapid.IntRange(1, 60).Draw(t, "stable")
		for i := 0; i < nstable; i++ {
			if x.Create(dref, fmt.Sprintf("stable%d", i)) != nil {
				return
			}
			if i%3 == 0 {
				// holes between the stable entries, to be reused by the mutator
				if x.Create(dref, fmt.Sprintf("tmp%d", i)) != nil || x.Remove(dref, fmt.Sprintf("tmp%d", i)) != nil {
					return
				}
			}
		}
		count := pick(t, pageCounts, "count")
		nmut := rapid.IntRange(5, 60).Draw(t, "mutations")
		api := x.S.API()
		fh := dref.fh()
		var wg sync.WaitGroup
		wg.Add(1)
		go func() {
			defer wg.Done()
			for i := 0; i < nmut; i++ {
				name := nt.Filename3(fmt.Sprintf("vol%d", i%7))
				api.NFSPROC3_CREATE(nt.CREATE3args{Where: nt.Diropargs3{Dir: fh, Name: name}})
				if i%2 == 1 {
					api.NFSPROC3_REMOVE(nt.REMOVE3args{Object: nt.Diropargs3{Dir: fh, Name: name}})
				}
			}
		}()
		var problem string
		nenum := 0
		o := Guard(x.Watchdog, func() {
			for round := 0; round < 4 && problem == ""; round++ {
				seen := map[string]int{}
				req := pageReq{Count: count}
				for p := 0; ; p++ {
					if p > 2000 {
						problem = "the enumeration did not end"
						return
					}
					ents, eof, st := onePage(api, fh, req)
					if st != nt.NFS3_OK || (len(ents) == 0 && !eof) {
						problem = fmt.Sprintf("cookie %d: status %d, %d entries, eof %v", req.Cookie, st, len(ents), eof)
						return
					}
					for _, e := range ents {
						seen[e.Name]++
						if n := d.Children[e.Name]; n != nil && n.Fileid != e.Fileid {
							problem = fmt.Sprintf("entry %q carries file id %d, the object's is %d", e.Name, e.Fileid, n.Fileid)
						}
					}
					if eof {
						break
					}
					req.Cookie = ents[len(ents)-1].Cookie
				}
				nenum++
				for i := 0; i < nstable; i++ {
					if c := seen[fmt.Sprintf("stable%d", i)]; c != 1 {
						problem = fmt.Sprintf("stable%d, never touched by the mutator, was returned %d times in an enumeration with count %d", i, c, count)
					}
				}
				if seen["."] != 1 || seen[".."] != 1 {
					problem = fmt.Sprintf("'.' returned %d times, '..' %d times", seen["."], seen[".."])
				}
			}
		})
		wg.Wait()
		if o.Slow {
			St.Class("call_too_slow_for_the_harness_not_judged")
			return
		}
		if o.Bad() {
			fail("enumeration during updates: %v", o)
		}
		if problem != "" {
			fail("enumeration during updates: %s", problem)
		}
		St.Eval(nenum)
		St.NT(Hash("conc", nstable, count, nmut))
		St.ClassN("enumerations_during_concurrent_updates", nenum)
	})
}

// A directory that reaches into the double-indirect range of its inode (more than 520 blocks = 16 640 slots):
// built with plain calls, kept in a map of name -> (file id, handle); enumerated with READDIR and READDIRPLUS,
// mutated in the far range (slots freed and taken again, the directory grown by another block), restarted.
func TestC13Huge(t *testing.T) {
	rapid.Check(t, func(t *rapid.T) {
		d := NewDisk(9000)
		d.SetRecord(false)
		s := StartSrv(d, rapid.Bool().Draw(t, "unstable"), false)
		defer func() { s.Stop() }()
		var hist []string
		fail := func(format string, a ...any) {
			failf(t, "C13", map[string]any{"history": hist}, format, a...)
		}
		api := s.API()
		mk := api.NFSPROC3_MKDIR(nt.MKDIR3args{Where: nt.Diropargs3{Dir: s.RootFH(), Name: "huge"}})
		if mk.Status != nt.NFS3_OK {
			fail("MKDIR: status %d", mk.Status)
		}
		dir := mk.Resok.Obj.Handle
		type ent struct {
			id uint64
			fh []byte
		}
		have := map[string]ent{}
		n0 := 16640 + rapid.IntRange(-40, 200).Draw(t, "entries") // '.' and '..' take two slots
		create := func(name string) {
			r := api.NFSPROC3_CREATE(nt.CREATE3args{Where: nt.Diropargs3{Dir: dir, Name: nt.Filename3(name)}})
			if r.Status != nt.NFS3_OK {
				fail("CREATE %s in a directory of %d entries: status %d", name, len(have), r.Status)
			}
			have[name] = ent{uint64(r.Resok.Obj_attributes.Attributes.Fileid), r.Resok.Obj.Handle.Data}
		}
		remove := func(name string) {
			if r := api.NFSPROC3_REMOVE(nt.REMOVE3args{Object: nt.Diropargs3{Dir: dir, Name: nt.Filename3(name)}}); r.Status != nt.NFS3_OK {
				fail("REMOVE %s: status %d", name, r.Status)
			}
			delete(have, name)
		}
		for i := 0; i < n0; i++ {
			create(fmt.Sprintf("e%05d", i))
		}
		hist = append(hist, fmt.Sprintf("MKDIR /huge; CREATE e00000 .. e%05d", n0-1))
		enumerate := func(what string) {
			for _, plus := range []bool{false, true} {
				req := pageReq{Plus: plus, Count: pick(t, []uint32{4096, 65536, 1 << 20}, "count"), Dircount: 65536}
				start := uint64(0)
				seen := map[string]int{}
				if plus {
					// the attributes of 16 000 entries are not the point: start near the end of the single-indirect range
					// READDIR up to about slot 16 000, READDIRPLUS from there
					skip := pageReq{Count: 65536}
					for len(seen) < 16000 {
						ents, eof, st := onePage(api, dir, skip)
						if st != nt.NFS3_OK || (len(ents) == 0 && !eof) {
							fail("%s: READDIR from cookie %d: status %d, no progress", what, skip.Cookie, st)
						}
						if eof {
							break // the rest (this page included) goes through READDIRPLUS
						}
						for _, e := range ents {
							seen[e.Name]++
						}
						skip.Cookie = ents[len(ents)-1].Cookie
						start = skip.Cookie
					}
				}
				req.Cookie = start
				for pages := 0; ; pages++ {
					if pages > 40000 {
						fail("%s: the enumeration does not end", what)
					}
					ents, eof, st := onePage(api, dir, req)
					if st != nt.NFS3_OK || (len(ents) == 0 && !eof) {
						fail("%s: READDIR%s from cookie %d: status %d, %d entries, eof %v", what, map[bool]string{true: "PLUS"}[plus], req.Cookie, st, len(ents), eof)
					}
					for _, e := range ents {
						seen[e.Name]++
						if e.Name == "." || e.Name == ".." {
							continue
						}
						w, ok := have[e.Name]
						if !ok {
							fail("%s: the listing returned %q, which is not in the directory", what, e.Name)
						}
						if e.Fileid != w.id {
							fail("%s: entry %q carries file id %d, the object's is %d", what, e.Name, e.Fileid, w.id)
						}
						if plus && (e.FH == nil || !bytes.Equal(e.FH, w.fh) || e.Attr == nil || uint64(e.Attr.Fileid) != w.id) {
							fail("%s: READDIRPLUS entry %q carries handle %x (object: %x) or wrong attributes", what, e.Name, e.FH, w.fh)
						}
					}
					if eof {
						break
					}
					req.Cookie = ents[len(ents)-1].Cookie
				}
				for name := range have {
					if seen[name] != 1 {
						fail("%s: entry %q of a directory of %d entries was returned %d times by READDIR%s (count %d)", what, name, len(have), seen[name], map[bool]string{true: "PLUS"}[plus], req.Count)
					}
				}
				if seen["."] != 1 || seen[".."] != 1 {
					fail("%s: '.' returned %d times, '..' %d times", what, seen["."], seen[".."])
				}
				St.Eval(1)
				St.NT(Hash("huge", n0, what, plus))
				St.Class("enumerations_of_a_directory_reaching_the_double_indirect_range")
			}
		}
		enumerate("after building")
		// free slots far out and near the start, take them again, grow the directory by another block
		for _, i := range []int{n0 - 1, n0 - 2, n0 - 33, 16637, 16638, 16639, 16640, 5, 8000} {
			if name := fmt.Sprintf("e%05d", i); i >= 0 && i < n0 {
				if _, ok := have[name]; ok {
					remove(name)
				}
			}
		}
		nadd := rapid.IntRange(1, 70).Draw(t, "adds")
		for i := 0; i < nadd; i++ {
			create(fmt.Sprintf("x%05d", i))
		}
		hist = append(hist, "REMOVE nine entries (far range, range boundary, start)", fmt.Sprintf("CREATE x00000 .. x%05d", nadd-1))
		if rapid.Bool().Draw(t, "restart") {
			s.Restart()
			api = s.API()
			hist = append(hist, "RESTART")
		}
		enumerate("after removals, additions" + map[bool]string{true: " and a restart"}[len(hist) > 3])
		for name, w := range have {
			if Hash(name)%97 != 0 {
				continue
			}
			lr := api.NFSPROC3_LOOKUP(nt.LOOKUP3args{What: nt.Diropargs3{Dir: dir, Name: nt.Filename3(name)}})
			if lr.Status != nt.NFS3_OK || !bytes.Equal(lr.Resok.Object.Data, w.fh) {
				fail("LOOKUP %s: status %d handle %x, created as %x", name, lr.Status, lr.Resok.Object.Data, w.fh)
			}
		}
	})
}

// Directories whose inode number belonged to another directory (or a file) a moment ago, within one server uptime:
// on an inode table that is full but for a handful of numbers every MKDIR is handed a number that was freed a few
// requests earlier, while the old object's in-memory inode is still cached.  Each round makes a directory, fills
// it, enumerates it with READDIR and READDIRPLUS (paged) against a map and cross-checks with LOOKUP, empties and
// removes it; some rounds put a file with data on the freed number (and the freed directory block) in between.
func TestC13Reuse(t *testing.T) {
	inodeFullOnce.Do(buildInodeFullImage)
	rapid.Check(t, func(t *rapid.T) {
		d := NewDiskFrom(inodeFullDisk, inodeFullImg)
		d.SetRecord(false)
		s := StartSrv(d, rapid.Bool().Draw(t, "unstable"), false)
		defer func() { s.Stop() }()
		var hist []string
		logf := func(format string, a ...any) { hist = append(hist, fmt.Sprintf(format, a...)) }
		fail := func(format string, a ...any) {
			failf(t, "C13", map[string]any{"history": hist}, format, a...)
		}
		api := s.API()
		root := s.RootFH()
		k := rapid.IntRange(3, 6).Draw(t, "free_inode_numbers")
		p0 := api.NFSPROC3_LOOKUP(nt.LOOKUP3args{What: nt.Diropargs3{Dir: root, Name: nt.Filename3(inodeFullDirs[0])}})
		if p0.Status != nt.NFS3_OK {
			St.Class("setup_not_possible_with_this_build_case_not_judged")
			return
		}
		for i := 0; i < k; i++ {
			if r := api.NFSPROC3_REMOVE(nt.REMOVE3args{Object: nt.Diropargs3{Dir: p0.Resok.Object, Name: nt.Filename3(fmt.Sprintf("p%d", 5+7*i))}}); r.Status != nt.NFS3_OK {
				St.Class("setup_not_possible_with_this_build_case_not_judged")
				return
			}
		}
		logf("inode table full but for %d numbers", k)
		wasDir, wasFile := map[uint64]bool{}, map[uint64]bool{}
		ndirdir, nfiledir := 0, 0
		rounds := rapid.IntRange(4, 10).Draw(t, "rounds")
		for r := 0; r < rounds; r++ {
			dn := fmt.Sprintf("d%d", r)
			mk := api.NFSPROC3_MKDIR(nt.MKDIR3args{Where: nt.Diropargs3{Dir: root, Name: nt.Filename3(dn)}})
			if mk.Status != nt.NFS3_OK {
				fail("MKDIR /%s with %d free inode numbers: status %d", dn, k, mk.Status)
			}
			dh := mk.Resok.Obj.Handle
			did := uint64(mk.Resok.Obj_attributes.Attributes.Fileid)
			reusedDir, reusedFile := wasDir[did], wasFile[did]
			if reusedDir {
				ndirdir++
			}
			if reusedFile {
				nfiledir++
			}
			logf("MKDIR /%s -> inode %d (was a directory before: %v, a file: %v)", dn, did, reusedDir, reusedFile)
			type ent struct {
				id uint64
				fh []byte
			}
			have := map[string]ent{}
			m := rapid.IntRange(0, k-1).Draw(t, "entries")
			for i := 0; i < m; i++ {
				name := genEntryName(t, i)
				var id uint64
				var h []byte
				var st nt.Nfsstat3
				if rapid.IntRange(0, 3).Draw(t, "subdir") == 0 {
					c := api.NFSPROC3_MKDIR(nt.MKDIR3args{Where: nt.Diropargs3{Dir: dh, Name: nt.Filename3(name)}})
					st, id, h = c.Status, uint64(c.Resok.Obj_attributes.Attributes.Fileid), c.Resok.Obj.Handle.Data
				} else {
					c := api.NFSPROC3_CREATE(nt.CREATE3args{Where: nt.Diropargs3{Dir: dh, Name: nt.Filename3(name)}})
					st, id, h = c.Status, uint64(c.Resok.Obj_attributes.Attributes.Fileid), c.Resok.Obj.Handle.Data
				}
				if st != nt.NFS3_OK {
					fail("CREATE/MKDIR /%s/%s: status %d", dn, trunc(name, 24), st)
				}
				have[name] = ent{id, h}
			}
			logf("%d entries made in /%s", m, dn)
			for _, plus := range []bool{false, true} {
				req := pageReq{Plus: plus, Count: pick(t, []uint32{100, 300, 512, 4096, 65536}, "count"), Dircount: 65536}
				seen := map[string]int{}
				for pages := 0; ; pages++ {
					if pages > 200 {
						fail("enumeration of /%s does not end", dn)
					}
					ents, eof, st := onePage(api, dh, req)
					if st != nt.NFS3_OK || (len(ents) == 0 && !eof) {
						fail("READDIR%s of /%s (inode %d) from cookie %d: status %d, %d entries, eof %v", map[bool]string{true: "PLUS"}[plus], dn, did, req.Cookie, st, len(ents), eof)
					}
					for _, e := range ents {
						seen[e.Name]++
						if e.Name == "." || e.Name == ".." {
							if e.Name == "." && e.Fileid != did {
								fail("'.' of /%s carries file id %d, the directory's is %d", dn, e.Fileid, did)
							}
							continue
						}
						w, ok := have[e.Name]
						if !ok {
							fail("the listing of /%s (inode %d, number reused from a directory: %v, from a file: %v) returned %q, which is not in the directory", dn, did, reusedDir, reusedFile, trunc(e.Name, 30))
						}
						if e.Fileid != w.id {
							fail("entry %q of /%s carries file id %d, the object's is %d", trunc(e.Name, 30), dn, e.Fileid, w.id)
						}
						if plus && (e.FH == nil || !bytes.Equal(e.FH, w.fh) || e.Attr == nil || uint64(e.Attr.Fileid) != w.id) {
							fail("READDIRPLUS entry %q of /%s carries handle %x (object: %x) or wrong attributes", trunc(e.Name, 30), dn, e.FH, w.fh)
						}
					}
					if eof {
						break
					}
					req.Cookie = ents[len(ents)-1].Cookie
				}
				for name := range have {
					if seen[name] != 1 {
						fail("entry %q of /%s (inode %d; number reused from a directory: %v, from a file: %v; %d entries) was returned %d times by READDIR%s (count %d)",
							trunc(name, 30), dn, did, reusedDir, reusedFile, len(have), seen[name], map[bool]string{true: "PLUS"}[plus], req.Count)
					}
				}
				if seen["."] != 1 || seen[".."] != 1 {
					fail("/%s (inode %d; number reused from a directory: %v, from a file: %v): '.' returned %d times, '..' %d times by READDIR%s", dn, did, reusedDir, reusedFile, seen["."], seen[".."], map[bool]string{true: "PLUS"}[plus])
				}
				St.Eval(1)
				if reusedDir || reusedFile {
					St.NT(Hash("c13reuse", hist, plus))
				}
			}
			for name, w := range have {
				l := api.NFSPROC3_LOOKUP(nt.LOOKUP3args{What: nt.Diropargs3{Dir: dh, Name: nt.Filename3(name)}})
				if l.Status != nt.NFS3_OK || !bytes.Equal(l.Resok.Object.Data, w.fh) {
					fail("LOOKUP /%s/%s: status %d", dn, trunc(name, 30), l.Status)
				}
			}
			if rapid.IntRange(0, 3).Draw(t, "keep_until_later") == 0 && r+1 < rounds && k-m >= 3 {
				// this directory stays (empty or not): the following rounds work with fewer numbers
				logf("/%s stays", dn)
				k -= m + 1
				continue
			}
			names := make([]string, 0, len(have))
			for name := range have {
				names = append(names, name)
			}
			sort.Strings(names)
			for _, name := range names {
				st := api.NFSPROC3_REMOVE(nt.REMOVE3args{Object: nt.Diropargs3{Dir: dh, Name: nt.Filename3(name)}}).Status
				if st != nt.NFS3_OK {
					// (the entry may be a directory, which a server need not let REMOVE take away)
					st = api.NFSPROC3_RMDIR(nt.RMDIR3args{Object: nt.Diropargs3{Dir: dh, Name: nt.Filename3(name)}}).Status
				}
				if st != nt.NFS3_OK {
					fail("REMOVE/RMDIR /%s/%s: status %d", dn, trunc(name, 30), st)
				}
				wasFile[have[name].id] = true
			}
			if st := api.NFSPROC3_RMDIR(nt.RMDIR3args{Object: nt.Diropargs3{Dir: root, Name: nt.Filename3(dn)}}).Status; st != nt.NFS3_OK {
				fail("RMDIR /%s after removing its %d entries: status %d", dn, len(have), st)
			}
			wasDir[did] = true
			logf("entries removed, RMDIR /%s", dn)
			if rapid.IntRange(0, 2).Draw(t, "file_between") == 0 {
				// a file with data takes a freed number and freed blocks, and goes away again
				c := api.NFSPROC3_CREATE(nt.CREATE3args{Where: nt.Diropargs3{Dir: root, Name: "between"}})
				if c.Status == nt.NFS3_OK {
					data := bytes.Repeat([]byte{0, 0, 0, 0, 0, 0, 0, 7, 0, 0, 0, 0, 0, 0, 0, 3, 'z', 'z', 'z', 0, 0, 0, 0, 0}, 3*BlockSize/24)
					api.NFSPROC3_WRITE(nt.WRITE3args{File: c.Resok.Obj.Handle, Offset: 0, Count: nt.Count3(len(data)), Stable: nt.FILE_SYNC, Data: data})
					if rapid.Bool().Draw(t, "file_stays_a_round") {
						// removed only after the next MKDIR would have been... keep it simple: remove now or keep for good
						k--
						api.NFSPROC3_RENAME(nt.RENAME3args{From: nt.Diropargs3{Dir: root, Name: "between"}, To: nt.Diropargs3{Dir: root, Name: nt.Filename3(fmt.Sprintf("kept%d", r))}})
						logf("a file with three blocks of entry-like data made and kept (inode %d)", c.Resok.Obj_attributes.Attributes.Fileid)
					} else {
						api.NFSPROC3_REMOVE(nt.REMOVE3args{Object: nt.Diropargs3{Dir: root, Name: "between"}})
						wasFile[uint64(c.Resok.Obj_attributes.Attributes.Fileid)] = true
						logf("a file with three blocks of entry-like data made and removed (inode %d)", c.Resok.Obj_attributes.Attributes.Fileid)
					}
				}
			}
			if k < 3 {
				break
			}
		}
		St.ClassN("directories_on_the_number_of_a_directory_removed_in_this_uptime", ndirdir)
		St.ClassN("directories_on_the_number_of_a_file_removed_in_this_uptime", nfiledir)
		if St.WantSample(ndirdir > 0) {
			St.Sample(map[string]any{"kind": "directories on recycled inode numbers within one server uptime", "history": hist}, ndirdir > 0)
		}
	})
}

// READDIRPLUS held in the middle while another client removes a listed entry and makes a new object elsewhere that
// receives the freed inode number (the inode table is otherwise full, so the number is handed out again at once).
// Every entry the held listing returns must carry the handle, file id and type of the object its name had in this
// directory - never those of the unrelated new object.  Children are numbered above their directory and the other
// client never names the directory in its parent, so known finding KF1 (lock order of READDIRPLUS) is not in play.
// Enumerated: what is made on the freed number x point at which the listing is held (lock/commit points, then
// device accesses on a cold cache).
func TestC13PlusWindow(t *testing.T) {
	inodeFullOnce.Do(buildInodeFullImage)
	shard, nshards := EnvInt("VERIF_SHARD", 0), EnvInt("VERIF_NSHARDS", 1)
	St.Exhaustive(true)
	type wcase struct {
		Make string
		Hook int
		Disk bool
	}
	var cases []wcase
	for _, mk := range []string{"mkdir", "create", "symlink"} {
		for h := 0; h < 10; h++ {
			cases = append(cases, wcase{mk, h, false}, wcase{mk, h, true})
		}
	}
	nrun, npaused, nreused := 0, 0, 0
	for i, wc := range cases {
		if i%nshards != shard {
			continue
		}
		d := NewDiskFrom(inodeFullDisk, inodeFullImg)
		d.SetRecord(false)
		s := StartSrv(d, true, false)
		api := s.API()
		root := s.RootFH()
		var hist []string
		logf := func(format string, a ...any) { hist = append(hist, fmt.Sprintf(format, a...)) }
		fail := func(format string, a ...any) {
			msg := fmt.Sprintf(format, a...)
			St.Violation("C13", msg, map[string]any{"case": fmt.Sprintf("%+v", wc), "history": hist})
			t.Fatalf("C13: %s\n%v", msg, hist)
		}
		notJudged := func() {
			s.Stop()
			St.Class("setup_not_possible_with_this_build_case_not_judged")
		}
		p0 := api.NFSPROC3_LOOKUP(nt.LOOKUP3args{What: nt.Diropargs3{Dir: root, Name: nt.Filename3(inodeFullDirs[0])}})
		p1 := api.NFSPROC3_LOOKUP(nt.LOOKUP3args{What: nt.Diropargs3{Dir: root, Name: nt.Filename3(inodeFullDirs[1])}})
		ok := p0.Status == nt.NFS3_OK && p1.Status == nt.NFS3_OK
		for _, n := range []string{"p5", "p12", "p19", "p26"} {
			ok = ok && api.NFSPROC3_REMOVE(nt.REMOVE3args{Object: nt.Diropargs3{Dir: p0.Resok.Object, Name: nt.Filename3(n)}}).Status == nt.NFS3_OK
		}
		if !ok {
			notJudged()
			continue
		}
		s.Restart() // the allocator starts from the bottom: the directory gets the lowest of the four numbers
		api = s.API()
		md := api.NFSPROC3_MKDIR(nt.MKDIR3args{Where: nt.Diropargs3{Dir: root, Name: "d"}})
		if md.Status != nt.NFS3_OK {
			notJudged()
			continue
		}
		dh := md.Resok.Obj.Handle
		did := uint64(md.Resok.Obj_attributes.Attributes.Fileid)
		type ent struct {
			id uint64
			fh []byte
		}
		have := map[string]ent{}
		for _, n := range []string{"a", "b", "c"} {
			c := api.NFSPROC3_CREATE(nt.CREATE3args{Where: nt.Diropargs3{Dir: dh, Name: nt.Filename3(n)}})
			ok = ok && c.Status == nt.NFS3_OK && uint64(c.Resok.Obj_attributes.Attributes.Fileid) > did
			have[n] = ent{uint64(c.Resok.Obj_attributes.Attributes.Fileid), c.Resok.Obj.Handle.Data}
		}
		if !ok {
			notJudged()
			continue
		}
		s.Restart() // cold cache: the listing has to fetch every inode from the device
		api = s.API()
		logf("inode table full; /d (inode %d) holds a (%d), b (%d), c (%d); server restarted", did, have["a"].id, have["b"].id, have["c"].id)
		reached, othersDone := make(chan struct{}), make(chan struct{})
		var reachedOnce sync.Once
		var gid0 uint64
		var nhook int32
		paused := false
		hold := func() {
			if goid() != atomic.LoadUint64(&gid0) {
				return
			}
			if int(atomic.AddInt32(&nhook, 1))-1 != wc.Hook {
				return
			}
			paused = true
			reachedOnce.Do(func() { close(reached) })
			select {
			case <-othersDone:
			case <-time.After(150 * time.Millisecond):
			}
		}
		mon := s.Mon()
		if wc.Disk {
			d.SetHook(func(kind string, addr uint64) {
				if kind == "r" || kind == "R" {
					hold()
				}
			})
		} else {
			mon.SetYield(func(point string) { hold() })
		}
		var ents []DirEntry
		var st0 nt.Nfsstat3
		var eof bool
		var r1, r2 nt.Nfsstat3
		var xid uint64
		var xfh []byte
		done0 := make(chan struct{})
		o := Guard(30*time.Second, func() {
			go func() {
				defer close(done0)
				defer reachedOnce.Do(func() { close(reached) })
				atomic.StoreUint64(&gid0, goid())
				ents, eof, st0 = onePage(api, dh, pageReq{Plus: true, Count: 65536, Dircount: 65536})
			}()
			<-reached
			r1 = api.NFSPROC3_REMOVE(nt.REMOVE3args{Object: nt.Diropargs3{Dir: dh, Name: "b"}}).Status
			where := nt.Diropargs3{Dir: p1.Resok.Object, Name: "x"}
			switch wc.Make {
			case "mkdir":
				r := api.NFSPROC3_MKDIR(nt.MKDIR3args{Where: where})
				r2, xid, xfh = r.Status, uint64(r.Resok.Obj_attributes.Attributes.Fileid), r.Resok.Obj.Handle.Data
			case "create":
				r := api.NFSPROC3_CREATE(nt.CREATE3args{Where: where})
				r2, xid, xfh = r.Status, uint64(r.Resok.Obj_attributes.Attributes.Fileid), r.Resok.Obj.Handle.Data
				if r2 == nt.NFS3_OK {
					api.NFSPROC3_WRITE(nt.WRITE3args{File: r.Resok.Obj.Handle, Offset: 0, Count: 777, Stable: nt.FILE_SYNC, Data: patternData(5, 777)})
				}
			case "symlink":
				r := api.NFSPROC3_SYMLINK(nt.SYMLINK3args{Where: where, Symlink: nt.Symlinkdata3{Symlink_data: "somewhere/else"}})
				r2, xid, xfh = r.Status, uint64(r.Resok.Obj_attributes.Attributes.Fileid), r.Resok.Obj.Handle.Data
			}
			close(othersDone)
			<-done0
		})
		d.SetHook(nil)
		mon.SetYield(nil)
		logf("client 0: READDIRPLUS /d, held at its %s #%d: %v -> status %d, %d entries, eof %v", map[bool]string{true: "device read", false: "lock/commit point"}[wc.Disk], wc.Hook, paused, st0, len(ents), eof)
		logf("client 1 meanwhile: REMOVE /d/b: %d; %s /%s/x: %d (inode %d)", r1, strings.ToUpper(wc.Make), inodeFullDirs[1], r2, xid)
		if o.Slow {
			s.Stop()
			continue
		}
		if o.Hung || o.Panic != "" {
			fail("the requests did not return: %s %s", o.Why, o.Panic)
		}
		nrun++
		if paused {
			npaused++
		}
		if r1 == nt.NFS3_OK && r2 == nt.NFS3_OK && xid == have["b"].id {
			nreused++
			if paused {
				St.NT(Hash("c13pluswindow", i))
			}
		}
		if st0 != nt.NFS3_OK {
			fail("READDIRPLUS /d: status %d", st0)
		}
		seen := map[string]int{}
		for _, e := range ents {
			seen[e.Name]++
			if e.Name == "." || e.Name == ".." {
				continue
			}
			w, known := have[e.Name]
			if !known {
				fail("the listing returned %q, which never was in /d", trunc(e.Name, 30))
			}
			if e.Fileid != w.id || e.FH == nil || !bytes.Equal(e.FH, w.fh) {
				fail("READDIRPLUS entry %q carries file id %d and handle %x; the object of that name in /d has id %d and handle %x (the new object /%s/x has handle %x)", e.Name, e.Fileid, e.FH, w.id, w.fh, inodeFullDirs[1], xfh)
			}
			if e.Attr == nil || e.Attr.Ftype != nt.NF3REG || uint64(e.Attr.Fileid) != w.id || e.Attr.Size != 0 {
				fail("READDIRPLUS entry %q: attributes %+v are not those of the empty regular file %d that had this name in /d", e.Name, e.Attr, w.id)
			}
		}
		for _, n := range []string{".", "..", "a", "c"} {
			if eof && seen[n] != 1 {
				fail("entry %q, in /d throughout, was returned %d times", n, seen[n])
			}
		}
		if seen["b"] > 1 {
			fail("entry b was returned %d times", seen["b"])
		}
		s.Stop()
		St.Eval(1)
	}
	St.ClassN("plus_window_cases_with_the_listing_held", npaused)
	St.ClassN("plus_window_cases_where_the_removed_entrys_number_was_reused", nreused)
	St.Sample(map[string]any{"kind": "READDIRPLUS held while a listed entry is removed and its inode number reused elsewhere", "cases_in_this_shard": nrun, "held": npaused, "reused": nreused}, true)
}
