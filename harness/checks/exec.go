package checks

// Exec drives one server and the reference model side by side and judges
// every reply.  It is the sequential oracle shared by most checks.

import (
	"bytes"
	"encoding/binary"
	"fmt"
	"sync/atomic"
	"time"

	nt "github.com/mit-pdos/go-nfsd/nfstypes"
)

// Ref designates the object an operation is aimed at: a handle and the
// model object it names (nil when the handle names no live object).
type Ref struct {
	N    *MNode
	FH   []byte
	Desc string
	// WellFormedStale: the handle was once valid (or differs from a valid one only
	// in its generation), so the only acceptable error is NFS3ERR_STALE.
	WellFormedStale bool
}

func (r Ref) fh() nt.Nfs_fh3 { return nt.Nfs_fh3{Data: append([]byte{}, r.FH...)} }

func LiveRef(n *MNode) Ref { return Ref{N: n, FH: n.FH, Desc: n.Path()} }

func DeadRef(n *MNode) Ref {
	return Ref{N: nil, FH: n.FH, Desc: fmt.Sprintf("dead(#%d %s)", n.ID, n.Name), WellFormedStale: true}
}

// ForgedRef is a live object's handle with another generation.
func ForgedRef(n *MNode, delta uint64) Ref {
	fh := append([]byte{}, n.FH...)
	if len(fh) == 16 {
		g := binary.LittleEndian.Uint64(fh[8:])
		binary.LittleEndian.PutUint64(fh[8:], g+delta)
	}
	return Ref{N: nil, FH: fh, Desc: fmt.Sprintf("forged-gen(%s,%+d)", n.Path(), int64(delta)), WellFormedStale: true}
}

// SafeForged returns a forged handle unless the forged bytes happen to be a handle that was issued
// (then the dead handle of n itself, or garbage, is used instead).
func (x *Exec) SafeForged(n *MNode, delta uint64) Ref {
	r := ForgedRef(n, delta)
	if _, issued := x.allFH[string(r.FH)]; issued {
		return GarbageRef([]byte{0xde, 0xad})
	}
	return r
}

func GarbageRef(b []byte) Ref {
	return Ref{N: nil, FH: b, Desc: fmt.Sprintf("garbage(%x)", b)}
}

type Exec struct {
	S    *Srv
	M    *Model
	Log  []string
	Prop string
	// StrictStale: a stale handle must be answered with NFS3ERR_STALE exactly (C08).
	StrictStale bool
	Watchdog    time.Duration

	verf      *nt.Writeverf3
	oldVerfs  []nt.Writeverf3
	allFH     map[string]int // every handle ever issued -> object id
	NRestarts int
	NFailed   int
	NOk       int
	Mutations int
	Budget    int64 // upper bound of blocks the history may still consume
	// SlowCommit: the request's own goroutine rests this long at every commit point of its transactions (locks held,
	// nothing handed to the journal yet), so that background goroutines - shrinker, logger, installer - get ahead
	// of it where the server lets them.  A perturbation of the schedule, never a verdict.
	SlowCommit time.Duration
	// LastStable is true when the last successful mutating operation was acknowledged with stable semantics.
	Unflushed    bool
	lastUnstable *MNode
	// EverWritten: per object id, the block indices that ever held written data
	// SpaceMayBind: the disk or the inode table may run out, so the server's status decides
	// whether a feasible request happened; LastOK is the status of the last request.
	SpaceMayBind       bool
	LastOK             bool
	FailedForResources int
	ShortWrites        int
	ServerFaults       int // replies NFS3ERR_SERVERFAULT (e.g. the journal refused the transaction)
	EverWritten        map[int]map[uint64]bool
	HoleFill           map[int]int // per object id, upper bound of blocks allocated by reads of holes
}

// UsedUpper is an upper bound of the data blocks the live objects occupy.
func (x *Exec) UsedUpper() int {
	n := 0
	for _, o := range x.M.Live() {
		switch o.Kind {
		case nt.NF3REG:
			n += len(o.Blocks) + x.HoleFill[o.ID] + 4
		case nt.NF3DIR:
			n += 2 + len(o.Children)/16
		default:
			n += 1 + len(o.Target)/BlockSize
		}
	}
	return n
}

func NewExec(s *Srv, prop string) (*Exec, error) {
	x := &Exec{S: s, Prop: prop, Watchdog: 60 * time.Second, allFH: map[string]int{}, Budget: 1 << 40}
	root := s.RootFH()
	var lim Limits
	var err error
	o := Guard(x.Watchdog, func() {
		fi := s.API().NFSPROC3_FSINFO(nt.FSINFO3args{Fsroot: root})
		pc := s.API().NFSPROC3_PATHCONF(nt.PATHCONF3args{Object: root})
		if fi.Status != nt.NFS3_OK || pc.Status != nt.NFS3_OK {
			err = fmt.Errorf("FSINFO/PATHCONF of the root failed: %d %d", fi.Status, pc.Status)
			return
		}
		lim = Limits{NameMax: uint64(pc.Resok.Name_max), WtMax: uint64(fi.Resok.Wtmax), RtMax: uint64(fi.Resok.Rtmax),
			MaxFileSize: uint64(fi.Resok.Maxfilesize)}
	})
	if o.Bad() || o.Slow {
		return nil, fmt.Errorf("FSINFO/PATHCONF: %v", o)
	}
	if err != nil {
		return nil, err
	}
	x.M = NewModel(root.Data, lim)
	x.allFH[string(root.Data)] = 0
	return x, nil
}

func (x *Exec) logf(format string, a ...any) {
	x.Log = append(x.Log, fmt.Sprintf("%d: ", len(x.Log))+fmt.Sprintf(format, a...))
}

// OracleErr is a mismatch between the server and the reference.
// Kind: "status", "data-exposed" (bytes that were never written there show up),
// "data-lost" (written bytes are gone), "hang", "panic", "other".
type OracleErr struct {
	Kind string
	Msg  string
}

func (e *OracleErr) Error() string { return e.Msg }

func errKind(err error) string {
	if oe, ok := err.(*OracleErr); ok {
		return oe.Kind
	}
	return "other"
}

func (x *Exec) errk(kind, format string, a ...any) error {
	last := ""
	if len(x.Log) > 0 {
		last = x.Log[len(x.Log)-1]
	}
	return &OracleErr{Kind: kind, Msg: fmt.Sprintf("%s\n  at op: %s", fmt.Sprintf(format, a...), last)}
}

func (x *Exec) errf(format string, a ...any) error { return x.errk("other", format, a...) }

func dataKind(got, want byte) string {
	if got != 0 && got != want {
		return "data-exposed"
	}
	return "data-lost"
}

// call runs one RPC under the watchdog.
func (x *Exec) call(f func()) error {
	var txn func() int64
	if x.S != nil && x.S.N != nil {
		mon := x.S.Mon()
		txn = func() int64 { return atomic.LoadInt64(&mon.Begun) }
	}
	if x.SlowCommit > 0 && x.S != nil && x.S.N != nil {
		mon := x.S.Mon()
		var gid atomic.Uint64
		d := x.SlowCommit
		mon.SetYield(func(point string) {
			if point == "commit" && goid() == gid.Load() {
				time.Sleep(d)
			}
		})
		defer mon.SetYield(nil)
		g := f
		f = func() { gid.Store(goid()); g() }
	}
	o := GuardTxn(x.Watchdog, f, txn)
	if o.Slow {
		St.Class("call_too_slow_for_the_harness_not_judged")
		return x.errk("slow", "%v", o)
	}
	if o.Hung {
		return x.errk("hang", "%v", o)
	}
	if o.Bad() {
		return x.errk("panic", "%v", o)
	}
	return nil
}

// status compares success/failure with the model's verdict.
func (x *Exec) status(st nt.Nfsstat3, wantOK bool, refs ...Ref) error {
	x.M.NOps++
	if st == nt.NFS3_OK {
		x.NOk++
	} else {
		x.NFailed++
	}
	x.Log[len(x.Log)-1] += fmt.Sprintf(" -> %d", st)
	x.LastOK = st == nt.NFS3_OK
	if st == nt.NFS3ERR_SERVERFAULT {
		x.ServerFaults++
	}
	if st != nt.NFS3_OK && wantOK && x.SpaceMayBind {
		// On a (nearly) full disk or inode table a feasible request may fail for lack of
		// resources; then it must leave no trace (the caller checks that).
		x.FailedForResources++
		return nil
	}
	if (st == nt.NFS3_OK) != wantOK {
		if wantOK {
			return x.errk("status", "the server refused (status %d) a request the reference performs", st)
		}
		return x.errk("status", "the server performed a request the reference refuses")
	}
	if !wantOK && x.StrictStale {
		for _, r := range refs {
			if r.N == nil && r.WellFormedStale {
				if st != nt.NFS3ERR_STALE {
					return x.errf("stale handle %s answered with status %d, want NFS3ERR_STALE (70)", r.Desc, st)
				}
				break
			}
		}
	}
	return nil
}

func (x *Exec) checkAttr(a nt.Fattr3, n *MNode, what string) error {
	if a.Ftype != n.Kind {
		return x.errf("%s: type %d, reference %d (%s)", what, a.Ftype, n.Kind, n.Path())
	}
	if n.Fileid != 0 && uint64(a.Fileid) != n.Fileid {
		return x.errf("%s: file id %d, but %s was created with file id %d", what, a.Fileid, n.Path(), n.Fileid)
	}
	if n.Kind != nt.NF3DIR && uint64(a.Size) != n.Size {
		return x.errf("%s: size %d, reference %d (%s)", what, a.Size, n.Size, n.Path())
	}
	return nil
}

func (x *Exec) checkHandle(fh nt.Nfs_fh3, n *MNode, what string) error {
	if !bytes.Equal(fh.Data, n.FH) {
		return x.errf("%s: handle %x, but %s has handle %x", what, fh.Data, n.Path(), n.FH)
	}
	return nil
}

// learn records the handle and file id of a newly created object and checks the handle is fresh.
func (x *Exec) learn(n *MNode, h nt.Post_op_fh3, a nt.Post_op_attr, what string) error {
	if !h.Handle_follows {
		return x.errf("%s: no handle returned for the new object", what)
	}
	if id, seen := x.allFH[string(h.Handle.Data)]; seen {
		return x.errf("%s: new object got handle %x, which was already issued for object #%d (%s)", what, h.Handle.Data, id, x.M.Objs[id].Name)
	}
	n.FH = append([]byte{}, h.Handle.Data...)
	x.allFH[string(n.FH)] = n.ID
	if a.Attributes_follow {
		n.Fileid = uint64(a.Attributes.Fileid)
		return x.checkAttr(a.Attributes, n, what)
	}
	return nil
}

func (x *Exec) Getattr(r Ref) error {
	x.logf("GETATTR %s", r.Desc)
	var res nt.GETATTR3res
	if err := x.call(func() { res = x.S.API().NFSPROC3_GETATTR(nt.GETATTR3args{Object: r.fh()}) }); err != nil {
		return err
	}
	if err := x.status(res.Status, r.N != nil, r); err != nil {
		return err
	}
	if r.N != nil && x.LastOK {
		return x.checkAttr(res.Resok.Obj_attributes, r.N, "GETATTR")
	}
	return nil
}

// scribble overwrites a request buffer after the reply has arrived, as a transport that pools its buffers does.
func scribble(b []byte) {
	for i := range b {
		b[i] ^= 0xa5
	}
}

// SetattrOne sets exactly one of the times (the reference does not model them).  It changes the object, so like
// every successful modifying request it is a stable acknowledgement: everything acknowledged before it is durable
// afterwards.  (Mode and owner are not used: this server accepts and ignores them, and a request that changes
// nothing need not flush anything.)
func (x *Exec) SetattrOne(r Ref, which int) error {
	var a nt.Sattr3
	switch which % 3 {
	case 0:
		a.Atime = nt.Set_atime{Set_it: nt.SET_TO_CLIENT_TIME, Atime: nt.Nfstime3{Seconds: 5000000 + nt.Uint32(len(x.Log)), Nseconds: 3}}
	case 1:
		a.Mtime = nt.Set_mtime{Set_it: nt.SET_TO_CLIENT_TIME, Mtime: nt.Nfstime3{Seconds: 6000000 + nt.Uint32(len(x.Log)), Nseconds: 4}}
	default:
		a.Atime = nt.Set_atime{Set_it: nt.SET_TO_CLIENT_TIME, Atime: nt.Nfstime3{Seconds: 7000000 + nt.Uint32(len(x.Log)), Nseconds: 5}}
		a.Mtime = nt.Set_mtime{Set_it: nt.SET_TO_CLIENT_TIME, Mtime: nt.Nfstime3{Seconds: 8000000 + nt.Uint32(len(x.Log)), Nseconds: 6}}
	}
	x.logf("SETATTR %s (%s only)", r.Desc, []string{"atime", "mtime", "atime and mtime"}[which%3])
	var res nt.SETATTR3res
	if err := x.call(func() { res = x.S.API().NFSPROC3_SETATTR(nt.SETATTR3args{Object: r.fh(), New_attributes: a}) }); err != nil {
		return err
	}
	if err := x.status(res.Status, r.N != nil, r); err != nil {
		return err
	}
	if r.N != nil && x.LastOK {
		x.Unflushed = false
	}
	return nil
}

// Setattr: size nil = don't set. touch sets mode/uid/gid/times as well.
func (x *Exec) Setattr(r Ref, size *uint64, touch bool) error {
	var a nt.Sattr3
	if size != nil {
		a.Size = nt.Set_size3{Set_it: true, Size: nt.Size3(*size)}
		x.logf("SETATTR %s size=%d", r.Desc, *size)
	} else {
		x.logf("SETATTR %s (no size)", r.Desc)
	}
	if touch {
		// which attributes: a function of the history so far (every combination a client can send comes up)
		switch v := len(x.Log) % 7; v {
		case 0:
			a.Mode = nt.Set_mode3{Set_it: true, Mode: 0644}
			a.Uid = nt.Set_uid3{Set_it: true, Uid: 7}
			a.Gid = nt.Set_gid3{Set_it: true, Gid: 7}
			a.Atime = nt.Set_atime{Set_it: nt.SET_TO_CLIENT_TIME, Atime: nt.Nfstime3{Seconds: 1000, Nseconds: 5}}
			a.Mtime = nt.Set_mtime{Set_it: nt.SET_TO_SERVER_TIME}
		case 1:
			a.Mtime = nt.Set_mtime{Set_it: nt.SET_TO_CLIENT_TIME, Mtime: nt.Nfstime3{Seconds: 1000000 + nt.Uint32(len(x.Log)), Nseconds: 7}}
		case 2:
			a.Atime = nt.Set_atime{Set_it: nt.SET_TO_CLIENT_TIME, Atime: nt.Nfstime3{Seconds: 2000000 + nt.Uint32(len(x.Log)), Nseconds: 9}}
		case 3:
			a.Mode = nt.Set_mode3{Set_it: true, Mode: nt.Mode3(0600 + len(x.Log)%64)}
		case 4:
			a.Uid = nt.Set_uid3{Set_it: true, Uid: nt.Uid3(100 + len(x.Log))}
			a.Gid = nt.Set_gid3{Set_it: true, Gid: nt.Gid3(200 + len(x.Log))}
		case 5:
			a.Mtime = nt.Set_mtime{Set_it: nt.SET_TO_SERVER_TIME}
		default:
			a.Atime = nt.Set_atime{Set_it: nt.SET_TO_CLIENT_TIME, Atime: nt.Nfstime3{Seconds: 3000, Nseconds: 1}}
			a.Mtime = nt.Set_mtime{Set_it: nt.SET_TO_CLIENT_TIME, Mtime: nt.Nfstime3{Seconds: 4000 + nt.Uint32(len(x.Log)), Nseconds: 2}}
		}
	}
	want := r.N != nil
	if want && size != nil && (r.N.Kind != nt.NF3REG || *size > x.M.Lim.MaxFileSize) {
		want = false
	}
	var res nt.SETATTR3res
	var before, after nt.GETATTR3res
	refusedLive := !want && r.N != nil
	if err := x.call(func() {
		if refusedLive {
			before = x.S.API().NFSPROC3_GETATTR(nt.GETATTR3args{Object: r.fh()})
		}
		res = x.S.API().NFSPROC3_SETATTR(nt.SETATTR3args{Object: r.fh(), New_attributes: a})
		if refusedLive {
			after = x.S.API().NFSPROC3_GETATTR(nt.GETATTR3args{Object: r.fh()})
		}
	}); err != nil {
		return err
	}
	if err := x.status(res.Status, want, r); err != nil {
		return err
	}
	if refusedLive && res.Status != nt.NFS3_OK && before.Status == nt.NFS3_OK && (after.Status != nt.NFS3_OK || before.Resok.Obj_attributes != after.Resok.Obj_attributes) {
		// a refused request changes nothing, whatever other attributes it carried along with the offending one
		return x.errf("SETATTR was refused (status %d) but changed the object's attributes: before %+v, after (status %d) %+v",
			res.Status, before.Resok.Obj_attributes, after.Status, after.Resok.Obj_attributes)
	}
	if want && x.LastOK {
		// Only a request that changes something is a stable acknowledgement that makes what came before durable: a
		// size equal to the current one, or mode/owner alone (accepted and ignored by this server), change nothing,
		// and a request that changes nothing need not flush anything.
		changes := (size != nil && *size != r.N.Size) || a.Atime.Set_it != nt.DONT_CHANGE || a.Mtime.Set_it != nt.DONT_CHANGE
		if size != nil {
			r.N.Truncate(*size)
			x.Mutations++
		}
		if changes {
			x.Unflushed = false
		}
		if res.Resok.Obj_wcc.After.Attributes_follow {
			return x.checkAttr(res.Resok.Obj_wcc.After.Attributes, r.N, "SETATTR post-op attributes")
		}
	}
	return nil
}

func (x *Exec) Lookup(dir Ref, name string) error {
	x.logf("LOOKUP %s %q", dir.Desc, trunc(name, 20))
	var res nt.LOOKUP3res
	if err := x.call(func() {
		res = x.S.API().NFSPROC3_LOOKUP(nt.LOOKUP3args{What: nt.Diropargs3{Dir: dir.fh(), Name: nt.Filename3(name)}})
	}); err != nil {
		return err
	}
	n := x.M.Lookup(dir.N, name)
	if err := x.status(res.Status, n != nil, dir); err != nil {
		return err
	}
	if n != nil && x.LastOK {
		if err := x.checkHandle(res.Resok.Object, n, "LOOKUP"); err != nil {
			return err
		}
		if res.Resok.Obj_attributes.Attributes_follow {
			return x.checkAttr(res.Resok.Obj_attributes.Attributes, n, "LOOKUP attributes")
		}
	}
	return nil
}

func (x *Exec) Access(r Ref) error {
	x.logf("ACCESS %s", r.Desc)
	var res nt.ACCESS3res
	if err := x.call(func() { res = x.S.API().NFSPROC3_ACCESS(nt.ACCESS3args{Object: r.fh(), Access: 0x3f}) }); err != nil {
		return err
	}
	return x.status(res.Status, r.N != nil, r)
}

func (x *Exec) Readlink(r Ref) error {
	x.logf("READLINK %s", r.Desc)
	var res nt.READLINK3res
	if err := x.call(func() { res = x.S.API().NFSPROC3_READLINK(nt.READLINK3args{Symlink: r.fh()}) }); err != nil {
		return err
	}
	want := r.N != nil && r.N.Kind == nt.NF3LNK
	if err := x.status(res.Status, want, r); err != nil {
		return err
	}
	if want && x.LastOK && string(res.Resok.Data) != r.N.Target {
		return x.errf("READLINK returned %q, the link was created with %q", trunc(string(res.Resok.Data), 40), trunc(r.N.Target, 40))
	}
	return nil
}

func (x *Exec) Read(r Ref, off uint64, cnt uint32) error {
	x.logf("READ %s off=%d cnt=%d", r.Desc, off, cnt)
	var res nt.READ3res
	if err := x.call(func() {
		res = x.S.API().NFSPROC3_READ(nt.READ3args{File: r.fh(), Offset: nt.Offset3(off), Count: nt.Count3(cnt)})
	}); err != nil {
		return err
	}
	want := r.N != nil && r.N.Kind == nt.NF3REG
	if err := x.status(res.Status, want, r); err != nil {
		return err
	}
	if !want || !x.LastOK {
		return nil
	}
	var avail uint64 // bytes of the file in the requested range
	if off < r.N.Size {
		avail = r.N.Size - off
		if avail > uint64(cnt) {
			avail = uint64(cnt)
		}
	}
	got := res.Resok.Data
	if uint64(res.Resok.Count) != uint64(len(got)) {
		return x.errf("READ: count field %d but %d data bytes", res.Resok.Count, len(got))
	}
	// a server may return fewer bytes than asked for, but at least min(cnt, rtmax, available)
	min := avail
	if min > x.M.Lim.RtMax {
		min = x.M.Lim.RtMax
	}
	if x.SpaceMayBind && uint64(len(got)) < min {
		min = uint64(len(got)) // a hole that cannot be filled ends the read early
	}
	if uint64(len(got)) < min || uint64(len(got)) > avail {
		return x.errf("READ returned %d bytes; the file (size %d) has %d bytes in the requested range (at least %d must be returned)",
			len(got), r.N.Size, avail, min)
	}
	full := r.N.ReadAt(off, uint64(len(got)))
	if d := firstDiff(got, full); d >= 0 {
		return x.errk(dataKind(got[d], full[d]), "READ data differs from the reference at file offset %d: got %#x want %#x (block %d; a zero reference byte means never written)",
			off+uint64(d), got[d], full[d], (off+uint64(d))/BlockSize)
	}
	if off >= r.N.Size && !res.Resok.Eof {
		return x.errf("READ at offset %d >= size %d did not report eof", off, r.N.Size)
	}
	if res.Resok.Eof && off+uint64(len(got)) < r.N.Size {
		return x.errf("READ reported eof at offset %d but the file has %d bytes", off+uint64(len(got)), r.N.Size)
	}
	x.Budget -= int64(cnt/BlockSize) + 4 // reads of holes allocate
	if x.HoleFill == nil {
		x.HoleFill = map[int]int{}
	}
	x.HoleFill[r.N.ID] += len(got)/BlockSize + 2
	return nil
}

// Write sends data with count field cntField (normally len(data)).
func (x *Exec) Write(r Ref, off uint64, data []byte, cntField uint32, stable nt.Stable_how) error {
	x.logf("WRITE %s off=%d cnt=%d len=%d stable=%d tag=%x", r.Desc, off, cntField, len(data), stable, tagOf(data))
	var res nt.WRITE3res
	arg := nt.WRITE3args{File: r.fh(), Offset: nt.Offset3(off), Count: nt.Count3(cntField), Stable: stable, Data: append([]byte{}, data...)}
	cnt := uint64(cntField)
	want := r.N != nil && r.N.Kind == nt.NF3REG && cnt <= x.M.Lim.WtMax && cnt <= uint64(len(data)) &&
		off+cnt >= off && off+cnt <= x.M.Lim.MaxFileSize
	// a WRITE that must be refused, or that writes nothing, leaves every attribute of the object as it was
	var before, after nt.GETATTR3res
	live := r.N != nil
	if err := x.call(func() {
		if live {
			before = x.S.API().NFSPROC3_GETATTR(nt.GETATTR3args{Object: r.fh()})
		}
		res = x.S.API().NFSPROC3_WRITE(arg)
		if live && res.Status != nt.NFS3_OK {
			// refused by the rules or for lack of space: either way nothing may have changed
			after = x.S.API().NFSPROC3_GETATTR(nt.GETATTR3args{Object: r.fh()})
		}
	}); err != nil {
		return err
	}
	scribble(arg.Data) // the request buffer belongs to the transport again (it is reused for the next message)
	if live && res.Status != nt.NFS3_OK && before.Status == nt.NFS3_OK && (after.Status != nt.NFS3_OK || before.Resok.Obj_attributes != after.Resok.Obj_attributes) {
		return x.errf("WRITE was refused (status %d) but changed the object's attributes: before %+v, after (status %d) %+v",
			res.Status, before.Resok.Obj_attributes, after.Status, after.Resok.Obj_attributes)
	}
	if err := x.status(res.Status, want, r); err != nil {
		return err
	}
	if !want || !x.LastOK {
		return nil
	}
	if uint64(res.Resok.Count) != cnt {
		if !x.SpaceMayBind || uint64(res.Resok.Count) > cnt {
			return x.errf("WRITE accepted %d of %d bytes although space is not short", res.Resok.Count, cnt)
		}
		cnt = uint64(res.Resok.Count) // a short write: that much was written
		x.ShortWrites++
	}
	if cnt > 0 {
		r.N.WriteAt(off, data[:cnt])
		x.Mutations++
		if x.EverWritten == nil {
			x.EverWritten = map[int]map[uint64]bool{}
		}
		ew := x.EverWritten[r.N.ID]
		if ew == nil {
			ew = map[uint64]bool{}
			x.EverWritten[r.N.ID] = ew
		}
		for b := off / BlockSize; b <= (off+cnt-1)/BlockSize; b++ {
			ew[b] = true
		}
	}
	x.Budget -= int64(cnt/BlockSize) + 5
	if res.Resok.Committed < stable {
		return x.errf("WRITE committed level %d is weaker than the requested %d", res.Resok.Committed, stable)
	}
	if !x.S.Unstable && res.Resok.Committed != nt.FILE_SYNC {
		return x.errf("WRITE committed level %d with unstable writes disabled (want FILE_SYNC)", res.Resok.Committed)
	}
	if res.Resok.Committed == nt.UNSTABLE {
		// (also when nothing was written: a server may still have changed, say, the modification time - unstably)
		x.Unflushed = true
		x.lastUnstable = r.N
	} else if cnt > 0 {
		x.Unflushed = false
	}
	if err := x.checkVerf(res.Resok.Verf, "WRITE"); err != nil {
		return err
	}
	if res.Resok.File_wcc.After.Attributes_follow {
		return x.checkAttr(res.Resok.File_wcc.After.Attributes, r.N, "WRITE post-op attributes")
	}
	return nil
}

func tagOf(data []byte) uint32 {
	if len(data) >= 2 {
		return uint32(data[0]) | uint32(data[1])<<8
	}
	return 0
}

func (x *Exec) checkVerf(v nt.Writeverf3, what string) error {
	if x.verf == nil {
		vv := v
		x.verf = &vv
		for _, o := range x.oldVerfs {
			if o == v {
				return x.errf("%s: write verifier %x is the same as that of an earlier server instance", what, v)
			}
		}
		return nil
	}
	if *x.verf != v {
		return x.errf("%s: write verifier changed from %x to %x within one server instance", what, *x.verf, v)
	}
	return nil
}

func (x *Exec) createLike(kind nt.Ftype3, dir Ref, name string, target string, excl bool) error {
	where := nt.Diropargs3{Dir: dir.fh(), Name: nt.Filename3(name)}
	want := x.M.CanCreate(dir.N, name) && !excl
	var st nt.Nfsstat3
	var h nt.Post_op_fh3
	var a nt.Post_op_attr
	var err error
	switch kind {
	case nt.NF3REG:
		mode := nt.UNCHECKED
		if excl {
			mode = nt.EXCLUSIVE
		}
		x.logf("CREATE %s %q mode=%d", dir.Desc, trunc(name, 20), mode)
		var res nt.CREATE3res
		err = x.call(func() { res = x.S.API().NFSPROC3_CREATE(nt.CREATE3args{Where: where, How: nt.Createhow3{Mode: mode}}) })
		st, h, a = res.Status, res.Resok.Obj, res.Resok.Obj_attributes
	case nt.NF3DIR:
		x.logf("MKDIR %s %q", dir.Desc, trunc(name, 20))
		var res nt.MKDIR3res
		err = x.call(func() { res = x.S.API().NFSPROC3_MKDIR(nt.MKDIR3args{Where: where}) })
		st, h, a = res.Status, res.Resok.Obj, res.Resok.Obj_attributes
	case nt.NF3LNK:
		x.logf("SYMLINK %s %q -> %q", dir.Desc, trunc(name, 20), trunc(target, 20))
		var res nt.SYMLINK3res
		err = x.call(func() {
			res = x.S.API().NFSPROC3_SYMLINK(nt.SYMLINK3args{Where: where, Symlink: nt.Symlinkdata3{Symlink_data: nt.Nfspath3(target)}})
		})
		st, h, a = res.Status, res.Resok.Obj, res.Resok.Obj_attributes
	}
	if err != nil {
		return err
	}
	if ex := x.existingFile(dir, name); ex != nil && kind == nt.NF3REG && !excl && st == nt.NFS3_OK {
		// an UNCHECKED CREATE of an existing file may succeed with that file (RFC 1813); nothing changes then
		x.LastOK = true
		x.Log[len(x.Log)-1] += " -> OK on an existing file"
		if !h.Handle_follows || !bytes.Equal(h.Handle.Data, ex.FH) {
			return x.errf("UNCHECKED CREATE of the existing file %s succeeded with another object's handle", ex.Path())
		}
		return nil
	}
	if excl {
		// an unsupported mode is refused as such, whatever the handle
		if err := x.status(st, false); err != nil {
			return err
		}
	} else if err := x.status(st, want, dir); err != nil {
		return err
	}
	if excl && st != nt.NFS3ERR_NOTSUPP {
		return x.errf("exclusive CREATE answered %d, want NFS3ERR_NOTSUPP", st)
	}
	if !want || !x.LastOK {
		return nil
	}
	n := x.M.Create(dir.N, name, kind, target)
	x.Mutations++
	x.Unflushed = false
	x.Budget -= 3 + int64(len(target)/BlockSize)
	return x.learn(n, h, a, "create")
}

func (x *Exec) Create(dir Ref, name string) error {
	return x.createLike(nt.NF3REG, dir, name, "", false)
}

// existingFile: the live regular file that name names in dir, if any.
func (x *Exec) existingFile(dir Ref, name string) *MNode {
	if dir.N == nil || !dir.N.IsDir() {
		return nil
	}
	if n := dir.N.Children[name]; n != nil && n.Kind == nt.NF3REG {
		return n
	}
	return nil
}

// CreateWithSize: a CREATE that carries an initial size among its attributes.  A server may ignore initial
// attributes (this one does) or honour them; either way the new file has size 0 or the size asked for, a size
// beyond the announced maximum never comes into being (the request is refused, or the attribute ignored), and what
// is beyond written data reads as zeros.
func (x *Exec) CreateWithSize(dir Ref, name string, size uint64, guarded bool) error {
	mode := nt.UNCHECKED
	if guarded {
		mode = nt.GUARDED
	}
	x.logf("CREATE %s %q mode=%d with initial size %d", dir.Desc, trunc(name, 20), mode, size)
	legal := x.M.CanCreate(dir.N, name)
	var res nt.CREATE3res
	if err := x.call(func() {
		res = x.S.API().NFSPROC3_CREATE(nt.CREATE3args{Where: nt.Diropargs3{Dir: dir.fh(), Name: nt.Filename3(name)},
			How: nt.Createhow3{Mode: mode, Obj_attributes: nt.Sattr3{Size: nt.Set_size3{Set_it: true, Size: nt.Size3(size)}}}})
	}); err != nil {
		return err
	}
	if ex := x.existingFile(dir, name); ex != nil && !guarded && res.Status == nt.NFS3_OK {
		// RFC 1813: an UNCHECKED CREATE of a name that exists may succeed with the existing file (this server
		// refuses; a server that opens the file instead is as right).  Then it is that file, and its size is what it
		// was or - within the limit - what the request asked for; what lies beyond old data reads as zeros.
		x.LastOK = true
		x.Log[len(x.Log)-1] += " -> OK on an existing file"
		if !bytes.Equal(res.Resok.Obj.Handle.Data, ex.FH) {
			return x.errf("UNCHECKED CREATE of the existing file %s succeeded with another object's handle", ex.Path())
		}
		var ga nt.GETATTR3res
		if err := x.call(func() { ga = x.S.API().NFSPROC3_GETATTR(nt.GETATTR3args{Object: nt.Nfs_fh3{Data: ex.FH}}) }); err != nil {
			return err
		}
		got := uint64(ga.Resok.Obj_attributes.Size)
		if ga.Status != nt.NFS3_OK || (got != ex.Size && got != size) || got > x.M.Lim.MaxFileSize {
			return x.errf("UNCHECKED CREATE of the existing file %s (size %d) with size %d succeeded; its size is now %d (status %d)", ex.Path(), ex.Size, size, got, ga.Status)
		}
		if got != ex.Size {
			ex.Truncate(got)
			x.Mutations++
			x.Unflushed = false
		}
		return nil
	}
	if legal && size > x.M.Lim.MaxFileSize && res.Status != nt.NFS3_OK {
		x.LastOK = false
		x.Log[len(x.Log)-1] += fmt.Sprintf(" -> status %d (refused because of the size: fine)", res.Status)
		return nil
	}
	if err := x.status(res.Status, legal, dir); err != nil {
		return err
	}
	if !legal || !x.LastOK {
		return nil
	}
	n := x.M.Create(dir.N, name, nt.NF3REG, "")
	x.Mutations++
	x.Unflushed = false
	x.Budget -= 3
	var ga nt.GETATTR3res
	if err := x.call(func() { ga = x.S.API().NFSPROC3_GETATTR(nt.GETATTR3args{Object: res.Resok.Obj.Handle}) }); err != nil {
		return err
	}
	got := uint64(ga.Resok.Obj_attributes.Size)
	if ga.Status != nt.NFS3_OK || (got != 0 && got != size) || got > x.M.Lim.MaxFileSize {
		return x.errf("CREATE with initial size %d succeeded; GETATTR of the new file: status %d, size %d (the announced maximum file size is %d)", size, ga.Status, got, x.M.Lim.MaxFileSize)
	}
	if got != 0 {
		n.Truncate(got)
	}
	return x.learn(n, res.Resok.Obj, res.Resok.Obj_attributes, "create")
}
func (x *Exec) CreateExcl(dir Ref, name string) error {
	return x.createLike(nt.NF3REG, dir, name, "", true)
}
func (x *Exec) Mkdir(dir Ref, name string) error {
	return x.createLike(nt.NF3DIR, dir, name, "", false)
}
func (x *Exec) Symlink(dir Ref, name, target string) error {
	return x.createLike(nt.NF3LNK, dir, name, target, false)
}

// Unsupported procedures: must answer NFS3ERR_NOTSUPP and change nothing.
func (x *Exec) Unsupported(which int, dir Ref, name string) error {
	var st nt.Nfsstat3
	var err error
	switch which % 3 {
	case 0:
		x.logf("MKNOD %s %q", dir.Desc, name)
		var res nt.MKNOD3res
		err = x.call(func() {
			res = x.S.API().NFSPROC3_MKNOD(nt.MKNOD3args{Where: nt.Diropargs3{Dir: dir.fh(), Name: nt.Filename3(name)},
				What: nt.Mknoddata3{Ftype: nt.NF3FIFO}})
		})
		st = res.Status
	case 1:
		x.logf("LINK %s -> %s %q", dir.Desc, dir.Desc, name)
		var res nt.LINK3res
		err = x.call(func() {
			res = x.S.API().NFSPROC3_LINK(nt.LINK3args{File: dir.fh(), Link: nt.Diropargs3{Dir: dir.fh(), Name: nt.Filename3(name)}})
		})
		st = res.Status
	case 2:
		x.logf("FSSTAT %s", dir.Desc)
		var res nt.FSSTAT3res
		err = x.call(func() { res = x.S.API().NFSPROC3_FSSTAT(nt.FSSTAT3args{Fsroot: dir.fh()}) })
		st = res.Status
	}
	if err != nil {
		return err
	}
	if err := x.status(st, false); err != nil {
		return err
	}
	if st != nt.NFS3ERR_NOTSUPP {
		return x.errf("unsupported procedure answered %d, want NFS3ERR_NOTSUPP", st)
	}
	return nil
}

func (x *Exec) removeLike(rmdir bool, dir Ref, name string) error {
	arg := nt.Diropargs3{Dir: dir.fh(), Name: nt.Filename3(name)}
	var st nt.Nfsstat3
	var err error
	if rmdir {
		x.logf("RMDIR %s %q", dir.Desc, trunc(name, 20))
		var res nt.RMDIR3res
		err = x.call(func() { res = x.S.API().NFSPROC3_RMDIR(nt.RMDIR3args{Object: arg}) })
		st = res.Status
	} else {
		x.logf("REMOVE %s %q", dir.Desc, trunc(name, 20))
		var res nt.REMOVE3res
		err = x.call(func() { res = x.S.API().NFSPROC3_REMOVE(nt.REMOVE3args{Object: arg}) })
		st = res.Status
	}
	if err != nil {
		return err
	}
	want := x.M.CanRemove(dir.N, name, rmdir)
	if want && !rmdir && dir.N.Children[name].IsDir() && st != nt.NFS3_OK {
		// RFC 1813 leaves it to the server whether REMOVE may remove a directory; a refusal changes nothing
		want = false
	}
	refs := []Ref{dir}
	if name == "." || name == ".." {
		refs = nil // refused because of the name, whatever the handle
	}
	if err := x.status(st, want, refs...); err != nil {
		return err
	}
	if want && x.LastOK {
		x.M.Remove(dir.N, name)
		x.Mutations++
		x.Unflushed = false
	}
	return nil
}

func (x *Exec) Remove(dir Ref, name string) error { return x.removeLike(false, dir, name) }
func (x *Exec) Rmdir(dir Ref, name string) error  { return x.removeLike(true, dir, name) }

func (x *Exec) Rename(fd Ref, fn string, td Ref, tn string) error {
	x.logf("RENAME %s %q -> %s %q", fd.Desc, trunc(fn, 20), td.Desc, trunc(tn, 20))
	var res nt.RENAME3res
	if err := x.call(func() {
		res = x.S.API().NFSPROC3_RENAME(nt.RENAME3args{From: nt.Diropargs3{Dir: fd.fh(), Name: nt.Filename3(fn)},
			To: nt.Diropargs3{Dir: td.fh(), Name: nt.Filename3(tn)}})
	}); err != nil {
		return err
	}
	want := x.M.CanRename(fd.N, fn, td.N, tn)
	refs := []Ref{fd, td}
	if fn == "." || fn == ".." || tn == "." || tn == ".." {
		refs = nil // refused because of the name, whatever the handles
	}
	if err := x.status(res.Status, want, refs...); err != nil {
		return err
	}
	if want && x.LastOK {
		if fd.N.Children[fn] != td.N.Children[tn] { // the same-object no-op writes nothing
			x.Unflushed = false
			x.Mutations++
		}
		if src := fd.N.Children[fn]; src != nil && src.IsDir() && fd.N != td.N {
			St.Class("directories_moved_to_another_parent")
		}
		x.M.Rename(fd.N, fn, td.N, tn)
		x.Budget -= 2
	}
	return nil
}

// RenameIsKnownFinding: no rename is excluded any more.  (Moving a directory to another parent, KF2, and into its
// own subtree, KF3, were known findings and have been repaired; the reference refuses the latter.)  Kept so that
// the generators read the same.
func (x *Exec) RenameIsKnownFinding(fd *MNode, fn string, td *MNode) bool {
	return false
}

type DirEntry struct {
	Name   string
	Fileid uint64
	Cookie uint64
	FH     []byte
	Attr   *nt.Fattr3
}

// ListDir pages through a directory (READDIR or READDIRPLUS) and returns all entries.
func (x *Exec) ListDir(api API, fh nt.Nfs_fh3, plus bool, count uint32) ([]DirEntry, nt.Nfsstat3, error) {
	var out []DirEntry
	cookie := uint64(0)
	for page := 0; ; page++ {
		if page > 100000 {
			return out, 0, fmt.Errorf("directory listing did not end after %d pages", page)
		}
		var ents []DirEntry
		var eof bool
		var st nt.Nfsstat3
		if plus {
			res := api.NFSPROC3_READDIRPLUS(nt.READDIRPLUS3args{Dir: fh, Cookie: nt.Cookie3(cookie), Dircount: nt.Count3(count), Maxcount: nt.Count3(count)})
			st = res.Status
			for e := res.Resok.Reply.Entries; e != nil; e = e.Nextentry {
				de := DirEntry{Name: string(e.Name), Fileid: uint64(e.Fileid), Cookie: uint64(e.Cookie)}
				if e.Name_handle.Handle_follows {
					de.FH = e.Name_handle.Handle.Data
				}
				if e.Name_attributes.Attributes_follow {
					a := e.Name_attributes.Attributes
					de.Attr = &a
				}
				ents = append(ents, de)
			}
			eof = res.Resok.Reply.Eof
		} else {
			res := api.NFSPROC3_READDIR(nt.READDIR3args{Dir: fh, Cookie: nt.Cookie3(cookie), Count: nt.Count3(count)})
			st = res.Status
			for e := res.Resok.Reply.Entries; e != nil; e = e.Nextentry {
				ents = append(ents, DirEntry{Name: string(e.Name), Fileid: uint64(e.Fileid), Cookie: uint64(e.Cookie)})
			}
			eof = res.Resok.Reply.Eof
		}
		if st != nt.NFS3_OK {
			return out, st, nil
		}
		out = append(out, ents...)
		if eof {
			return out, st, nil
		}
		if len(ents) == 0 {
			return out, st, fmt.Errorf("directory listing returned no entry and no eof at cookie %d", cookie)
		}
		cookie = ents[len(ents)-1].Cookie
	}
}

// Readdir lists the whole directory and compares it with the model as a set.
func (x *Exec) Readdir(dir Ref, plus bool, count uint32) error {
	if plus {
		x.logf("READDIRPLUS %s count=%d (paged to the end)", dir.Desc, count)
	} else {
		x.logf("READDIR %s count=%d (paged to the end)", dir.Desc, count)
	}
	var ents []DirEntry
	var st nt.Nfsstat3
	var lerr error
	if err := x.call(func() { ents, st, lerr = x.ListDir(x.S.API(), dir.fh(), plus, count) }); err != nil {
		return err
	}
	if lerr != nil {
		return x.errf("%v", lerr)
	}
	want := dir.N != nil && dir.N.IsDir()
	if err := x.status(st, want, dir); err != nil {
		return err
	}
	if !want || !x.LastOK {
		return nil
	}
	return x.compareListing(dir.N, ents, plus)
}

func (x *Exec) compareListing(d *MNode, ents []DirEntry, plus bool) error {
	seen := map[string]bool{}
	for _, e := range ents {
		if seen[e.Name] {
			return x.errf("listing of %s contains %q twice", d.Path(), trunc(e.Name, 20))
		}
		seen[e.Name] = true
		n := x.M.Lookup(d, e.Name)
		if n == nil {
			return x.errf("listing of %s contains %q, which the reference does not have", d.Path(), trunc(e.Name, 20))
		}
		if n.Fileid != 0 && e.Fileid != n.Fileid {
			return x.errf("listing of %s: %q has file id %d, the object's is %d", d.Path(), trunc(e.Name, 20), e.Fileid, n.Fileid)
		}
		if plus {
			if e.FH == nil || !bytes.Equal(e.FH, n.FH) {
				return x.errf("READDIRPLUS of %s: %q carries handle %x, the object's is %x", d.Path(), trunc(e.Name, 20), e.FH, n.FH)
			}
			if e.Attr != nil {
				if err := x.checkAttr(*e.Attr, n, "READDIRPLUS attributes of "+trunc(e.Name, 20)); err != nil {
					return err
				}
			}
		}
	}
	for _, name := range append([]string{".", ".."}, sortedNames(d.Children)...) {
		if !seen[name] {
			return x.errf("listing of %s lacks %q", d.Path(), trunc(name, 20))
		}
	}
	return nil
}

func (x *Exec) Fsinfo(r Ref) error {
	x.logf("FSINFO %s", r.Desc)
	var res nt.FSINFO3res
	if err := x.call(func() { res = x.S.API().NFSPROC3_FSINFO(nt.FSINFO3args{Fsroot: r.fh()}) }); err != nil {
		return err
	}
	if err := x.status(res.Status, r.N != nil, r); err != nil {
		return err
	}
	if r.N != nil && x.LastOK {
		l := x.M.Lim
		if uint64(res.Resok.Wtmax) != l.WtMax || uint64(res.Resok.Maxfilesize) != l.MaxFileSize || uint64(res.Resok.Rtmax) != l.RtMax {
			return x.errf("FSINFO limits changed: %+v vs %+v", res.Resok, l)
		}
	}
	return nil
}

func (x *Exec) Pathconf(r Ref) error {
	x.logf("PATHCONF %s", r.Desc)
	var res nt.PATHCONF3res
	if err := x.call(func() { res = x.S.API().NFSPROC3_PATHCONF(nt.PATHCONF3args{Object: r.fh()}) }); err != nil {
		return err
	}
	if err := x.status(res.Status, r.N != nil, r); err != nil {
		return err
	}
	if r.N != nil && x.LastOK && uint64(res.Resok.Name_max) != x.M.Lim.NameMax {
		return x.errf("PATHCONF name_max changed: %d vs %d", res.Resok.Name_max, x.M.Lim.NameMax)
	}
	return nil
}

func (x *Exec) Commit(r Ref, off uint64, cnt uint32) error {
	x.logf("COMMIT %s off=%d cnt=%d", r.Desc, off, cnt)
	var res nt.COMMIT3res
	if err := x.call(func() {
		res = x.S.API().NFSPROC3_COMMIT(nt.COMMIT3args{File: r.fh(), Offset: nt.Offset3(off), Count: nt.Count3(cnt)})
	}); err != nil {
		return err
	}
	want := r.N != nil && r.N.Kind == nt.NF3REG && off+uint64(cnt) <= r.N.Size
	if err := x.status(res.Status, want, r); err != nil {
		return err
	}
	if want && x.LastOK {
		x.Unflushed = false
		return x.checkVerf(res.Resok.Verf, "COMMIT")
	}
	return nil
}

// Restart shuts the server down cleanly and starts a new one on the same disk.
func (x *Exec) Restart() error {
	if x.Unflushed && x.lastUnstable != nil && x.lastUnstable.Alive {
		// Data written UNSTABLE and not yet committed may legitimately be lost by a
		// restart (that is C07's subject); a correct client commits first.
		if err := x.Commit(LiveRef(x.lastUnstable), 0, 0); err != nil {
			return err
		}
	}
	x.logf("RESTART (clean shutdown, new server on the same disk)")
	if err := x.call(func() { x.S.Restart() }); err != nil {
		return err
	}
	x.AfterRestart()
	return nil
}

// AfterRestart tells the oracle that a new server instance is running.
func (x *Exec) AfterRestart() {
	if x.verf != nil {
		x.oldVerfs = append(x.oldVerfs, *x.verf)
		x.verf = nil
	}
	x.NRestarts++
	x.Unflushed = false
}

// ---- whole-state comparison ----

// CompareTree checks that api serves exactly the model's state m: every
// directory lists exactly the model's names, every name resolves to the
// model's object (handle, type, size), every file has the model's bytes
// (all written blocks, plus holes sampled at their edges), every link its
// target.
func CompareTree(api API, m *Model, checkHandles bool) error {
	return CompareTreeOpt(api, m, checkHandles, false)
}

// CompareTreeOpt: with writtenOnly, only blocks that hold written data are read (on a full
// disk a hole cannot be filled and a read of it legitimately ends early).
func CompareTreeOpt(api API, m *Model, checkHandles bool, writtenOnly bool) error {
	x := &Exec{M: m}
	x.Log = []string{"whole-tree comparison"}
	var walk func(d *MNode, fh nt.Nfs_fh3) error
	walk = func(d *MNode, fh nt.Nfs_fh3) error {
		ents, st, err := x.ListDir(api, fh, false, 8192)
		if err != nil {
			return err
		}
		if st != nt.NFS3_OK {
			return fmt.Errorf("READDIR of %s failed with status %d", d.Path(), st)
		}
		saved := d.FH
		if err := x.compareListingNoHandle(d, ents); err != nil {
			return err
		}
		d.FH = saved
		for _, name := range sortedNames(d.Children) {
			n := d.Children[name]
			res := api.NFSPROC3_LOOKUP(nt.LOOKUP3args{What: nt.Diropargs3{Dir: fh, Name: nt.Filename3(name)}})
			if res.Status != nt.NFS3_OK {
				return fmt.Errorf("LOOKUP of %s failed with status %d", n.Path(), res.Status)
			}
			if checkHandles && n.FH != nil && !bytes.Equal(res.Resok.Object.Data, n.FH) {
				return fmt.Errorf("%s now has handle %x; it was created with %x", n.Path(), res.Resok.Object.Data, n.FH)
			}
			ga := api.NFSPROC3_GETATTR(nt.GETATTR3args{Object: res.Resok.Object})
			if ga.Status != nt.NFS3_OK {
				return fmt.Errorf("GETATTR of %s failed with status %d", n.Path(), ga.Status)
			}
			a := ga.Resok.Obj_attributes
			if a.Ftype != n.Kind {
				return fmt.Errorf("%s has type %d, reference %d", n.Path(), a.Ftype, n.Kind)
			}
			if n.Kind != nt.NF3DIR && uint64(a.Size) != n.Size {
				return fmt.Errorf("%s has size %d, reference %d", n.Path(), a.Size, n.Size)
			}
			if n.Fileid != 0 && checkHandles && uint64(a.Fileid) != n.Fileid {
				return fmt.Errorf("%s has file id %d, it was created with %d", n.Path(), a.Fileid, n.Fileid)
			}
			switch n.Kind {
			case nt.NF3DIR:
				if n.Opaque {
					continue
				}
				if err := walk(n, res.Resok.Object); err != nil {
					return err
				}
			case nt.NF3LNK:
				rl := api.NFSPROC3_READLINK(nt.READLINK3args{Symlink: res.Resok.Object})
				if rl.Status != nt.NFS3_OK || string(rl.Resok.Data) != n.Target {
					return fmt.Errorf("READLINK of %s: status %d, %q; reference %q", n.Path(), rl.Status, trunc(string(rl.Resok.Data), 40), trunc(n.Target, 40))
				}
			case nt.NF3REG:
				if err := compareFile(api, res.Resok.Object, n, writtenOnly); err != nil {
					return err
				}
			}
		}
		return nil
	}
	return walk(m.Root, nt.Nfs_fh3{Data: append([]byte{}, m.Root.FH...)})
}

func (x *Exec) compareListingNoHandle(d *MNode, ents []DirEntry) error {
	seen := map[string]bool{}
	for _, e := range ents {
		if seen[e.Name] {
			return fmt.Errorf("listing of %s contains %q twice", d.Path(), trunc(e.Name, 20))
		}
		seen[e.Name] = true
		if x.M.Lookup(d, e.Name) == nil {
			return fmt.Errorf("listing of %s contains %q, which the reference does not have", d.Path(), trunc(e.Name, 20))
		}
	}
	for _, name := range append([]string{".", ".."}, sortedNames(d.Children)...) {
		if !seen[name] {
			return fmt.Errorf("listing of %s lacks %q", d.Path(), trunc(name, 20))
		}
	}
	return nil
}

// compareFile reads every written block of n and samples the holes.
func compareFile(api API, fh nt.Nfs_fh3, n *MNode, writtenOnly bool) error {
	if n.Size == 0 {
		return nil
	}
	nblk := (n.Size + BlockSize - 1) / BlockSize
	want := map[uint64]bool{}
	if !writtenOnly {
		want[0], want[nblk-1] = true, true
	}
	for b := range n.Blocks {
		want[b] = true
		if writtenOnly {
			continue
		}
		if b > 0 {
			want[b-1] = true
		}
		if b+1 < nblk {
			want[b+1] = true
		}
	}
	if nblk <= 64 && !writtenOnly {
		for b := uint64(0); b < nblk; b++ {
			want[b] = true
		}
	}
	// read runs of consecutive wanted blocks, up to 16 blocks per call
	blocks := make([]uint64, 0, len(want))
	for b := range want {
		if b < nblk {
			blocks = append(blocks, b)
		}
	}
	sortU64(blocks)
	for i := 0; i < len(blocks); {
		j := i
		for j+1 < len(blocks) && blocks[j+1] == blocks[j]+1 && j-i < 15 {
			j++
		}
		off := blocks[i] * BlockSize
		cnt := (blocks[j] - blocks[i] + 1) * BlockSize
		exp := n.ReadAt(off, cnt)
		got, st := readFull(api, fh, off, cnt)
		if st != nt.NFS3_OK {
			return fmt.Errorf("READ of %s at %d failed with status %d", n.Path(), off, st)
		}
		if d := firstDiff(got, exp); d >= 0 {
			var g, w byte
			if d < len(got) {
				g = got[d]
			}
			if d < len(exp) {
				w = exp[d]
			}
			return &OracleErr{Kind: dataKind(g, w), Msg: fmt.Sprintf("%s differs from the reference at offset %d (block %d): got %#x want %#x; read %d bytes, reference has %d",
				n.Path(), off+uint64(d), (off+uint64(d))/BlockSize, g, w, len(got), len(exp))}
		}
		i = j + 1
	}
	return nil
}

// readFull reads cnt bytes at off the way a client does: a server may answer a READ with fewer bytes than asked
// for (its rtmax), so the request is repeated from where the data ended until cnt bytes, the end of the file or
// an empty reply is reached.
func readFull(api API, fh nt.Nfs_fh3, off, cnt uint64) ([]byte, nt.Nfsstat3) {
	var out []byte
	for uint64(len(out)) < cnt {
		r := api.NFSPROC3_READ(nt.READ3args{File: fh, Offset: nt.Offset3(off + uint64(len(out))), Count: nt.Count3(cnt - uint64(len(out)))})
		if r.Status != nt.NFS3_OK {
			return out, r.Status
		}
		if len(r.Resok.Data) == 0 {
			break
		}
		out = append(out, r.Resok.Data...)
		if r.Resok.Eof {
			break
		}
	}
	return out, nt.NFS3_OK
}

func sortU64(a []uint64) {
	for i := 1; i < len(a); i++ {
		for j := i; j > 0 && a[j] < a[j-1]; j-- {
			a[j], a[j-1] = a[j-1], a[j]
		}
	}
}

// CompareAll compares the running server with the model under the watchdog.
func (x *Exec) CompareAll() error {
	x.logf("compare the whole tree with the reference")
	var cerr error
	if err := x.call(func() { cerr = CompareTreeOpt(x.S.API(), x.M, true, x.SpaceMayBind) }); err != nil {
		return err
	}
	if cerr != nil {
		return x.errk(errKind(cerr), "%v", cerr)
	}
	return nil
}

func lookupArgs(dir nt.Nfs_fh3, name string) nt.LOOKUP3args {
	return nt.LOOKUP3args{What: nt.Diropargs3{Dir: dir, Name: nt.Filename3(name)}}
}
