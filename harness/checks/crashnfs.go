package checks

// Crash engine for the NFS server: one live run records the disk trace
// and a timeline of operations (when each started, when it was
// acknowledged, whether everything up to it was durable at that point,
// and the reference state after it); every crash image must then recover
// to the state after a prefix of the timeline that contains every
// operation acknowledged with stable semantics.

import (
	"fmt"
	"strings"
	"time"

	nt "github.com/mit-pdos/go-nfsd/nfstypes"
)

type tlEntry struct {
	Started int    // trace length when the operation was invoked
	Acked   int    // trace length when it returned
	Flushed bool   // true: at return, this and all earlier operations were acknowledged as durable
	State   *Model // reference state after the operation (shared between entries when nothing changed)
	Desc    string
}

type CrashRun struct {
	D        *Disk
	From     int // first crash point: the trace length when the first MakeNfs had returned
	X        *Exec
	TL       []tlEntry
	Unstable bool
	lastMut  int
}

func NewCrashRun(size uint64, unstable bool, prop string) (*CrashRun, error) {
	d := NewDisk(size)
	s := StartSrv(d, unstable, false)
	x, err := NewExec(s, prop)
	if err != nil {
		s.Stop()
		return nil, err
	}
	cr := &CrashRun{D: d, X: x, Unstable: unstable}
	// formatting is made durable by the barrier of the root directory's commit
	cr.From = d.Mark()
	cr.TL = []tlEntry{{Started: 0, Acked: cr.From, Flushed: true, State: x.M.Snapshot(), Desc: "mkfs"}}
	return cr, nil
}

// Step runs one operation of the live run and appends it to the timeline.
func (cr *CrashRun) Step(f func() error) error {
	started := cr.D.Mark()
	nlog := len(cr.X.Log)
	err := f()
	acked := cr.D.Mark()
	st := cr.TL[len(cr.TL)-1].State
	if cr.X.Mutations != cr.lastMut {
		st = cr.X.M.Snapshot()
		cr.lastMut = cr.X.Mutations
	}
	desc := ""
	if len(cr.X.Log) > nlog {
		desc = cr.X.Log[len(cr.X.Log)-1]
	}
	cr.TL = append(cr.TL, tlEntry{Started: started, Acked: acked, Flushed: !cr.X.Unflushed, State: st, Desc: desc})
	return err
}

// RestartNoFlush restarts the server cleanly without committing first.
// Unstable data not yet committed may be lost, but only as a suffix of the
// acknowledgement order; the run continues from whatever prefix survived.
func (cr *CrashRun) RestartNoFlush() error {
	x := cr.X
	started := cr.D.Mark()
	x.logf("RESTART without COMMIT (uncommitted unstable writes may be lost)")
	if err := x.call(func() { x.S.Restart() }); err != nil {
		return err
	}
	lo := 0
	for i, e := range cr.TL {
		if e.Flushed {
			lo = i
		}
	}
	var errs []string
	found := -1
	for j := len(cr.TL) - 1; j >= lo; j-- {
		if j < len(cr.TL)-1 && cr.TL[j].State == cr.TL[j+1].State {
			continue
		}
		var cerr error
		if err := x.call(func() { cerr = CompareTree(x.S.API(), cr.TL[j].State, true) }); err != nil {
			return err
		}
		if cerr == nil {
			found = j
			break
		}
		errs = append(errs, fmt.Sprintf("  not the state after entry %d (%s): %v", j, cr.TL[j].Desc, cerr))
	}
	if found < 0 {
		return x.errf("after a clean restart the file system is not the state after any prefix that contains all stably acknowledged operations (entries %d..%d):\n%s",
			lo, len(cr.TL)-1, strings.Join(errs, "\n"))
	}
	lost := len(cr.TL) - 1 - found
	x.M = cr.TL[found].State.Snapshot()
	x.AfterRestart()
	x.Log[len(x.Log)-1] += fmt.Sprintf(" -> survived up to entry %d (%d timeline entries rolled back)", found, lost)
	cr.lastMut = x.Mutations
	cr.TL = append(cr.TL, tlEntry{Started: started, Acked: cr.D.Mark(), Flushed: true, State: x.M.Snapshot(), Desc: x.Log[len(x.Log)-1]})
	return nil
}

// Window returns the timeline range [lo, hi] a crash after k events may recover to.
func (cr *CrashRun) Window(k int) (lo, hi int) {
	for i, e := range cr.TL {
		if e.Acked <= k && e.Flushed {
			lo = i
		}
		if e.Started < k {
			hi = i
		}
	}
	if hi < lo {
		hi = lo
	}
	return
}

// Unstable ops acknowledged but not yet covered by a stable acknowledgement at crash point k.
func (cr *CrashRun) PendingUnstable(k int) int {
	lo, _ := cr.Window(k)
	n := 0
	for i := lo + 1; i < len(cr.TL); i++ {
		if cr.TL[i].Acked <= k && !cr.TL[i].Flushed && cr.TL[i].State != cr.TL[i-1].State {
			n++
		}
	}
	return n
}

type ImageOpts struct {
	Suffix bool // run further operations on the recovered server
	// SuffixIfTruncatedData: run them also whenever the recovered state has a file that once
	// held data beyond its current size (the case in which stale blocks could resurface)
	SuffixIfTruncatedData bool
	Recrash               bool // crash again at every point of the recovery's own writes
	// SecondEpoch: the recovered server serves a further workload on the (recording) image; that run is cut at up
	// to SecondEpoch of its own points and recovered again, under the same prefix oracle (crash, recover, go on, crash)
	SecondEpoch int
	Fsck                  func(s *Srv) (*FsckReport, error)
	// NoPrefixOracle: only the structural check is applied (C04/C05/C12 attribute failures to their own oracle)
	NoPrefixOracle bool
	// After runs on the recovered server after the other checks (C05: delete everything and count)
	After    func(s *Srv, state *Model) error
	Watchdog time.Duration
}

// CheckImage recovers img with the real server and applies the prefix oracle.
// It returns the index of the matched timeline entry.
func (cr *CrashRun) CheckImage(img *Disk, k int, opts ImageOpts) (int, *FsckReport, error) {
	lo, hi := cr.Window(k)
	if opts.Watchdog == 0 {
		opts.Watchdog = 60 * time.Second
	}
	matched := -1
	var rerr error
	var rep *FsckReport
	o := Guard(opts.Watchdog, func() {
		s := StartSrv(img, cr.Unstable, false)
		defer s.Stop()
		var errs []string
		if opts.NoPrefixOracle {
			// find the matching prefix quietly (needed by After), without judging
			for j := hi; j >= lo; j-- {
				if CompareTree(s.API(), cr.TL[j].State, false) == nil {
					matched = j
					break
				}
			}
			if opts.Fsck != nil {
				rep, rerr = opts.Fsck(s)
			}
			if rerr == nil && opts.After != nil && matched >= 0 {
				rerr = opts.After(s, cr.TL[matched].State)
			}
			return
		}
		for j := hi; j >= lo; j-- {
			if j < hi && cr.TL[j].State == cr.TL[j+1].State {
				continue
			}
			err := CompareTree(s.API(), cr.TL[j].State, true)
			if err == nil {
				matched = j
				break
			}
			errs = append(errs, fmt.Sprintf("  not the state after entry %d (%s): %v", j, cr.TL[j].Desc, err))
		}
		if matched < 0 {
			rerr = fmt.Errorf("the recovered file system is not the state after any allowed prefix (timeline entries %d..%d; %d is the last one acknowledged as durable, %d the last one started):\n%s",
				lo, hi, lo, hi, strings.Join(errs, "\n"))
			return
		}
		if opts.Fsck != nil {
			var err error
			if rep, err = opts.Fsck(s); err != nil {
				rerr = fmt.Errorf("recovered to the state after entry %d, but: %v", matched, err)
				return
			}
		}
		if opts.SuffixIfTruncatedData && !opts.Suffix && cr.hasTruncatedData(cr.TL[matched].State) {
			opts.Suffix = true
			St.Class("images_probed_for_resurrected_data")
		}
		if opts.SecondEpoch > 0 && !opts.Suffix {
			if err := cr.secondEpoch(s, img, matched, opts.SecondEpoch); err != nil {
				rerr = fmt.Errorf("recovered to the state after entry %d, went on serving, and then: %v", matched, err)
				return
			}
		}
		if opts.Suffix {
			if err := serveSuffix(s, cr.TL[matched].State, cr.X.EverWritten); err != nil {
				rerr = fmt.Errorf("recovered to the state after entry %d, but the server does not keep serving correctly: %v", matched, err)
				return
			}
		}
	})
	if o.Slow {
		St.Class("call_too_slow_for_the_harness_not_judged")
		return -1, nil, nil
	}
	if o.Bad() {
		return -1, nil, fmt.Errorf("recovery: %v", o)
	}
	if rerr != nil {
		return matched, rep, rerr
	}
	if opts.Recrash && !opts.Suffix {
		rt := img.Trace()
		for k2 := 0; k2 < len(rt); k2++ {
			for _, v := range Variants(rt, k2, 0, 0) {
				if v.Name != "cut" && v.Name != "drop-all-pending" {
					continue
				}
				img2 := ImageOf(img.size, img.init, rt, k2, v.Drop)
				var err2 error
				o := Guard(opts.Watchdog, func() {
					s := StartSrv(img2, cr.Unstable, false)
					defer s.Stop()
					// The first recovery acknowledged nothing new, and what it showed must not disappear.
					err2 = CompareTree(s.API(), cr.TL[matched].State, true)
				})
				if o.Slow {
					continue
				}
				if o.Bad() {
					return matched, rep, fmt.Errorf("second crash during recovery (after %d of its %d events, %s): %v", k2, len(rt), v.Name, o)
				}
				if err2 != nil {
					return matched, rep, fmt.Errorf("second crash during recovery (after %d of its %d events, %s): the state moved away from entry %d: %v",
						k2, len(rt), v.Name, matched, err2)
				}
				St.Class("recrash_images")
			}
		}
	}
	return matched, rep, nil
}

// secondEpoch: crash, recover, go on, crash again.  The recovered server s runs on img, which records its
// writes; a little workload with operations of every stability level is executed under the sequential oracle
// with a timeline of its own, starting from the matched state (everything a recovered server shows is on the
// device).  Then that second run is cut at up to maxPts points (plain cut, and all un-barriered writes lost) and
// recovered again: the result must be the matched state followed by a prefix of the second workload that
// contains all its stable acknowledgements.
func (cr *CrashRun) secondEpoch(s *Srv, img *Disk, matched int, maxPts int) error {
	x := execOnState(s, cr.TL[matched].State, cr.X.Prop)
	cr2 := &CrashRun{D: img, X: x, Unstable: cr.Unstable}
	cr2.From = img.Mark()
	cr2.TL = []tlEntry{{Started: 0, Acked: cr2.From, Flushed: true, State: x.M.Snapshot(), Desc: "state after the first recovery"}}
	cr2.lastMut = x.Mutations
	var serr error
	step := func(f func() error) bool {
		if serr == nil {
			cr2.Step(func() error { serr = f(); return nil })
		}
		return serr == nil
	}
	root := LiveRef(x.M.Root)
	var old *MNode
	for _, f := range x.M.LiveKind(nt.NF3REG) {
		if old == nil || f.Size > old.Size {
			old = f
		}
	}
	step(func() error { return x.Mkdir(root, "zz2") })
	if serr != nil {
		return serr
	}
	d := LiveRef(x.M.Root.Children["zz2"])
	step(func() error { return x.Create(d, "f") })
	if serr != nil {
		return serr
	}
	f := LiveRef(d.N.Children["f"])
	step(func() error { return x.Write(f, 0, patternData(0xe201, 5000), 5000, nt.UNSTABLE) })
	if old != nil && old.Size < 400*BlockSize {
		step(func() error { return x.Write(LiveRef(old), old.Size, patternData(0xe202, 100), 100, nt.FILE_SYNC) })
	}
	step(func() error { return x.Write(f, 8192, patternData(0xe203, 4096), 4096, nt.UNSTABLE) })
	step(func() error { return x.Commit(f, 0, 0) })
	sz := uint64(1000)
	step(func() error { return x.Setattr(f, &sz, false) })
	step(func() error { return x.Rename(d, "f", root, "zz2moved") })
	if old != nil {
		step(func() error { return x.Remove(LiveRef(old.Parent), old.Name) })
	}
	step(func() error { return x.Write(f, 2*BlockSize+7, patternData(0xe204, 300), 300, nt.DATA_SYNC) })
	step(func() error { return x.Write(f, 0, patternData(0xe205, 10), 10, nt.UNSTABLE) })
	step(func() error { return x.Rmdir(root, "zz2") })
	if serr != nil {
		return fmt.Errorf("second workload: %v", serr)
	}
	s.N.VerifWaitShrinkers()
	trace := img.Trace()
	pts, _ := CrashPoints(trace, cr2.From, maxPts)
	for _, k2 := range pts {
		for _, v := range Variants(trace, k2, 0, 0) {
			if v.Name != "cut" && v.Name != "drop-all-pending" {
				continue
			}
			img2 := ImageOf(img.size, img.init, trace, k2, v.Drop)
			if _, _, err := cr2.CheckImage(img2, k2, ImageOpts{}); err != nil {
				lo, hi := cr2.Window(k2)
				var tl []string
				for i := lo; i <= hi && i < len(cr2.TL); i++ {
					tl = append(tl, fmt.Sprintf("entry %d flushed=%v: %s", i, cr2.TL[i].Flushed, cr2.TL[i].Desc))
				}
				return fmt.Errorf("second crash after %d of the %d events of the second run (%s; window %v): %v", k2-cr2.From, len(trace)-cr2.From, v.Name, tl, err)
			}
			St.Class("second_epoch_crash_images")
		}
	}
	return nil
}

// serveSuffix runs a fixed little workload on a recovered server under the sequential oracle.
func serveSuffix(s *Srv, state *Model, ever map[int]map[uint64]bool) error {
	x := &Exec{S: s, Prop: "C01", Watchdog: 30 * time.Second, allFH: map[string]int{}, Budget: 1 << 40}
	x.M = state.Snapshot()
	for _, n := range x.M.Objs {
		if n.FH != nil {
			x.allFH[string(n.FH)] = n.ID
		}
	}
	// handles of the crashed future may legitimately be re-issued: only handles of the matched prefix are known
	root := LiveRef(x.M.Root)
	name := "zz_after_crash"
	if err := x.Mkdir(root, name); err != nil {
		return err
	}
	d := LiveRef(x.M.Root.Children[name])
	if err := x.Create(d, "f"); err != nil {
		return err
	}
	f := LiveRef(d.N.Children["f"])
	if err := x.Write(f, 100, patternData(0xbeef, 3*BlockSize), 3*BlockSize, nt.FILE_SYNC); err != nil {
		return err
	}
	if err := x.Read(f, 0, 4*BlockSize); err != nil {
		return err
	}
	if err := x.Rename(d, "f", root, "zz_moved"); err != nil {
		return err
	}
	if err := probeResurrected(x, ever); err != nil {
		return err
	}
	for _, old := range x.M.LiveKind(nt.NF3REG) {
		if old.Name != "zz_moved" {
			if err := x.Write(LiveRef(old), old.Size, patternData(0xfeed, 5000), 5000, nt.UNSTABLE); err != nil {
				return err
			}
			if err := x.Remove(LiveRef(old.Parent), old.Name); err != nil {
				return err
			}
			break
		}
	}
	if err := x.Rmdir(root, name); err != nil {
		return err
	}
	return CompareTree(s.API(), x.M, true)
}

func (cr *CrashRun) hasTruncatedData(m *Model) bool {
	for _, f := range m.LiveKind(nt.NF3REG) {
		for b := range cr.X.EverWritten[f.ID] {
			if b*BlockSize >= f.Size {
				return true
			}
		}
	}
	return false
}

// probeResurrected grows files over block positions that held data earlier in the run (and were
// truncated away in this state): they must read as zeros, not as the old data.
func probeResurrected(x *Exec, ever map[int]map[uint64]bool) error {
	probed := 0
	files := x.M.LiveKind(nt.NF3REG)
	for i := len(files) - 1; i >= 0; i-- { // newest first: the directed tail of the crash programs is the last file made
		f := files[i]
		var bs []uint64
		for b := range ever[f.ID] {
			if b*BlockSize >= f.Size {
				bs = append(bs, b)
			}
		}
		if len(bs) == 0 || probed >= 3 {
			continue
		}
		probed++
		sortU64(bs)
		if len(bs) > 6 {
			bs = append(bs[:3], bs[len(bs)-3:]...)
		}
		sz := (bs[len(bs)-1] + 1) * BlockSize
		if f.Size > 0 && probed%2 == 1 {
			// first a small write that starts inside the file and ends beyond its end (the file may still be
			// shrinking from before the crash: the request must finish that job before it extends the file)
			off := f.Size - 1
			if f.Size > 100 {
				off = f.Size - 100
			}
			// ... and it ends in the middle of the block after the one that holds the end of the file
			n := uint32((f.Size+BlockSize-1)/BlockSize*BlockSize + 2000 - off)
			if err := x.Write(LiveRef(f), off, patternData(0xabc0+uint32(probed), uint64(n)), n, nt.FILE_SYNC); err != nil {
				return err
			}
		}
		if err := x.Setattr(LiveRef(f), &sz, false); err != nil {
			return err
		}
		for _, b := range bs {
			if err := x.Read(LiveRef(f), b*BlockSize, BlockSize); err != nil {
				return err
			}
		}
	}
	return nil
}

func execOnState(s *Srv, state *Model, prop string) *Exec {
	x := &Exec{S: s, Prop: prop, Watchdog: 60 * time.Second, allFH: map[string]int{}, Budget: 1 << 40}
	x.M = state.Snapshot()
	for _, n := range x.M.Objs {
		if n.FH != nil {
			x.allFH[string(n.FH)] = n.ID
		}
	}
	return x
}
