package checks

// C11, byte level: coverage-guided fuzzing of [procedure number | XDR argument bytes] against a
// live server that is rebuilt from a fixed, pre-populated image in every iteration.

import (
	"fmt"
	"strings"
	"sync"
	"testing"
	"time"

	nt "github.com/mit-pdos/go-nfsd/nfstypes"
	"github.com/zeldovich/go-rpcgen/xdr"
)

const fuzzImgSize = 4000

var fuzzImgOnce sync.Once
var fuzzImg map[uint64][]byte
var fuzzHandles [][]byte // root, dir, file, sparse file, symlink, removed file

func buildFuzzImage() {
	d := NewDisk(fuzzImgSize)
	d.SetRecord(false)
	s := StartSrv(d, true, false)
	x, err := NewExec(s, "C11")
	if err != nil {
		panic(err)
	}
	must := func(err error) {
		if err != nil {
			panic(fmt.Sprintf("building the fuzz image: %v", err))
		}
	}
	root := LiveRef(x.M.Root)
	must(x.Mkdir(root, "dir"))
	dir := LiveRef(x.M.Root.Children["dir"])
	for i := 0; i < 40; i++ {
		must(x.Create(dir, fmt.Sprintf("f%d", i)))
	}
	must(x.Create(root, "file"))
	file := LiveRef(x.M.Root.Children["file"])
	must(x.Write(file, 0, patternData(1, 20*BlockSize), 20*BlockSize, nt.FILE_SYNC))
	must(x.Create(root, "sparse"))
	sparse := LiveRef(x.M.Root.Children["sparse"])
	sz := x.M.Lim.MaxFileSize
	must(x.Setattr(sparse, &sz, false))
	must(x.Write(sparse, 600*BlockSize, patternData(2, 5000), 5000, nt.FILE_SYNC))
	must(x.Symlink(root, "link", "dir/f1"))
	must(x.Create(root, "gone"))
	gone := x.M.Root.Children["gone"]
	must(x.Remove(root, "gone"))
	fuzzHandles = [][]byte{x.M.Root.FH, dir.N.FH, file.N.FH, sparse.N.FH, x.M.Root.Children["link"].FH, gone.FH}
	s.Stop()
	fuzzImg = d.Snapshot()
}

func xdrBytes(v xdr.Xdrable) []byte {
	w := xdr.MakeWriter(nil)
	v.Xdr(w)
	if w.Error() != nil {
		panic(w.Error())
	}
	return w.WriteBuf()
}

// fuzzSeeds: a valid encoding of every procedure with valid handles, plus hostile constants.
func fuzzSeeds() [][]byte {
	fuzzImgOnce.Do(buildFuzzImage)
	h := func(i int) nt.Nfs_fh3 { return nt.Nfs_fh3{Data: fuzzHandles[i]} }
	dop := func(i int, name string) nt.Diropargs3 { return nt.Diropargs3{Dir: h(i), Name: nt.Filename3(name)} }
	var seeds [][]byte
	add := func(proc uint32, v xdr.Xdrable) { seeds = append(seeds, append([]byte{byte(proc)}, xdrBytes(v)...)) }
	for i := range fuzzHandles {
		add(nt.NFSPROC3_GETATTR, &nt.GETATTR3args{Object: h(i)})
		add(nt.NFSPROC3_ACCESS, &nt.ACCESS3args{Object: h(i), Access: 0x3f})
		add(nt.NFSPROC3_READ, &nt.READ3args{File: h(i), Offset: 0, Count: 8192})
		add(nt.NFSPROC3_READDIR, &nt.READDIR3args{Dir: h(i), Cookie: 0, Count: 512})
		add(nt.NFSPROC3_READDIRPLUS, &nt.READDIRPLUS3args{Dir: h(i), Cookie: 256, Dircount: 512, Maxcount: 4096})
		add(nt.NFSPROC3_COMMIT, &nt.COMMIT3args{File: h(i), Offset: 0, Count: 0})
		add(nt.NFSPROC3_FSINFO, &nt.FSINFO3args{Fsroot: h(i)})
		add(nt.NFSPROC3_PATHCONF, &nt.PATHCONF3args{Object: h(i)})
		add(nt.NFSPROC3_FSSTAT, &nt.FSSTAT3args{Fsroot: h(i)})
		add(nt.NFSPROC3_READLINK, &nt.READLINK3args{Symlink: h(i)})
	}
	add(nt.NFSPROC3_LOOKUP, &nt.LOOKUP3args{What: dop(1, "f3")})
	add(nt.NFSPROC3_LOOKUP, &nt.LOOKUP3args{What: dop(1, "..")})
	add(nt.NFSPROC3_SETATTR, &nt.SETATTR3args{Object: h(2), New_attributes: nt.Sattr3{Size: nt.Set_size3{Set_it: true, Size: 5000}}})
	add(nt.NFSPROC3_SETATTR, &nt.SETATTR3args{Object: h(3), New_attributes: nt.Sattr3{Size: nt.Set_size3{Set_it: true, Size: 1 << 40}}})
	add(nt.NFSPROC3_WRITE, &nt.WRITE3args{File: h(2), Offset: 4000, Count: 200, Stable: nt.UNSTABLE, Data: make([]byte, 200)})
	add(nt.NFSPROC3_WRITE, &nt.WRITE3args{File: h(2), Offset: 1<<64 - 10, Count: 20, Stable: nt.FILE_SYNC, Data: make([]byte, 20)})
	add(nt.NFSPROC3_WRITE, &nt.WRITE3args{File: h(2), Offset: 0, Count: 8192, Stable: nt.FILE_SYNC, Data: make([]byte, 100)})
	add(nt.NFSPROC3_CREATE, &nt.CREATE3args{Where: dop(1, "new")})
	add(nt.NFSPROC3_CREATE, &nt.CREATE3args{Where: dop(1, strings.Repeat("n", 112))})
	add(nt.NFSPROC3_MKDIR, &nt.MKDIR3args{Where: dop(0, "newdir")})
	add(nt.NFSPROC3_SYMLINK, &nt.SYMLINK3args{Where: dop(0, "newlink"), Symlink: nt.Symlinkdata3{Symlink_data: "x/y"}})
	add(nt.NFSPROC3_MKNOD, &nt.MKNOD3args{Where: dop(0, "node"), What: nt.Mknoddata3{Ftype: nt.NF3FIFO}})
	add(nt.NFSPROC3_REMOVE, &nt.REMOVE3args{Object: dop(1, "f5")})
	add(nt.NFSPROC3_REMOVE, &nt.REMOVE3args{Object: dop(1, ".")})
	add(nt.NFSPROC3_RMDIR, &nt.RMDIR3args{Object: dop(0, "dir")})
	add(nt.NFSPROC3_RENAME, &nt.RENAME3args{From: dop(1, "f6"), To: dop(0, "moved")})
	add(nt.NFSPROC3_RENAME, &nt.RENAME3args{From: dop(1, "f7"), To: dop(1, "f8")})
	add(nt.NFSPROC3_RENAME, &nt.RENAME3args{From: dop(1, "f7"), To: dop(1, "..")})
	add(nt.NFSPROC3_LINK, &nt.LINK3args{File: h(2), Link: dop(0, "hard")})
	add(nt.NFSPROC3_READDIR, &nt.READDIR3args{Dir: h(1), Cookie: 77, Count: 1})
	add(nt.NFSPROC3_READ, &nt.READ3args{File: h(3), Offset: 1, Count: ^nt.Count3(0)})
	add(nt.NFSPROC3_NULL, &xdr.Void{})
	return seeds
}

func FuzzC11Args(f *testing.F) {
	for _, s := range fuzzSeeds() {
		f.Add(s)
	}
	n := 0
	f.Fuzz(func(t *testing.T, in []byte) {
		if len(in) == 0 || len(in) > 1<<16 {
			return
		}
		fuzzImgOnce.Do(buildFuzzImage)
		proc := uint32(in[0]) % 22
		args := in[1:]
		if hugeLengthWord(args) {
			// an undecodable message whose length prefix makes the XDR library allocate gigabytes before it
			// notices: outside the property (not well-formed), and fatal for sixteen fuzz workers at once
			St.Class("inputs_with_a_huge_length_word_skipped")
			return
		}
		d := NewDiskFrom(fuzzImgSize, fuzzImg)
		d.SetRecord(false)
		s := StartSrv(d, true, false)
		defer s.Stop()
		regs := nt.NFS_PROGRAM_NFS_V3_regs(s.N)
		var handler func(*xdr.XdrState) (xdr.Xdrable, error)
		for _, r := range regs {
			if r.Proc == proc {
				handler = r.Handler
			}
		}
		var m memProbe
		m.start()
		var decoded bool
		o := Guard(20*time.Second, func() {
			res, err := handler(xdr.MakeReader(args))
			if err == nil {
				decoded = true
				if res != nil {
					w := xdr.MakeWriter(nil)
					res.Xdr(w)
				}
			}
		})
		mb := m.allocatedMB()
		if o.Slow {
			return
		}
		n++
		St.Eval(1)
		if decoded {
			St.NT(Hash(in))
			St.Class(fmt.Sprintf("proc_%d_reached_handler", proc))
		} else {
			St.Class("undecodable_arguments")
		}
		if n%500 == 0 {
			St.Flush()
		}
		if o.Bad() {
			St.Violation("C11", fmt.Sprintf("procedure %d with %d argument bytes: %v", proc, len(args), o), nil)
			t.Fatalf("C11: procedure %d, args %x: %v", proc, trimBytes(args, 200), o)
		}
		if mb > c11MemLimitMB {
			St.Violation("C11", fmt.Sprintf("procedure %d with %d argument bytes made the server allocate %.0f MB", proc, len(args), mb), nil)
			t.Fatalf("C11: procedure %d, args %x: the request made the server allocate %.0f MB", proc, trimBytes(args, 200), mb)
		}
		// keeps serving: the root still answers and the disk is still a well-formed file system
		var ferr error
		o = Guard(20*time.Second, func() {
			if r := s.N.NFSPROC3_GETATTR(nt.GETATTR3args{Object: nt.Nfs_fh3{Data: fuzzHandles[0]}}); r.Status != nt.NFS3_OK {
				ferr = fmt.Errorf("GETATTR of the root answers %d afterwards", r.Status)
				return
			}
			s.Quiesce()
			ferr = Fsck(s.N.VerifFsState(), FsckOpts{}).Err()
		})
		if o.Slow {
			return
		}
		if o.Bad() || ferr != nil {
			St.Violation("C11", fmt.Sprintf("after procedure %d with %d argument bytes: %v %v", proc, len(args), o, ferr), nil)
			t.Fatalf("C11: after procedure %d, args %x: %v %v", proc, trimBytes(args, 200), o, ferr)
		}
	})
	St.Flush()
}
