package checks

import (
	"fmt"
	"os"
	"testing"

	"pgregory.net/rapid"
)

func TestMain(m *testing.M) {
	installObserver()
	code := m.Run()
	St.Flush()
	os.Exit(code)
}

// failf records a violation for the driver and fails the rapid case.
func failf(t *rapid.T, prop string, detail any, format string, args ...any) {
	msg := fmt.Sprintf(format, args...)
	St.Violation(prop, msg, detail)
	t.Fatalf("%s: %s", prop, msg)
}
