package checks

// C16 - wire format and dispatch conform to RFC 1813.

import (
	"bytes"
	"encoding/binary"
	"fmt"
	"net"
	"reflect"
	"strings"
	"sync"
	"testing"

	nt "github.com/mit-pdos/go-nfsd/nfstypes"
	"github.com/zeldovich/go-rpcgen/rfc1057"
	r13 "github.com/zeldovich/go-rpcgen/rfc1813"
	"github.com/zeldovich/go-rpcgen/xdr"
	"pgregory.net/rapid"
)

type typePair struct {
	name string
	mk   func() (xdr.Xdrable, xdr.Xdrable) // the repository's type and the one generated from the RFC's .x file
}

func tp[A, B any, PA interface {
	*A
	xdr.Xdrable
}, PB interface {
	*B
	xdr.Xdrable
}](name string) typePair {
	return typePair{name, func() (xdr.Xdrable, xdr.Xdrable) { return PA(new(A)), PB(new(B)) }}
}

var wireTypes = []typePair{
	tp[nt.GETATTR3args, r13.GETATTR3args]("GETATTR3args"), tp[nt.GETATTR3res, r13.GETATTR3res]("GETATTR3res"),
	tp[nt.SETATTR3args, r13.SETATTR3args]("SETATTR3args"), tp[nt.SETATTR3res, r13.SETATTR3res]("SETATTR3res"),
	tp[nt.LOOKUP3args, r13.LOOKUP3args]("LOOKUP3args"), tp[nt.LOOKUP3res, r13.LOOKUP3res]("LOOKUP3res"),
	tp[nt.ACCESS3args, r13.ACCESS3args]("ACCESS3args"), tp[nt.ACCESS3res, r13.ACCESS3res]("ACCESS3res"),
	tp[nt.READLINK3args, r13.READLINK3args]("READLINK3args"), tp[nt.READLINK3res, r13.READLINK3res]("READLINK3res"),
	tp[nt.READ3args, r13.READ3args]("READ3args"), tp[nt.READ3res, r13.READ3res]("READ3res"),
	tp[nt.WRITE3args, r13.WRITE3args]("WRITE3args"), tp[nt.WRITE3res, r13.WRITE3res]("WRITE3res"),
	tp[nt.CREATE3args, r13.CREATE3args]("CREATE3args"), tp[nt.CREATE3res, r13.CREATE3res]("CREATE3res"),
	tp[nt.MKDIR3args, r13.MKDIR3args]("MKDIR3args"), tp[nt.MKDIR3res, r13.MKDIR3res]("MKDIR3res"),
	tp[nt.SYMLINK3args, r13.SYMLINK3args]("SYMLINK3args"), tp[nt.SYMLINK3res, r13.SYMLINK3res]("SYMLINK3res"),
	tp[nt.MKNOD3args, r13.MKNOD3args]("MKNOD3args"), tp[nt.MKNOD3res, r13.MKNOD3res]("MKNOD3res"),
	tp[nt.REMOVE3args, r13.REMOVE3args]("REMOVE3args"), tp[nt.REMOVE3res, r13.REMOVE3res]("REMOVE3res"),
	tp[nt.RMDIR3args, r13.RMDIR3args]("RMDIR3args"), tp[nt.RMDIR3res, r13.RMDIR3res]("RMDIR3res"),
	tp[nt.RENAME3args, r13.RENAME3args]("RENAME3args"), tp[nt.RENAME3res, r13.RENAME3res]("RENAME3res"),
	tp[nt.LINK3args, r13.LINK3args]("LINK3args"), tp[nt.LINK3res, r13.LINK3res]("LINK3res"),
	tp[nt.READDIR3args, r13.READDIR3args]("READDIR3args"), tp[nt.READDIR3res, r13.READDIR3res]("READDIR3res"),
	tp[nt.READDIRPLUS3args, r13.READDIRPLUS3args]("READDIRPLUS3args"), tp[nt.READDIRPLUS3res, r13.READDIRPLUS3res]("READDIRPLUS3res"),
	tp[nt.FSSTAT3args, r13.FSSTAT3args]("FSSTAT3args"), tp[nt.FSSTAT3res, r13.FSSTAT3res]("FSSTAT3res"),
	tp[nt.FSINFO3args, r13.FSINFO3args]("FSINFO3args"), tp[nt.FSINFO3res, r13.FSINFO3res]("FSINFO3res"),
	tp[nt.PATHCONF3args, r13.PATHCONF3args]("PATHCONF3args"), tp[nt.PATHCONF3res, r13.PATHCONF3res]("PATHCONF3res"),
	tp[nt.COMMIT3args, r13.COMMIT3args]("COMMIT3args"), tp[nt.COMMIT3res, r13.COMMIT3res]("COMMIT3res"),
	tp[nt.Dirpath3, r13.Dirpath3]("Dirpath3"), tp[nt.Mountres3, r13.Mountres3]("Mountres3"),
	tp[nt.Mountopt3, r13.Mountopt3]("Mountopt3"), tp[nt.Exportsopt3, r13.Exportsopt3]("Exportsopt3"),
	tp[nt.Fattr3, r13.Fattr3]("Fattr3"), tp[nt.Sattr3, r13.Sattr3]("Sattr3"), tp[nt.Wcc_data, r13.Wcc_data]("Wcc_data"),
	tp[nt.Nfs_fh3, r13.Nfs_fh3]("Nfs_fh3"), tp[nt.Post_op_fh3, r13.Post_op_fh3]("Post_op_fh3"), tp[nt.Diropargs3, r13.Diropargs3]("Diropargs3"),
}

var enumValues = map[string][]uint32{
	"Nfsstat3":    {0, 1, 2, 5, 6, 13, 17, 18, 19, 20, 21, 22, 27, 28, 30, 31, 63, 66, 69, 70, 71, 10001, 10002, 10003, 10004, 10005, 10006, 10007, 10008},
	"Ftype3":      {1, 2, 3, 4, 5, 6, 7},
	"Stable_how":  {0, 1, 2},
	"Createmode3": {0, 1, 2},
	"Time_how":    {0, 1, 2},
	"Mountstat3":  {0, 1, 2, 5, 13, 20, 22, 63, 10004, 10006},
}

var opaqueLens = []int{0, 1, 2, 3, 4, 5, 7, 8, 16, 31, 32, 33, 63, 64}

// genWire fills v (addressable) with a generated value: every union arm, optional present/absent, lists of 0..3, boundary lengths.
func genWire(t *rapid.T, v reflect.Value, depth int) {
	switch v.Kind() {
	case reflect.Bool:
		v.SetBool(rapid.Bool().Draw(t, "bool"))
	case reflect.Uint32:
		if vals, ok := enumValues[v.Type().Name()]; ok && rapid.IntRange(0, 9).Draw(t, "validenum") > 0 {
			v.SetUint(uint64(pick(t, vals, "enum")))
		} else {
			v.SetUint(uint64(pick(t, []uint32{0, 1, 2, 3, 7, 8, 255, 65536, 1 << 31, ^uint32(0)}, "u32")))
		}
	case reflect.Uint64:
		v.SetUint(pick(t, []uint64{0, 1, 255, 256, 1 << 32, 1<<32 - 1, 1 << 63, ^uint64(0), 0x0102030405060708}, "u64"))
	case reflect.Int32:
		v.SetInt(int64(pick(t, []int32{0, 1, -1, 1 << 30, -1 << 31}, "i32")))
	case reflect.String:
		n := pick(t, append(opaqueLens, 65, 67), "strlen")
		if rapid.IntRange(0, 5).Draw(t, "boundlen") == 0 {
			// the protocol's string bounds: MNTNAMLEN 255, MNTPATHLEN 1024 (both sides of each)
			n = pick(t, []int{254, 255, 256, 300, 1023, 1024, 1025}, "strlen2")
		}
		v.SetString(strings.Repeat("s", n))
		if n > 0 && rapid.Bool().Draw(t, "bin") {
			b := rapid.SliceOfN(rapid.Byte(), n, n).Draw(t, "strbytes")
			v.SetString(string(b))
		}
	case reflect.Array: // fixed opaque
		for i := 0; i < v.Len(); i++ {
			v.Index(i).SetUint(uint64(rapid.Byte().Draw(t, "arr")))
		}
	case reflect.Slice:
		if v.Type().Elem().Kind() == reflect.Uint8 {
			n := pick(t, opaqueLens, "opaquelen")
			if rapid.IntRange(0, 5).Draw(t, "longopaque") == 0 && !strings.Contains(v.Type().String(), "Fhandle") {
				n = pick(t, []int{65, 66, 67, 100}, "opaquelen2") // beyond the handle limit, legal elsewhere
			}
			b := rapid.SliceOfN(rapid.Byte(), n, n).Draw(t, "opaque")
			if rapid.Bool().Draw(t, "window") {
				// a window onto a larger buffer whose bytes go on behind it (what a handler returning block[:n]
				// hands to the encoder): the encoding must not depend on anything beyond the slice's length
				big := make([]byte, n+8)
				copy(big, b)
				for i := n; i < len(big); i++ {
					big[i] = 0xa0 | byte(i-n)
				}
				b = big[:n]
			}
			v.SetBytes(b)
		} else {
			n := rapid.IntRange(0, 3).Draw(t, "slicelen")
			if rapid.IntRange(0, 7).Draw(t, "longlist") == 0 {
				n = pick(t, []int{4, 8, 12, 13, 16, 17, 32, 33, 64, 100, 257}, "slicelen2") // the protocol sets no bound
			}
			s := reflect.MakeSlice(v.Type(), n, n)
			for i := 0; i < n; i++ {
				genWire(t, s.Index(i), depth+1)
			}
			v.Set(s)
		}
	case reflect.Ptr: // optional data / linked list
		// lists are mostly short; now and then (depth marker 100..) a list goes on for a few dozen entries
		present, next := false, depth+1
		switch {
		case depth < 4:
			present = rapid.IntRange(0, 2).Draw(t, "present") > 0
		case depth == 4:
			present, next = rapid.IntRange(0, 7).Draw(t, "golong") == 0, 100
		case depth >= 100 && depth < 170:
			present = rapid.IntRange(0, 15).Draw(t, "longer") > 0
		}
		if present {
			p := reflect.New(v.Type().Elem())
			genWire(t, p.Elem(), next)
			v.Set(p)
		} else {
			v.Set(reflect.Zero(v.Type()))
		}
	case reflect.Struct:
		for i := 0; i < v.NumField(); i++ {
			genWire(t, v.Field(i), depth)
		}
	default:
		panic("genWire: unhandled kind " + v.Kind().String())
	}
}

// copyWire copies src into dst, two structurally identical types from different packages.
func copyWire(dst, src reflect.Value) {
	switch src.Kind() {
	case reflect.Bool:
		dst.SetBool(src.Bool())
	case reflect.Uint32, reflect.Uint64, reflect.Uint8:
		dst.SetUint(src.Uint())
	case reflect.Int32:
		dst.SetInt(src.Int())
	case reflect.String:
		dst.SetString(src.String())
	case reflect.Array:
		for i := 0; i < src.Len(); i++ {
			copyWire(dst.Index(i), src.Index(i))
		}
	case reflect.Slice:
		if src.IsNil() {
			dst.Set(reflect.Zero(dst.Type()))
			return
		}
		s := reflect.MakeSlice(dst.Type(), src.Len(), src.Len())
		for i := 0; i < src.Len(); i++ {
			copyWire(s.Index(i), src.Index(i))
		}
		dst.Set(s)
	case reflect.Ptr:
		if src.IsNil() {
			dst.Set(reflect.Zero(dst.Type()))
			return
		}
		p := reflect.New(dst.Type().Elem())
		copyWire(p.Elem(), src.Elem())
		dst.Set(p)
	case reflect.Struct:
		for i := 0; i < src.NumField(); i++ {
			copyWire(dst.Field(i), src.Field(i))
		}
	default:
		panic("copyWire: unhandled kind " + src.Kind().String())
	}
}

func encWire(v xdr.Xdrable) ([]byte, error) {
	w := xdr.MakeWriter(nil)
	v.Xdr(w)
	if err := w.Error(); err != nil {
		return nil, err
	}
	return append([]byte{}, w.WriteBuf()...), nil
}

func decWire(b []byte, v xdr.Xdrable) error {
	r := xdr.MakeReader(b)
	v.Xdr(r)
	return r.Error()
}

func TestC16RoundTrip(t *testing.T) {
	rapid.Check(t, func(t *rapid.T) {
		ti := rapid.IntRange(0, len(wireTypes)-1).Draw(t, "type")
		p := wireTypes[ti]
		mine, ref := p.mk()
		genWire(t, reflect.ValueOf(mine).Elem(), 0)
		fail := func(format string, a ...any) {
			failf(t, "C16", map[string]any{"type": p.name, "value": fmt.Sprintf("%+v", mine)}, p.name+": "+format, a...)
		}
		enc, err := encWire(mine)
		if err != nil {
			// a value outside the type's domain (e.g. a handle longer than NFS3_FHSIZE): the encoder must refuse it; the reference must agree
			copyWire(reflect.ValueOf(ref).Elem(), reflect.ValueOf(mine).Elem())
			if _, rerr := encWire(ref); rerr == nil {
				fail("the encoder refuses a value (%v) that the RFC-generated encoder accepts", err)
			}
			St.Class("values_outside_the_type_domain")
			return
		}
		St.Eval(1)
		if len(enc)%4 != 0 {
			fail("encoding is %d bytes, not a multiple of 4", len(enc))
		}
		// decode(encode(v)) re-encodes to the same bytes
		back, _ := p.mk()
		if err := decWire(enc, back); err != nil {
			fail("its own encoding does not decode: %v (%x)", err, trimBytes(enc, 64))
		}
		enc2, err := encWire(back)
		if err != nil || !bytes.Equal(enc, enc2) {
			fail("decode+encode changes the bytes: %x vs %x (%v)", trimBytes(enc, 64), trimBytes(enc2, 64), err)
		}
		// differential: the type generated from the RFC's .x file produces identical bytes, and decodes ours
		copyWire(reflect.ValueOf(ref).Elem(), reflect.ValueOf(mine).Elem())
		renc, rerr := encWire(ref)
		if rerr != nil || !bytes.Equal(enc, renc) {
			fail("bytes differ from the RFC-generated codec's: %x vs %x (%v)", trimBytes(enc, 96), trimBytes(renc, 96), rerr)
		}
		// every strict prefix of a valid encoding is rejected
		for cut := 0; cut < len(enc); cut++ {
			pv, _ := p.mk()
			if decWire(enc[:cut], pv) == nil {
				fail("a message truncated to %d of its %d bytes is accepted", cut, len(enc))
			}
		}
		St.NT(Hash(p.name, enc))
		St.Class("type_" + p.name)
		if St.WantSample(true) {
			St.Sample(map[string]any{"kind": "wire value", "type": p.name, "bytes": fmt.Sprintf("%x", trimBytes(enc, 80)), "length": len(enc)}, true)
		}
	})
}

// Arbitrary and mutated byte strings: both decoders agree on accept/reject and re-encode identically.
func decodeDifferential(p typePair, b []byte) error {
	mine, ref := p.mk()
	e1, e2 := decWire(b, mine), decWire(b, ref)
	if (e1 == nil) != (e2 == nil) {
		return fmt.Errorf("%s: %d bytes %x: the repository's decoder says %v, the RFC-generated one %v", p.name, len(b), trimBytes(b, 64), e1, e2)
	}
	if e1 == nil {
		b1, err1 := encWire(mine)
		b2, err2 := encWire(ref)
		if (err1 == nil) != (err2 == nil) || !bytes.Equal(b1, b2) {
			return fmt.Errorf("%s: %d bytes %x decode to values that re-encode differently: %x (%v) vs %x (%v)", p.name, len(b), trimBytes(b, 64), trimBytes(b1, 64), err1, trimBytes(b2, 64), err2)
		}
	}
	return nil
}

// hugeLengthWord: does the message hold an aligned 32-bit word that, read as the length of an unbounded
// string or opaque, makes go-rpcgen's decoder allocate more than 16 MB before it notices that the bytes are not
// there?  Such inputs are rejected all the same, but sixteen fuzz workers allocating 4 GB each die of memory
// exhaustion - a matter of the XDR library and of the harness, not of the wire format (C16 claims nothing about
// memory; C11 bounds it at the RPC level).  They are counted and skipped.
func hugeLengthWord(b []byte) bool {
	for i := 0; i+4 <= len(b); i += 4 {
		if binary.BigEndian.Uint32(b[i:]) > 1<<24 {
			return true
		}
	}
	return false
}

func TestC16Bytes(t *testing.T) {
	rapid.Check(t, func(t *rapid.T) {
		p := wireTypes[rapid.IntRange(0, len(wireTypes)-1).Draw(t, "type")]
		var b []byte
		if rapid.Bool().Draw(t, "mutate") {
			mine, _ := p.mk()
			genWire(t, reflect.ValueOf(mine).Elem(), 0)
			b, _ = encWire(mine)
			for i := 0; i < rapid.IntRange(1, 4).Draw(t, "nmut") && len(b) > 0; i++ {
				pos := rapid.IntRange(0, len(b)-1).Draw(t, "pos")
				switch rapid.IntRange(0, 2).Draw(t, "how") {
				case 0:
					b[pos] = rapid.Byte().Draw(t, "byte")
				case 1:
					b = b[:pos]
				default:
					b = append(b, rapid.SliceOfN(rapid.Byte(), 1, 8).Draw(t, "extra")...)
				}
			}
		} else {
			b = rapid.SliceOfN(rapid.Byte(), 0, 120).Draw(t, "bytes")
		}
		if hugeLengthWord(b) {
			St.Class("inputs_with_a_huge_length_word_skipped")
			return
		}
		if err := decodeDifferential(p, b); err != nil {
			failf(t, "C16", nil, "%v", err)
		}
		St.Eval(1)
		St.NT(Hash(p.name, b))
	})
}

func FuzzC16Decode(f *testing.F) {
	for i, p := range wireTypes {
		mine, _ := p.mk()
		b, _ := encWire(mine)
		f.Add(append([]byte{byte(i)}, b...))
	}
	f.Add([]byte{12, 0, 0, 0, 16, 1, 2, 3, 4, 5, 6, 7, 8, 9, 10, 11, 12, 13, 14, 15, 16, 0, 0, 0, 0, 0, 0, 0, 9, 0, 0, 0, 3, 0, 0, 0, 2, 0, 0, 0, 3, 97, 98, 99, 0})
	n := 0
	f.Fuzz(func(t *testing.T, in []byte) {
		if len(in) == 0 || len(in) > 4096 {
			return
		}
		p := wireTypes[int(in[0])%len(wireTypes)]
		if hugeLengthWord(in[1:]) {
			St.Class("inputs_with_a_huge_length_word_skipped")
			return
		}
		if err := decodeDifferential(p, in[1:]); err != nil {
			St.Violation("C16", err.Error(), nil)
			t.Fatalf("C16: %v", err)
		}
		St.Eval(1)
		St.NT(Hash(in))
		if n++; n%2000 == 0 {
			St.Flush()
		}
	})
	St.Flush()
}

// ---- golden vectors: bytes written from RFC 1813 / RFC 4506 with an independent mini-encoder ----

type gold struct{ b []byte }

func (g *gold) u32(v uint32) *gold { g.b = binary.BigEndian.AppendUint32(g.b, v); return g }
func (g *gold) u64(v uint64) *gold { g.b = binary.BigEndian.AppendUint64(g.b, v); return g }
func (g *gold) bool(v bool) *gold {
	if v {
		return g.u32(1)
	}
	return g.u32(0)
}
func (g *gold) opaque(b []byte) *gold { // variable-length opaque / string: length, bytes, zero padding to 4
	g.u32(uint32(len(b)))
	return g.fixed(b)
}
func (g *gold) fixed(b []byte) *gold {
	g.b = append(g.b, b...)
	for len(g.b)%4 != 0 {
		g.b = append(g.b, 0)
	}
	return g
}

func TestC16Golden(t *testing.T) {
	fh := []byte{1, 2, 3, 4, 5, 6, 7, 8, 9, 10, 11, 12, 13, 14, 15, 16}
	fh2 := []byte{0xaa, 0xbb, 0xcc}
	verf := [8]byte{8, 7, 6, 5, 4, 3, 2, 1}
	attr := nt.Fattr3{Ftype: nt.NF3REG, Mode: 0644, Nlink: 1, Uid: 10, Gid: 20, Size: 0x100000001, Used: 4096,
		Rdev: nt.Specdata3{Specdata1: 3, Specdata2: 4}, Fsid: 7, Fileid: 99, Atime: nt.Nfstime3{Seconds: 1, Nseconds: 2}, Mtime: nt.Nfstime3{Seconds: 3, Nseconds: 4}, Ctime: nt.Nfstime3{Seconds: 5, Nseconds: 6}}
	goldAttr := func(g *gold) *gold {
		return g.u32(1).u32(0644).u32(1).u32(10).u32(20).u64(0x100000001).u64(4096).u32(3).u32(4).u64(7).u64(99).u32(1).u32(2).u32(3).u32(4).u32(5).u32(6)
	}
	e2 := &nt.Entry3{Fileid: 6, Name: "bb", Cookie: 256}
	e1 := &nt.Entry3{Fileid: 5, Name: "a", Cookie: 128, Nextentry: e2}
	cases := []struct {
		name  string
		v     xdr.Xdrable
		fresh func() xdr.Xdrable
		want  []byte
	}{
		{"GETATTR3args", &nt.GETATTR3args{Object: nt.Nfs_fh3{Data: fh}}, func() xdr.Xdrable { return new(nt.GETATTR3args) }, (&gold{}).opaque(fh).b},
		{"LOOKUP3args", &nt.LOOKUP3args{What: nt.Diropargs3{Dir: nt.Nfs_fh3{Data: fh2}, Name: "hello"}}, func() xdr.Xdrable { return new(nt.LOOKUP3args) },
			(&gold{}).opaque(fh2).opaque([]byte("hello")).b},
		{"READ3args", &nt.READ3args{File: nt.Nfs_fh3{Data: fh}, Offset: 0x0102030405060708, Count: 65536}, func() xdr.Xdrable { return new(nt.READ3args) },
			(&gold{}).opaque(fh).u64(0x0102030405060708).u32(65536).b},
		{"WRITE3args", &nt.WRITE3args{File: nt.Nfs_fh3{Data: fh}, Offset: 4096, Count: 5, Stable: nt.FILE_SYNC, Data: []byte("12345")}, func() xdr.Xdrable { return new(nt.WRITE3args) },
			(&gold{}).opaque(fh).u64(4096).u32(5).u32(2).opaque([]byte("12345")).b},
		{"CREATE3args unchecked", &nt.CREATE3args{Where: nt.Diropargs3{Dir: nt.Nfs_fh3{Data: fh}, Name: "f"},
			How: nt.Createhow3{Mode: nt.UNCHECKED, Obj_attributes: nt.Sattr3{Mode: nt.Set_mode3{Set_it: true, Mode: 0600}, Size: nt.Set_size3{Set_it: true, Size: 9},
				Atime: nt.Set_atime{Set_it: nt.SET_TO_CLIENT_TIME, Atime: nt.Nfstime3{Seconds: 11, Nseconds: 12}}, Mtime: nt.Set_mtime{Set_it: nt.SET_TO_SERVER_TIME}}}},
			func() xdr.Xdrable { return new(nt.CREATE3args) },
			(&gold{}).opaque(fh).opaque([]byte("f")).u32(0).bool(true).u32(0600).bool(false).bool(false).bool(true).u64(9).u32(2).u32(11).u32(12).u32(1).b},
		{"CREATE3args exclusive", &nt.CREATE3args{Where: nt.Diropargs3{Dir: nt.Nfs_fh3{Data: fh}, Name: "f"}, How: nt.Createhow3{Mode: nt.EXCLUSIVE, Verf: verf}},
			func() xdr.Xdrable { return new(nt.CREATE3args) }, (&gold{}).opaque(fh).opaque([]byte("f")).u32(2).fixed(verf[:]).b},
		{"SETATTR3args guarded", &nt.SETATTR3args{Object: nt.Nfs_fh3{Data: fh}, Guard: nt.Sattrguard3{Check: true, Obj_ctime: nt.Nfstime3{Seconds: 7, Nseconds: 8}}},
			func() xdr.Xdrable { return new(nt.SETATTR3args) },
			(&gold{}).opaque(fh).bool(false).bool(false).bool(false).bool(false).u32(0).u32(0).bool(true).u32(7).u32(8).b},
		{"RENAME3args", &nt.RENAME3args{From: nt.Diropargs3{Dir: nt.Nfs_fh3{Data: fh}, Name: "old"}, To: nt.Diropargs3{Dir: nt.Nfs_fh3{Data: fh2}, Name: "newer"}},
			func() xdr.Xdrable { return new(nt.RENAME3args) }, (&gold{}).opaque(fh).opaque([]byte("old")).opaque(fh2).opaque([]byte("newer")).b},
		{"READDIR3args", &nt.READDIR3args{Dir: nt.Nfs_fh3{Data: fh}, Cookie: 384, Cookieverf: verf, Count: 4096}, func() xdr.Xdrable { return new(nt.READDIR3args) },
			(&gold{}).opaque(fh).u64(384).fixed(verf[:]).u32(4096).b},
		{"READDIRPLUS3args", &nt.READDIRPLUS3args{Dir: nt.Nfs_fh3{Data: fh}, Cookie: 1, Cookieverf: verf, Dircount: 512, Maxcount: 8192}, func() xdr.Xdrable { return new(nt.READDIRPLUS3args) },
			(&gold{}).opaque(fh).u64(1).fixed(verf[:]).u32(512).u32(8192).b},
		{"COMMIT3args", &nt.COMMIT3args{File: nt.Nfs_fh3{Data: fh}, Offset: 1 << 40, Count: 77}, func() xdr.Xdrable { return new(nt.COMMIT3args) },
			(&gold{}).opaque(fh).u64(1 << 40).u32(77).b},
		{"GETATTR3res ok", &nt.GETATTR3res{Status: nt.NFS3_OK, Resok: nt.GETATTR3resok{Obj_attributes: attr}}, func() xdr.Xdrable { return new(nt.GETATTR3res) },
			goldAttr((&gold{}).u32(0)).b},
		{"GETATTR3res stale", &nt.GETATTR3res{Status: nt.NFS3ERR_STALE}, func() xdr.Xdrable { return new(nt.GETATTR3res) }, (&gold{}).u32(70).b},
		{"LOOKUP3res ok", &nt.LOOKUP3res{Status: nt.NFS3_OK, Resok: nt.LOOKUP3resok{Object: nt.Nfs_fh3{Data: fh}, Obj_attributes: nt.Post_op_attr{Attributes_follow: true, Attributes: attr}}},
			func() xdr.Xdrable { return new(nt.LOOKUP3res) }, goldAttr((&gold{}).u32(0).opaque(fh).bool(true)).bool(false).b},
		{"LOOKUP3res noent", &nt.LOOKUP3res{Status: nt.NFS3ERR_NOENT}, func() xdr.Xdrable { return new(nt.LOOKUP3res) }, (&gold{}).u32(2).bool(false).b},
		{"READ3res ok", &nt.READ3res{Status: nt.NFS3_OK, Resok: nt.READ3resok{Count: 3, Eof: true, Data: []byte("xyz")}}, func() xdr.Xdrable { return new(nt.READ3res) },
			(&gold{}).u32(0).bool(false).u32(3).bool(true).opaque([]byte("xyz")).b},
		{"WRITE3res ok", &nt.WRITE3res{Status: nt.NFS3_OK, Resok: nt.WRITE3resok{Count: 5, Committed: nt.DATA_SYNC, Verf: verf}}, func() xdr.Xdrable { return new(nt.WRITE3res) },
			(&gold{}).u32(0).bool(false).bool(false).u32(5).u32(1).fixed(verf[:]).b},
		{"COMMIT3res ok", &nt.COMMIT3res{Status: nt.NFS3_OK, Resok: nt.COMMIT3resok{Verf: verf}}, func() xdr.Xdrable { return new(nt.COMMIT3res) },
			(&gold{}).u32(0).bool(false).bool(false).fixed(verf[:]).b},
		{"READDIR3res two entries", &nt.READDIR3res{Status: nt.NFS3_OK, Resok: nt.READDIR3resok{Cookieverf: verf, Reply: nt.Dirlist3{Entries: e1, Eof: true}}},
			func() xdr.Xdrable { return new(nt.READDIR3res) },
			(&gold{}).u32(0).bool(false).fixed(verf[:]).bool(true).u64(5).opaque([]byte("a")).u64(128).bool(true).u64(6).opaque([]byte("bb")).u64(256).bool(false).bool(true).b},
		{"CREATE3res ok", &nt.CREATE3res{Status: nt.NFS3_OK, Resok: nt.CREATE3resok{Obj: nt.Post_op_fh3{Handle_follows: true, Handle: nt.Nfs_fh3{Data: fh}}}},
			func() xdr.Xdrable { return new(nt.CREATE3res) }, (&gold{}).u32(0).bool(true).opaque(fh).bool(false).bool(false).bool(false).b},
		{"PATHCONF3res ok", &nt.PATHCONF3res{Status: nt.NFS3_OK, Resok: nt.PATHCONF3resok{Linkmax: 1, Name_max: 112, No_trunc: true, Case_preserving: true}},
			func() xdr.Xdrable { return new(nt.PATHCONF3res) }, (&gold{}).u32(0).bool(false).u32(1).u32(112).bool(true).bool(false).bool(false).bool(true).b},
		{"FSINFO3res ok", &nt.FSINFO3res{Status: nt.NFS3_OK, Resok: nt.FSINFO3resok{Rtmax: 1, Rtpref: 2, Rtmult: 3, Wtmax: 4, Wtpref: 5, Wtmult: 6, Dtpref: 7, Maxfilesize: 8,
			Time_delta: nt.Nfstime3{Seconds: 9, Nseconds: 10}, Properties: 0x1b}}, func() xdr.Xdrable { return new(nt.FSINFO3res) },
			(&gold{}).u32(0).bool(false).u32(1).u32(2).u32(3).u32(4).u32(5).u32(6).u32(7).u64(8).u32(9).u32(10).u32(0x1b).b},
		{"Mountres3 ok", &nt.Mountres3{Fhs_status: nt.MNT3_OK, Mountinfo: nt.Mountres3_ok{Fhandle: fh, Auth_flavors: []uint32{1, 0}}}, func() xdr.Xdrable { return new(nt.Mountres3) },
			(&gold{}).u32(0).opaque(fh).u32(2).u32(1).u32(0).b},
		{"Dirpath3", func() xdr.Xdrable { d := nt.Dirpath3("/export"); return &d }(), func() xdr.Xdrable { return new(nt.Dirpath3) }, (&gold{}).opaque([]byte("/export")).b},
	}
	for _, c := range cases {
		got, err := encWire(c.v)
		if err != nil || !bytes.Equal(got, c.want) {
			msg := fmt.Sprintf("%s encodes to %x (%v), RFC 1813 layout is %x", c.name, got, err, c.want)
			St.Violation("C16", msg, nil)
			t.Fatalf("C16: %s", msg)
		}
		// the RFC bytes decode to a value that encodes back to them
		fresh := c.fresh()
		if err := decWire(c.want, fresh); err != nil {
			msg := fmt.Sprintf("%s: the RFC 1813 bytes %x are rejected: %v", c.name, c.want, err)
			St.Violation("C16", msg, nil)
			t.Fatalf("C16: %s", msg)
		}
		again, _ := encWire(fresh)
		if !bytes.Equal(again, c.want) {
			msg := fmt.Sprintf("%s: the RFC 1813 bytes decode to a value that encodes to %x", c.name, again)
			St.Violation("C16", msg, nil)
			t.Fatalf("C16: %s", msg)
		}
		St.Eval(1)
		St.NT(Hash("golden", c.name))
	}
	St.ClassN("golden_vectors", len(cases))
	St.Sample(map[string]any{"kind": "golden vector", "name": cases[4].name, "bytes": fmt.Sprintf("%x", cases[4].want)}, true)
}

// ---- dispatch: each procedure number reaches the method of the RFC's table ----

type recStub struct {
	mu   sync.Mutex
	last string
}

func (s *recStub) rec(name string) { s.mu.Lock(); s.last = name; s.mu.Unlock() }
func (s *recStub) take() string    { s.mu.Lock(); defer s.mu.Unlock(); l := s.last; s.last = ""; return l }

func (s *recStub) NFSPROC3_NULL()                                         { s.rec("NULL") }
func (s *recStub) NFSPROC3_GETATTR(nt.GETATTR3args) (r nt.GETATTR3res)    { s.rec("GETATTR"); return }
func (s *recStub) NFSPROC3_SETATTR(nt.SETATTR3args) (r nt.SETATTR3res)    { s.rec("SETATTR"); return }
func (s *recStub) NFSPROC3_LOOKUP(nt.LOOKUP3args) (r nt.LOOKUP3res)       { s.rec("LOOKUP"); return }
func (s *recStub) NFSPROC3_ACCESS(nt.ACCESS3args) (r nt.ACCESS3res)       { s.rec("ACCESS"); return }
func (s *recStub) NFSPROC3_READLINK(nt.READLINK3args) (r nt.READLINK3res) { s.rec("READLINK"); return }
func (s *recStub) NFSPROC3_READ(nt.READ3args) (r nt.READ3res)             { s.rec("READ"); return }
func (s *recStub) NFSPROC3_WRITE(nt.WRITE3args) (r nt.WRITE3res)          { s.rec("WRITE"); return }
func (s *recStub) NFSPROC3_CREATE(nt.CREATE3args) (r nt.CREATE3res)       { s.rec("CREATE"); return }
func (s *recStub) NFSPROC3_MKDIR(nt.MKDIR3args) (r nt.MKDIR3res)          { s.rec("MKDIR"); return }
func (s *recStub) NFSPROC3_SYMLINK(nt.SYMLINK3args) (r nt.SYMLINK3res)    { s.rec("SYMLINK"); return }
func (s *recStub) NFSPROC3_MKNOD(nt.MKNOD3args) (r nt.MKNOD3res)          { s.rec("MKNOD"); return }
func (s *recStub) NFSPROC3_REMOVE(nt.REMOVE3args) (r nt.REMOVE3res)       { s.rec("REMOVE"); return }
func (s *recStub) NFSPROC3_RMDIR(nt.RMDIR3args) (r nt.RMDIR3res)          { s.rec("RMDIR"); return }
func (s *recStub) NFSPROC3_RENAME(nt.RENAME3args) (r nt.RENAME3res)       { s.rec("RENAME"); return }
func (s *recStub) NFSPROC3_LINK(nt.LINK3args) (r nt.LINK3res)             { s.rec("LINK"); return }
func (s *recStub) NFSPROC3_READDIR(nt.READDIR3args) (r nt.READDIR3res)    { s.rec("READDIR"); return }
func (s *recStub) NFSPROC3_READDIRPLUS(nt.READDIRPLUS3args) (r nt.READDIRPLUS3res) {
	s.rec("READDIRPLUS")
	return
}
func (s *recStub) NFSPROC3_FSSTAT(nt.FSSTAT3args) (r nt.FSSTAT3res)       { s.rec("FSSTAT"); return }
func (s *recStub) NFSPROC3_FSINFO(nt.FSINFO3args) (r nt.FSINFO3res)       { s.rec("FSINFO"); return }
func (s *recStub) NFSPROC3_PATHCONF(nt.PATHCONF3args) (r nt.PATHCONF3res) { s.rec("PATHCONF"); return }
func (s *recStub) NFSPROC3_COMMIT(nt.COMMIT3args) (r nt.COMMIT3res)       { s.rec("COMMIT"); return }
func (s *recStub) MOUNTPROC3_NULL()                                       { s.rec("MNT_NULL") }
func (s *recStub) MOUNTPROC3_MNT(nt.Dirpath3) (r nt.Mountres3)            { s.rec("MNT_MNT"); return }
func (s *recStub) MOUNTPROC3_DUMP() (r nt.Mountopt3)                      { s.rec("MNT_DUMP"); return }
func (s *recStub) MOUNTPROC3_UMNT(nt.Dirpath3)                            { s.rec("MNT_UMNT") }
func (s *recStub) MOUNTPROC3_UMNTALL()                                    { s.rec("MNT_UMNTALL") }
func (s *recStub) MOUNTPROC3_EXPORT() (r nt.Exportsopt3)                  { s.rec("MNT_EXPORT"); return }

func TestC16Dispatch(t *testing.T) {
	St.Exhaustive(true)
	// RFC 1813 section 3 and appendix I: procedure numbers
	nfsTable := []struct {
		name string
		args xdr.Xdrable
		res  xdr.Xdrable
	}{
		{"NULL", &xdr.Void{}, &xdr.Void{}}, {"GETATTR", &nt.GETATTR3args{}, &nt.GETATTR3res{}}, {"SETATTR", &nt.SETATTR3args{}, &nt.SETATTR3res{}},
		{"LOOKUP", &nt.LOOKUP3args{}, &nt.LOOKUP3res{}}, {"ACCESS", &nt.ACCESS3args{}, &nt.ACCESS3res{}}, {"READLINK", &nt.READLINK3args{}, &nt.READLINK3res{}},
		{"READ", &nt.READ3args{}, &nt.READ3res{}}, {"WRITE", &nt.WRITE3args{}, &nt.WRITE3res{}}, {"CREATE", &nt.CREATE3args{}, &nt.CREATE3res{}},
		{"MKDIR", &nt.MKDIR3args{}, &nt.MKDIR3res{}}, {"SYMLINK", &nt.SYMLINK3args{}, &nt.SYMLINK3res{}}, {"MKNOD", &nt.MKNOD3args{}, &nt.MKNOD3res{}},
		{"REMOVE", &nt.REMOVE3args{}, &nt.REMOVE3res{}}, {"RMDIR", &nt.RMDIR3args{}, &nt.RMDIR3res{}}, {"RENAME", &nt.RENAME3args{}, &nt.RENAME3res{}},
		{"LINK", &nt.LINK3args{}, &nt.LINK3res{}}, {"READDIR", &nt.READDIR3args{}, &nt.READDIR3res{}}, {"READDIRPLUS", &nt.READDIRPLUS3args{}, &nt.READDIRPLUS3res{}},
		{"FSSTAT", &nt.FSSTAT3args{}, &nt.FSSTAT3res{}}, {"FSINFO", &nt.FSINFO3args{}, &nt.FSINFO3res{}}, {"PATHCONF", &nt.PATHCONF3args{}, &nt.PATHCONF3res{}},
		{"COMMIT", &nt.COMMIT3args{}, &nt.COMMIT3res{}},
	}
	path := nt.Dirpath3("/")
	mntTable := []struct {
		name string
		args xdr.Xdrable
		res  xdr.Xdrable
	}{
		{"MNT_NULL", &xdr.Void{}, &xdr.Void{}}, {"MNT_MNT", &path, &nt.Mountres3{}}, {"MNT_DUMP", &xdr.Void{}, &nt.Mountopt3{}},
		{"MNT_UMNT", &path, &xdr.Void{}}, {"MNT_UMNTALL", &xdr.Void{}, &xdr.Void{}}, {"MNT_EXPORT", &xdr.Void{}, &nt.Exportsopt3{}},
	}
	stub := &recStub{}
	srv := rfc1057.MakeServer()
	srv.RegisterMany(nt.MOUNT_PROGRAM_MOUNT_V3_regs(stub))
	srv.RegisterMany(nt.NFS_PROGRAM_NFS_V3_regs(stub))
	cs, cc := net.Pipe()
	go srv.Run(cs)
	defer cc.Close()
	defer cs.Close()
	fail := func(format string, a ...any) {
		msg := fmt.Sprintf(format, a...)
		St.Violation("C16", msg, nil)
		t.Fatalf("C16: %s", msg)
	}
	if nt.NFS_PROGRAM != 100003 || nt.NFS_V3 != 3 || nt.MOUNT_PROGRAM != 100005 || nt.MOUNT_V3 != 3 {
		fail("program/version numbers: NFS %d v%d, MOUNT %d v%d; RFC 1813 says 100003 v3 and 100005 v3", nt.NFS_PROGRAM, nt.NFS_V3, nt.MOUNT_PROGRAM, nt.MOUNT_V3)
	}
	nfsc := rfc1057.MakeClient(cc, 100003, 3)
	for proc := uint32(0); proc < 40; proc++ {
		St.Eval(1)
		if int(proc) < len(nfsTable) {
			e := nfsTable[proc]
			if err := nfsc.Call(proc, noAuth, noAuth, e.args, e.res); err != nil {
				fail("NFS procedure %d (%s): %v", proc, e.name, err)
			}
			if got := stub.take(); got != e.name {
				fail("NFS procedure number %d reached the handler of %s; RFC 1813 assigns it to %s", proc, got, e.name)
			}
			St.NT(Hash("nfs", proc))
		} else {
			var v xdr.Void
			err := nfsc.Call(proc, noAuth, noAuth, &v, &v)
			if err == nil || stub.take() != "" {
				fail("NFS procedure number %d does not exist but was dispatched (%v)", proc, err)
			}
		}
	}
	mc := rfc1057.MakeClient(cc, 100005, 3)
	for proc := uint32(0); proc < 12; proc++ {
		St.Eval(1)
		if int(proc) < len(mntTable) {
			e := mntTable[proc]
			if err := mc.Call(proc, noAuth, noAuth, e.args, e.res); err != nil {
				fail("MOUNT procedure %d (%s): %v", proc, e.name, err)
			}
			if got := stub.take(); got != e.name {
				fail("MOUNT procedure number %d reached the handler of %s; RFC 1813 assigns it to %s", proc, got, e.name)
			}
			St.NT(Hash("mnt", proc))
		} else {
			var v xdr.Void
			if err := mc.Call(proc, noAuth, noAuth, &v, &v); err == nil || stub.take() != "" {
				fail("MOUNT procedure number %d does not exist but was dispatched", proc)
			}
		}
	}
	// other programs and versions are refused
	for _, pv := range [][2]uint32{{100003, 2}, {100003, 4}, {100005, 1}, {100004, 3}} {
		c := rfc1057.MakeClient(cc, pv[0], pv[1])
		var v xdr.Void
		if err := c.Call(0, noAuth, noAuth, &v, &v); err == nil || stub.take() != "" {
			fail("program %d version %d is served", pv[0], pv[1])
		}
		St.Eval(1)
	}
	St.ClassN("procedure_numbers_checked", 52)
	St.Sample(map[string]any{"kind": "dispatch table", "nfs_procedures": 22, "mount_procedures": 6, "unassigned_numbers_probed": 24}, true)
}

// A truncated request must be refused by the dispatch layer *before* the procedure runs: for a generated argument
// value of every NFS procedure, every strict prefix of its encoding (word-aligned or not) goes through the
// repository's dispatch table to a recording stub; the call must end in an error and the stub must not have been
// reached.  The complete encoding must reach it.
func TestC16Truncated(t *testing.T) {
	argTypes := map[uint32]func() xdr.Xdrable{
		1: func() xdr.Xdrable { return new(nt.GETATTR3args) }, 2: func() xdr.Xdrable { return new(nt.SETATTR3args) }, 3: func() xdr.Xdrable { return new(nt.LOOKUP3args) },
		4: func() xdr.Xdrable { return new(nt.ACCESS3args) }, 5: func() xdr.Xdrable { return new(nt.READLINK3args) }, 6: func() xdr.Xdrable { return new(nt.READ3args) },
		7: func() xdr.Xdrable { return new(nt.WRITE3args) }, 8: func() xdr.Xdrable { return new(nt.CREATE3args) }, 9: func() xdr.Xdrable { return new(nt.MKDIR3args) },
		10: func() xdr.Xdrable { return new(nt.SYMLINK3args) }, 11: func() xdr.Xdrable { return new(nt.MKNOD3args) }, 12: func() xdr.Xdrable { return new(nt.REMOVE3args) },
		13: func() xdr.Xdrable { return new(nt.RMDIR3args) }, 14: func() xdr.Xdrable { return new(nt.RENAME3args) }, 15: func() xdr.Xdrable { return new(nt.LINK3args) },
		16: func() xdr.Xdrable { return new(nt.READDIR3args) }, 17: func() xdr.Xdrable { return new(nt.READDIRPLUS3args) }, 18: func() xdr.Xdrable { return new(nt.FSSTAT3args) },
		19: func() xdr.Xdrable { return new(nt.FSINFO3args) }, 20: func() xdr.Xdrable { return new(nt.PATHCONF3args) }, 21: func() xdr.Xdrable { return new(nt.COMMIT3args) },
	}
	stub := &recStub{}
	handlers := map[uint32]func(*xdr.XdrState) (xdr.Xdrable, error){}
	for _, r := range nt.NFS_PROGRAM_NFS_V3_regs(stub) {
		handlers[r.Proc] = r.Handler
	}
	mnt := map[uint32]func(*xdr.XdrState) (xdr.Xdrable, error){}
	for _, r := range nt.MOUNT_PROGRAM_MOUNT_V3_regs(stub) {
		mnt[r.Proc] = r.Handler
	}
	rapid.Check(t, func(t *rapid.T) {
		proc := uint32(rapid.IntRange(1, 23).Draw(t, "proc"))
		var v xdr.Xdrable
		h := handlers[proc]
		if proc >= 22 {
			// MOUNT MNT (1) and UMNT (3) take a dirpath
			p := new(nt.Dirpath3)
			v, h = p, mnt[map[uint32]uint32{22: 1, 23: 3}[proc]]
		} else {
			v = argTypes[proc]()
		}
		genWire(t, reflect.ValueOf(v).Elem(), 0)
		full, err := encWire(v)
		if err != nil {
			t.Skip("value does not encode (beyond a protocol bound)")
		}
		fail := func(format string, a ...any) {
			failf(t, "C16", map[string]any{"procedure": proc, "encoding": fmt.Sprintf("%x", trimBytes(full, 200))}, format, a...)
		}
		stub.take()
		if _, err := h(xdr.MakeReader(full)); err != nil || stub.take() == "" {
			// values beyond a protocol bound (a name longer than the codec admits) may be refused: not this unit's subject
			t.Skip("the complete message is not accepted")
		}
		var cuts []int
		if len(full) <= 64 {
			for k := 0; k < len(full); k++ {
				cuts = append(cuts, k)
			}
		} else {
			for k := 0; k < len(full); k += 4 {
				cuts = append(cuts, k)
			}
			for i := 0; i < 8; i++ {
				cuts = append(cuts, rapid.IntRange(0, len(full)-1).Draw(t, "cut"))
			}
		}
		for _, k := range cuts {
			_, err := h(xdr.MakeReader(append([]byte{}, full[:k]...)))
			reached := stub.take()
			if reached != "" {
				fail("procedure %d: a request cut after %d of its %d bytes reached the handler of %s (the procedure ran on half-decoded arguments)", proc, k, len(full), reached)
			}
			if err == nil {
				fail("procedure %d: a request cut after %d of its %d bytes was not refused", proc, k, len(full))
			}
			St.Eval(1)
		}
		St.NT(Hash("trunc", proc, len(full)))
		St.Class("truncated_requests_offered_to_the_dispatch_table")
	})
}
