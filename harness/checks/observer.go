package checks

// The transaction observer (hooks in /repo/fstxn, build tag verif): one
// Monitor per server instance sees every transaction begin, lock
// acquisition/release, inode allocation, commit and abort.

import (
	"fmt"
	"runtime"
	"strings"
	"sync"
	"sync/atomic"

	"github.com/mit-pdos/go-nfsd/fstxn"
)

type txnState struct {
	held      []uint64        // acquisition order
	allocated map[uint64]bool // inode numbers this transaction allocated
	gid       uint64
}

type LockViolation struct {
	Kind   string // "order", "self"
	Inum   uint64
	Held   []uint64
	Caller string
}

func (v LockViolation) String() string {
	switch v.Kind {
	case "self":
		return fmt.Sprintf("a transaction requests the lock of inode %d, which it already holds (held: %v) at %s", v.Inum, v.Held, v.Caller)
	}
	return fmt.Sprintf("a transaction holding the locks of inodes %v requests inode %d, which is not larger (ascending order violated) at %s", v.Held, v.Inum, v.Caller)
}

type Monitor struct {
	mu             sync.Mutex
	txns           map[*fstxn.FsTxn]*txnState
	Begun          int64
	Aborts         int64
	AbortsModified int64 // aborted transactions that had dirty buffers
	Commits        int64
	CommitsFailed  int64
	MultiLock      int64 // acquisitions made while holding another lock (not a fresh allocation)
	KnownKF1       int64 // order violations from the READDIRPLUS listing path (known finding KF1)
	Violations     []LockViolation
	CheckOrder     bool
	// PanicOnSelf: a transaction about to request a lock it holds panics instead of blocking for ever
	PanicOnSelf bool
	// yield, if set, is called at lock acquisition, commit and abort points (schedule perturbation)
	yield atomic.Pointer[func(point string)]
}

func (m *Monitor) SetYield(f func(point string)) {
	if f == nil {
		m.yield.Store(nil)
		return
	}
	m.yield.Store(&f)
}

var monitors sync.Map // *fstxn.FsState -> *Monitor

// Defaults for monitors of servers started from now on (set by a test before it starts servers).
var DefaultCheckOrder bool
var DefaultPanicOnSelf bool

func monitorFor(fs *fstxn.FsState) *Monitor {
	if m, ok := monitors.Load(fs); ok {
		return m.(*Monitor)
	}
	m, _ := monitors.LoadOrStore(fs, &Monitor{txns: map[*fstxn.FsTxn]*txnState{}, CheckOrder: DefaultCheckOrder, PanicOnSelf: DefaultPanicOnSelf})
	return m.(*Monitor)
}

func dropMonitor(fs *fstxn.FsState) { monitors.Delete(fs) }

type observer struct{}

func installObserver() { fstxn.VerifObs = observer{} }

func (observer) Begin(op *fstxn.FsTxn) {
	m := monitorFor(op.Fs)
	atomic.AddInt64(&m.Begun, 1)
	if m.CheckOrder {
		m.mu.Lock()
		m.txns[op] = &txnState{allocated: map[uint64]bool{}}
		m.mu.Unlock()
	}
}

func callerOutsideFstxn() (string, bool) {
	pcs := make([]uintptr, 16)
	n := runtime.Callers(3, pcs)
	frames := runtime.CallersFrames(pcs[:n])
	var parts []string
	kf1 := false
	for {
		f, more := frames.Next()
		if strings.Contains(f.Function, "go-nfsd/") && !strings.Contains(f.Function, "verif") {
			name := f.Function[strings.LastIndex(f.Function, "/")+1:]
			parts = append(parts, name)
			if name == "dir.Apply" {
				kf1 = true
			}
		}
		if !more || len(parts) >= 6 {
			break
		}
	}
	return strings.Join(parts, " <- "), kf1
}

func (observer) Acquire(op *fstxn.FsTxn, inum uint64) {
	m := monitorFor(op.Fs)
	if y := m.yield.Load(); y != nil {
		(*y)("acquire")
	}
	if !m.CheckOrder {
		return
	}
	m.mu.Lock()
	defer m.mu.Unlock()
	st := m.txns[op]
	if st == nil {
		return
	}
	if len(st.held) == 0 {
		return
	}
	fresh := st.allocated[inum]
	if !fresh {
		m.MultiLock++
	}
	var max uint64
	self := false
	for _, h := range st.held {
		if h > max {
			max = h
		}
		if h == inum {
			self = true
		}
	}
	if self {
		caller, _ := callerOutsideFstxn()
		v := LockViolation{"self", inum, append([]uint64{}, st.held...), caller}
		m.Violations = append(m.Violations, v)
		if m.PanicOnSelf {
			m.mu.Unlock()
			defer m.mu.Lock()
			panic("verif: self-acquire: " + v.String())
		}
		return
	}
	if inum < max && !fresh {
		caller, kf1 := callerOutsideFstxn()
		if kf1 {
			m.KnownKF1++
			return
		}
		m.Violations = append(m.Violations, LockViolation{"order", inum, append([]uint64{}, st.held...), caller})
	}
}

func (observer) Acquired(op *fstxn.FsTxn, inum uint64) {
	m := monitorFor(op.Fs)
	if !m.CheckOrder {
		return
	}
	m.mu.Lock()
	if st := m.txns[op]; st != nil {
		st.held = append(st.held, inum)
	}
	m.mu.Unlock()
}

func (observer) Release(op *fstxn.FsTxn, inum uint64) {
	m := monitorFor(op.Fs)
	if !m.CheckOrder {
		return
	}
	m.mu.Lock()
	if st := m.txns[op]; st != nil {
		for i, h := range st.held {
			if h == inum {
				st.held = append(st.held[:i], st.held[i+1:]...)
				break
			}
		}
	}
	m.mu.Unlock()
}

func (observer) Alloc(op *fstxn.FsTxn, inum uint64) {
	m := monitorFor(op.Fs)
	if !m.CheckOrder {
		return
	}
	m.mu.Lock()
	if st := m.txns[op]; st != nil {
		st.allocated[inum] = true
	}
	m.mu.Unlock()
}

func (observer) Commit(op *fstxn.FsTxn, wait bool) {
	m := monitorFor(op.Fs)
	if y := m.yield.Load(); y != nil {
		(*y)("commit")
	}
}

func (observer) Committed(op *fstxn.FsTxn, ok bool) {
	m := monitorFor(op.Fs)
	atomic.AddInt64(&m.Commits, 1)
	if !ok {
		atomic.AddInt64(&m.CommitsFailed, 1)
	}
	m.done(op)
}

func (observer) Abort(op *fstxn.FsTxn, dirty uint64) {
	m := monitorFor(op.Fs)
	// (a pause point too: nothing has been undone yet and the locks are still held)
	if y := m.yield.Load(); y != nil {
		(*y)("abort")
	}
	atomic.AddInt64(&m.Aborts, 1)
	if dirty > 0 {
		atomic.AddInt64(&m.AbortsModified, 1)
	}
	m.done(op)
}

// done forgets a finished transaction; locks it still holds at this point are released right after.
func (m *Monitor) done(op *fstxn.FsTxn) {
	if !m.CheckOrder {
		return
	}
	// the transaction object is not reused; drop it once its locks are gone (Release is called after the hook)
	m.mu.Lock()
	if len(m.txns) > 4096 {
		for k, st := range m.txns {
			if len(st.held) == 0 && k != op {
				delete(m.txns, k)
			}
		}
	}
	m.mu.Unlock()
}

// Unfinished returns the lock sets of transactions that still hold locks.
func (m *Monitor) Unfinished() [][]uint64 {
	m.mu.Lock()
	defer m.mu.Unlock()
	var out [][]uint64
	for _, st := range m.txns {
		if len(st.held) > 0 {
			out = append(out, append([]uint64{}, st.held...))
		}
	}
	return out
}
