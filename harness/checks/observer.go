package checks

func installObserver() {}
