package checks

// Concurrent engine: generated programs for several clients over a tiny
// shared namespace, executed with real goroutines, recorded as a history
// (invoke/return stamps from one atomic counter) and judged by porcupine
// against a compact sequential model.
//
// Namespace: three fixed directories (the root R and D0, D1 inside it),
// in each of them the file names a, b, c and the directory names x, y;
// two shared regular files (by handle) for data operations.
// Known findings kept out by construction: READDIRPLUS of directories other than the
// root (KF1) and moving a directory into its own subtree (KF3; impossible here).

import (
	"bytes"
	"fmt"
	"runtime"
	"sort"
	"strings"
	"sync"
	"sync/atomic"
	"time"

	"github.com/anishathalye/porcupine"
	nt "github.com/mit-pdos/go-nfsd/nfstypes"
	"pgregory.net/rapid"
)

const cPrefix = 8192 // bytes of each shared file the model tracks (everything beyond is zero)

// cNameMax: the name_max the server announces (names longer than that must be refused)
var cNameMax uint64 = 255

// cRtMax: the rtmax the server announces (set when a world is set up; the same for every server of this build)
var cRtMax uint64 = 1 << 62

var cFileNames = []string{"a", "b", "c"}
var cDirNames = []string{"x", "y"}

type cOp struct {
	Kind   string // create mkdir remove rmdir rename lookup readdir getattr write read setattr
	Dir    int    // 0 = R, 1 = D0, 2 = D1
	Name   string
	Dir2   int
	Name2  string
	File   int // shared file slot
	Off    uint64
	Data   string
	Size   uint64
	Cnt    uint32
	Stable nt.Stable_how
	// MayFail: the disk is (nearly) full, so a request that needs a block may fail without effect
	MayFail bool
	// H: for the kinds writeh/readh/setattrh/getattrh the handle the client got from its last successful
	// CREATE or LOOKUP of a file name (bound when the operation is issued); the file may be gone by then
	H string
}

func (o cOp) String() string {
	d := []string{"R", "D0", "D1"}
	switch o.Kind {
	case "rename":
		return fmt.Sprintf("RENAME %s/%s -> %s/%s", d[o.Dir], o.Name, d[o.Dir2], o.Name2)
	case "write":
		return fmt.Sprintf("WRITE f%d off=%d len=%d tag=%x stable=%d", o.File, o.Off, len(o.Data), tagOf([]byte(o.Data)), o.Stable)
	case "read":
		return fmt.Sprintf("READ f%d off=%d cnt=%d", o.File, o.Off, o.Cnt)
	case "setattr":
		return fmt.Sprintf("SETATTR f%d size=%d", o.File, o.Size)
	case "getattr":
		return fmt.Sprintf("GETATTR f%d", o.File)
	case "readdir":
		return fmt.Sprintf("READDIR %s", d[o.Dir])
	case "readdirplus":
		return fmt.Sprintf("READDIRPLUS %s", d[o.Dir])
	case "sweep":
		return "GETATTR of every extra file"
	case "createlong":
		return fmt.Sprintf("CREATE %s/<name 60 bytes beyond the limit>", d[o.Dir])
	case "renamelong":
		return fmt.Sprintf("RENAME %s/%s -> %s/<name 40 bytes beyond the limit>", d[o.Dir], o.Name, d[o.Dir])
	case "writeh":
		return fmt.Sprintf("WRITE fh=%x off=%d len=%d tag=%x stable=%d", trimBytes([]byte(o.H), 16), o.Off, len(o.Data), tagOf([]byte(o.Data)), o.Stable)
	case "readh":
		return fmt.Sprintf("READ fh=%x off=%d cnt=%d", trimBytes([]byte(o.H), 16), o.Off, o.Cnt)
	case "setattrh":
		return fmt.Sprintf("SETATTR fh=%x size=%d", trimBytes([]byte(o.H), 16), o.Size)
	case "getattrh":
		return fmt.Sprintf("GETATTR fh=%x", trimBytes([]byte(o.H), 16))
	case "setattrhm":
		return fmt.Sprintf("SETATTR fh=%x size=%d mtime=%d", trimBytes([]byte(o.H), 16), o.Size, o.Cnt)
	}
	return fmt.Sprintf("%s %s/%s", strings.ToUpper(o.Kind), d[o.Dir], o.Name)
}

type cRes struct {
	Cnt    uint32 // WRITE: bytes accepted
	OK     bool
	Handle string
	Fileid uint64
	Size   uint64
	Data   string
	Eof    bool
	Names  string // sorted, comma separated
	Plus   string // READDIRPLUS: what the entries say about the shared files' sizes and the names' handles
	Ftype  nt.Ftype3
	Mtime  uint32 // GETATTR through a handle: mtime seconds
	// READDIRPLUS of D0/D1: the attributes listed for the entry "a"
	AHas   bool
	ASize  uint64
	AMtime uint32
}

// cState is the sequential model: names -> handle per directory, and the shared files.
type cState struct {
	Fixed []string             // fixed names in the root (never touched by the programs)
	Names [3]map[string]string // name -> handle
	Ids   map[string]uint64    // handle -> file id
	Size  [2]uint64
	Data  [2]string // first cPrefix bytes (zero padded to min(size, cPrefix))
	// HFiles: the regular files the programs created, by handle (size and first cPrefix bytes)
	HFiles map[string]cFile
}

type cFile struct {
	Size uint64
	Data string
	// Mtime: the modification time a client set explicitly (seconds), 0 when the reference does not know it
	// (a WRITE or a size-only SETATTR may or may not touch it)
	Mtime uint32
}

func (s cState) clone() cState {
	c := cState{Fixed: s.Fixed, Ids: make(map[string]uint64, len(s.Ids)), Size: s.Size, Data: s.Data}
	for i := range s.Names {
		c.Names[i] = make(map[string]string, len(s.Names[i]))
		for k, v := range s.Names[i] {
			c.Names[i][k] = v
		}
	}
	for k, v := range s.Ids {
		c.Ids[k] = v
	}
	if s.HFiles != nil {
		c.HFiles = make(map[string]cFile, len(s.HFiles))
		for k, v := range s.HFiles {
			c.HFiles[k] = v
		}
	}
	return c
}

func (s cState) key() string {
	var b strings.Builder
	for i := range s.Names {
		ks := make([]string, 0, len(s.Names[i]))
		for k := range s.Names[i] {
			ks = append(ks, k)
		}
		sort.Strings(ks)
		for _, k := range ks {
			fmt.Fprintf(&b, "%d/%s=%x;", i, k, s.Names[i][k])
		}
	}
	fmt.Fprintf(&b, "|%d:%x|%d:%x", s.Size[0], Hash(s.Data[0]), s.Size[1], Hash(s.Data[1]))
	if len(s.HFiles) > 0 {
		hs := make([]string, 0, len(s.HFiles))
		for h := range s.HFiles {
			hs = append(hs, h)
		}
		sort.Strings(hs)
		for _, h := range hs {
			fmt.Fprintf(&b, "|%x=%d:%x:%d", h, s.HFiles[h].Size, Hash(s.HFiles[h].Data), s.HFiles[h].Mtime)
		}
	}
	return b.String()
}

func isDirName(n string) bool { return n == "x" || n == "y" }

func (s cState) listing(dir int) string {
	names := []string{".", ".."}
	if dir == 0 {
		names = append(names, s.Fixed...) // the fixed part of the namespace
	}
	for k := range s.Names[dir] {
		names = append(names, k)
	}
	sort.Strings(names)
	return strings.Join(names, ",")
}

// plus: what a READDIRPLUS of dir must say about the shared files (root only) and the handles of the names.
func (s cState) plus(dir int) string {
	var parts []string
	if dir == 0 {
		// one file only: the attributes of two files in one listing are not a snapshot (known finding KF4)
		parts = append(parts, fmt.Sprintf("f0=%d", s.Size[0]))
	}
	ks := make([]string, 0, len(s.Names[dir]))
	for k := range s.Names[dir] {
		ks = append(ks, k)
	}
	sort.Strings(ks)
	for _, k := range ks {
		parts = append(parts, fmt.Sprintf("%s=%x", k, s.Names[dir][k]))
	}
	return strings.Join(parts, ",")
}

// cStep: is (input, output) a legal step from state s, and what is the next state?
func cStep(s cState, o cOp, r cRes) (bool, cState) {
	switch o.Kind {
	case "create", "mkdir":
		_, exists := s.Names[o.Dir][o.Name]
		if exists {
			return !r.OK, s
		}
		if !r.OK {
			return o.MayFail, s
		}
		if r.Handle == "" {
			return false, s
		}
		if _, dup := s.Ids[r.Handle]; dup {
			return false, s // a handle that is in use
		}
		n := s.clone()
		n.Names[o.Dir][o.Name] = r.Handle
		n.Ids[r.Handle] = r.Fileid
		if o.Kind == "create" {
			if n.HFiles == nil {
				n.HFiles = map[string]cFile{}
			}
			n.HFiles[r.Handle] = cFile{}
		}
		return true, n
	case "createlong", "renamelong":
		return !r.OK, s // a name beyond the limit: refused, nothing changes
	case "remove", "rmdir":
		h, exists := s.Names[o.Dir][o.Name]
		want := exists && (o.Kind == "remove" || isDirName(o.Name))
		if !want {
			return !r.OK, s
		}
		if !r.OK {
			return false, s
		}
		n := s.clone()
		delete(n.Names[o.Dir], o.Name)
		delete(n.Ids, h)
		delete(n.HFiles, h)
		return true, n
	case "rename":
		h, exists := s.Names[o.Dir][o.Name]
		if !exists {
			return !r.OK, s
		}
		if !r.OK {
			return o.MayFail, s
		}
		if o.Dir == o.Dir2 && o.Name == o.Name2 {
			return true, s
		}
		n := s.clone()
		if old, replaced := n.Names[o.Dir2][o.Name2]; replaced {
			delete(n.Ids, old)
			delete(n.HFiles, old)
		}
		delete(n.Names[o.Dir], o.Name)
		n.Names[o.Dir2][o.Name2] = h
		return true, n
	case "lookup":
		h, exists := s.Names[o.Dir][o.Name]
		if !exists {
			return !r.OK, s
		}
		want := nt.NF3REG
		if isDirName(o.Name) {
			want = nt.NF3DIR
		}
		return r.OK && r.Handle == h && r.Fileid == s.Ids[h] && r.Ftype == want, s
	case "readdir":
		return r.OK && r.Names == s.listing(o.Dir), s
	case "readdirplus":
		if o.Dir != 0 {
			// the attributes listed for "a" are those of the file (one file per listing: see KF4)
			if h, ok := s.Names[o.Dir]["a"]; ok {
				if f, isFile := s.HFiles[h]; isFile && (!r.AHas || r.ASize != f.Size || (f.Mtime != 0 && r.AMtime != f.Mtime)) {
					return false, s
				}
			}
		}
		return r.OK && r.Names == s.listing(o.Dir) && r.Plus == s.plus(o.Dir), s
	case "getattr":
		return r.OK && r.Size == s.Size[o.File], s
	case "sweep":
		return r.OK, s
	case "read", "write", "setattr":
		ok, nsize, ndata, changed := dataStep(s.Size[o.File], s.Data[o.File], o, r)
		if !ok || !changed {
			return ok, s
		}
		n := s.clone()
		n.Size[o.File], n.Data[o.File] = nsize, ndata
		return true, n
	case "readh", "writeh", "setattrh", "getattrh", "setattrhm":
		f, live := s.HFiles[o.H]
		if !live {
			return !r.OK, s // the handle names no file any more: every use must fail
		}
		if o.Kind == "getattrh" {
			return r.OK && r.Size == f.Size && (f.Mtime == 0 || r.Mtime == f.Mtime), s
		}
		k := o
		k.Kind = strings.TrimSuffix(strings.TrimSuffix(o.Kind, "m"), "h")
		ok, nsize, ndata, changed := dataStep(f.Size, f.Data, k, r)
		if !ok || !changed {
			return ok, s
		}
		n := s.clone()
		nf := cFile{Size: nsize, Data: ndata} // mtime: unknown after a WRITE or a size-only SETATTR
		if o.Kind == "setattrhm" {
			nf.Mtime = o.Cnt // size and mtime change together
		}
		n.HFiles[o.H] = nf
		return true, n
	}
	return false, s
}

// dataStep judges a READ, WRITE or SETATTR(size) of a regular file with the given size and first cPrefix bytes.
func dataStep(size uint64, data string, o cOp, r cRes) (ok bool, nsize uint64, ndata string, changed bool) {
	switch o.Kind {
	case "read":
		if !r.OK {
			return false, size, data, false
		}
		var want []byte
		if o.Off < size {
			end := o.Off + uint64(o.Cnt)
			if end > size {
				end = size
			}
			want = make([]byte, end-o.Off)
			if o.Off < uint64(len(data)) {
				copy(want, data[o.Off:])
			}
		}
		if r.Data != string(want) {
			// on a full disk a hole cannot be filled and the read ends early; and a server may answer with fewer
			// bytes than asked for, but not fewer than its announced rtmax when that much is there
			short := strings.HasPrefix(string(want), r.Data) && uint64(len(r.Data)) >= atomic.LoadUint64(&cRtMax)
			if !(o.MayFail && strings.HasPrefix(string(want), r.Data)) && !short {
				return false, size, data, false
			}
		}
		if o.Off >= size && !r.Eof {
			return false, size, data, false
		}
		return true, size, data, false
	case "write":
		if !r.OK {
			return o.MayFail, size, data, false
		}
		if int(r.Cnt) != len(o.Data) && !(o.MayFail && int(r.Cnt) < len(o.Data)) {
			return false, size, data, false
		}
		if r.Cnt == 0 {
			return true, size, data, false
		}
		buf := make([]byte, cPrefix)
		copy(buf, data)
		if o.Off < cPrefix { // the model follows the first cPrefix bytes of a file (and its size)
			copy(buf[o.Off:], o.Data[:r.Cnt])
		}
		end := o.Off + uint64(r.Cnt)
		nsize = size
		if end > nsize {
			nsize = end
		}
		// the post-operation attributes show the size after this write
		return r.Size == nsize, nsize, trimPrefix(buf, nsize), true
	case "setattr":
		if !r.OK {
			return false, size, data, false
		}
		buf := make([]byte, cPrefix)
		copy(buf, data)
		if o.Size < cPrefix {
			for i := o.Size; i < cPrefix; i++ {
				buf[i] = 0
			}
		}
		return r.Size == o.Size, o.Size, trimPrefix(buf, o.Size), true
	}
	return false, size, data, false
}

func trimPrefix(buf []byte, size uint64) string {
	if size < uint64(len(buf)) {
		buf = buf[:size]
	}
	return string(bytes.TrimRight(buf, "\x00"))
}

func emptyCState() cState {
	s := cState{Fixed: []string{"D0", "D1", "f0", "f1"}, Ids: map[string]uint64{}}
	for i := range s.Names {
		s.Names[i] = map[string]string{}
	}
	return s
}

func cModelFor(init cState) porcupine.Model {
	m := cModel
	m.Init = func() interface{} { return init }
	return m
}

var cModel = porcupine.Model{
	Init: func() interface{} { return emptyCState() },
	Step: func(state, input, output interface{}) (bool, interface{}) {
		ok, n := cStep(state.(cState), input.(cOp), output.(cRes))
		return ok, n
	},
	Equal: func(a, b interface{}) bool { return a.(cState).key() == b.(cState).key() },
	DescribeOperation: func(input, output interface{}) string {
		r := output.(cRes)
		return fmt.Sprintf("%v -> ok=%v fh=%x size=%d len=%d names=%s", input.(cOp), r.OK, trimBytes([]byte(r.Handle), 16), r.Size, len(r.Data), r.Names)
	},
}

// cWorld is a running server with the fixed part of the namespace.
type cWorld struct {
	FullDisk bool // requests that need a block may fail; reads of holes may end early
	S        *Srv
	Dirs     [3]nt.Nfs_fh3
	Files    [2]nt.Nfs_fh3
	Init     cState
	Extra    []nt.Nfs_fh3 // further files in the root that the programs only look at (a working set larger than the inode cache)
	deepDirs [2]nt.Nfs_fh3 // TestC04RenameCycle: D0/x and D1/x
	ExtraIDs []uint64      // file ids of the extra files, as CREATE reported them
}

// addExtras creates n more files in the root; a "sweep" operation looks at all of them.
func (w *cWorld) addExtras(n int) error {
	api := w.S.API()
	fixed := append([]string{}, w.Init.Fixed...)
	for i := 0; i < n; i++ {
		name := fmt.Sprintf("g%03d", i)
		r := api.NFSPROC3_CREATE(nt.CREATE3args{Where: nt.Diropargs3{Dir: w.Dirs[0], Name: nt.Filename3(name)}})
		if r.Status != nt.NFS3_OK {
			return fmt.Errorf("create %s: %d", name, r.Status)
		}
		w.Extra = append(w.Extra, r.Resok.Obj.Handle)
		w.ExtraIDs = append(w.ExtraIDs, uint64(r.Resok.Obj_attributes.Attributes.Fileid))
		fixed = append(fixed, name)
	}
	w.Init.Fixed = fixed
	return nil
}

// setupWorld formats a disk and creates the fixed namespace.  With lowChildren, the inode numbers are
// arranged (placeholders, restart) so that objects created later in D0/D1 get smaller numbers than the directories.
func setupWorld(unstable bool, lowChildren bool, d *Disk) (*cWorld, error) {
	s := StartSrv(d, unstable, false)
	api := s.API()
	root := s.RootFH()
	w := &cWorld{S: s}
	mk := func(dir nt.Nfs_fh3, name string, isdir bool) (nt.Nfs_fh3, uint64, error) {
		if isdir {
			r := api.NFSPROC3_MKDIR(nt.MKDIR3args{Where: nt.Diropargs3{Dir: dir, Name: nt.Filename3(name)}})
			if r.Status != nt.NFS3_OK {
				return nt.Nfs_fh3{}, 0, fmt.Errorf("mkdir %s: %d", name, r.Status)
			}
			return r.Resok.Obj.Handle, uint64(r.Resok.Obj_attributes.Attributes.Fileid), nil
		}
		r := api.NFSPROC3_CREATE(nt.CREATE3args{Where: nt.Diropargs3{Dir: dir, Name: nt.Filename3(name)}})
		if r.Status != nt.NFS3_OK {
			return nt.Nfs_fh3{}, 0, fmt.Errorf("create %s: %d", name, r.Status)
		}
		return r.Resok.Obj.Handle, uint64(r.Resok.Obj_attributes.Attributes.Fileid), nil
	}
	var err error
	if lowChildren {
		// placeholders take the low numbers; the directories come after them; then the placeholders go away
		for i := 0; i < 12; i++ {
			if _, _, err = mk(root, fmt.Sprintf("ph%d", i), false); err != nil {
				return nil, err
			}
		}
	}
	w.Dirs[0] = root
	if w.Dirs[1], _, err = mk(root, "D0", true); err != nil {
		return nil, err
	}
	if w.Dirs[2], _, err = mk(root, "D1", true); err != nil {
		return nil, err
	}
	if w.Files[0], _, err = mk(root, "f0", false); err != nil {
		return nil, err
	}
	if w.Files[1], _, err = mk(root, "f1", false); err != nil {
		return nil, err
	}
	if lowChildren {
		for i := 0; i < 12; i++ {
			api.NFSPROC3_REMOVE(nt.REMOVE3args{Object: nt.Diropargs3{Dir: root, Name: nt.Filename3(fmt.Sprintf("ph%d", i))}})
		}
		s.Restart() // the allocator starts from the lowest free number again
	}
	w.Init = emptyCState()
	if fi := s.API().NFSPROC3_FSINFO(nt.FSINFO3args{Fsroot: root}); fi.Status == nt.NFS3_OK && fi.Resok.Rtmax > 0 {
		atomic.StoreUint64(&cRtMax, uint64(fi.Resok.Rtmax))
	}
	if pc := s.API().NFSPROC3_PATHCONF(nt.PATHCONF3args{Object: root}); pc.Status == nt.NFS3_OK && pc.Resok.Name_max > 0 {
		atomic.StoreUint64(&cNameMax, uint64(pc.Resok.Name_max))
	}
	return w, nil
}

// exec performs one operation through api.
func (w *cWorld) exec(api API, o cOp) cRes {
	dop := nt.Diropargs3{Dir: w.Dirs[o.Dir], Name: nt.Filename3(o.Name)}
	switch o.Kind {
	case "create":
		r := api.NFSPROC3_CREATE(nt.CREATE3args{Where: dop})
		return cRes{OK: r.Status == nt.NFS3_OK, Handle: string(r.Resok.Obj.Handle.Data), Fileid: uint64(r.Resok.Obj_attributes.Attributes.Fileid)}
	case "createlong":
		r := api.NFSPROC3_CREATE(nt.CREATE3args{Where: nt.Diropargs3{Dir: w.Dirs[o.Dir], Name: nt.Filename3(strings.Repeat("L", int(atomic.LoadUint64(&cNameMax))+60))}})
		return cRes{OK: r.Status == nt.NFS3_OK}
	case "renamelong":
		r := api.NFSPROC3_RENAME(nt.RENAME3args{From: dop, To: nt.Diropargs3{Dir: w.Dirs[o.Dir], Name: nt.Filename3(strings.Repeat("L", int(atomic.LoadUint64(&cNameMax))+40))}})
		return cRes{OK: r.Status == nt.NFS3_OK}
	case "mkdir":
		r := api.NFSPROC3_MKDIR(nt.MKDIR3args{Where: dop})
		return cRes{OK: r.Status == nt.NFS3_OK, Handle: string(r.Resok.Obj.Handle.Data), Fileid: uint64(r.Resok.Obj_attributes.Attributes.Fileid)}
	case "remove":
		return cRes{OK: api.NFSPROC3_REMOVE(nt.REMOVE3args{Object: dop}).Status == nt.NFS3_OK}
	case "rmdir":
		return cRes{OK: api.NFSPROC3_RMDIR(nt.RMDIR3args{Object: dop}).Status == nt.NFS3_OK}
	case "rename":
		r := api.NFSPROC3_RENAME(nt.RENAME3args{From: dop, To: nt.Diropargs3{Dir: w.Dirs[o.Dir2], Name: nt.Filename3(o.Name2)}})
		return cRes{OK: r.Status == nt.NFS3_OK}
	case "lookup":
		r := api.NFSPROC3_LOOKUP(nt.LOOKUP3args{What: dop})
		return cRes{OK: r.Status == nt.NFS3_OK, Handle: string(r.Resok.Object.Data), Fileid: uint64(r.Resok.Obj_attributes.Attributes.Fileid), Ftype: r.Resok.Obj_attributes.Attributes.Ftype}
	case "readdir":
		r := api.NFSPROC3_READDIR(nt.READDIR3args{Dir: w.Dirs[o.Dir], Count: 65536})
		var names []string
		for e := r.Resok.Reply.Entries; e != nil; e = e.Nextentry {
			names = append(names, string(e.Name))
		}
		sort.Strings(names)
		return cRes{OK: r.Status == nt.NFS3_OK && r.Resok.Reply.Eof, Names: strings.Join(names, ",")}
	case "readdirplus":
		r := api.NFSPROC3_READDIRPLUS(nt.READDIRPLUS3args{Dir: w.Dirs[o.Dir], Dircount: 65536, Maxcount: 65536})
		var names, sizes, handles []string
		var res cRes
		for e := r.Resok.Reply.Entries; e != nil; e = e.Nextentry {
			n := string(e.Name)
			names = append(names, n)
			if n == "a" && o.Dir != 0 && e.Name_attributes.Attributes_follow {
				res.AHas, res.ASize, res.AMtime = true, uint64(e.Name_attributes.Attributes.Size), uint32(e.Name_attributes.Attributes.Mtime.Seconds)
			}
			switch {
			case n == "f1":
				St.ClassN("readdirplus_sizes_of_a_second_file_not_judged_KF4", 1)
			case n == "f0":
				sizes = append(sizes, fmt.Sprintf("%s=%d", n, e.Name_attributes.Attributes.Size))
			case n == "a" || n == "b" || n == "c" || n == "x" || n == "y":
				handles = append(handles, fmt.Sprintf("%s=%x", n, e.Name_handle.Handle.Data))
			}
		}
		sort.Strings(names)
		sort.Strings(sizes)
		sort.Strings(handles)
		res.OK, res.Names, res.Plus = r.Status == nt.NFS3_OK && r.Resok.Reply.Eof, strings.Join(names, ","), strings.Join(append(sizes, handles...), ",")
		return res
	case "sweep":
		// every extra file once, starting at a position of the operation's choosing (clients walk in different phases)
		ok := true
		for i := range w.Extra {
			k := (i + int(o.Off)) % len(w.Extra)
			// the handle answers, and with the object it was issued for (nobody changes these files)
			r := api.NFSPROC3_GETATTR(nt.GETATTR3args{Object: w.Extra[k]})
			if r.Status != nt.NFS3_OK || uint64(r.Resok.Obj_attributes.Fileid) != w.ExtraIDs[k] || r.Resok.Obj_attributes.Size != 0 || r.Resok.Obj_attributes.Ftype != nt.NF3REG {
				ok = false
			}
		}
		return cRes{OK: ok}
	case "getattr":
		r := api.NFSPROC3_GETATTR(nt.GETATTR3args{Object: w.Files[o.File]})
		return cRes{OK: r.Status == nt.NFS3_OK, Size: uint64(r.Resok.Obj_attributes.Size)}
	case "read":
		r := api.NFSPROC3_READ(nt.READ3args{File: w.Files[o.File], Offset: nt.Offset3(o.Off), Count: nt.Count3(o.Cnt)})
		return cRes{OK: r.Status == nt.NFS3_OK, Data: string(r.Resok.Data), Eof: r.Resok.Eof}
	case "write":
		buf := []byte(o.Data)
		r := api.NFSPROC3_WRITE(nt.WRITE3args{File: w.Files[o.File], Offset: nt.Offset3(o.Off), Count: nt.Count3(len(o.Data)), Stable: o.Stable, Data: buf})
		scribble(buf)
		return cRes{OK: r.Status == nt.NFS3_OK, Cnt: uint32(r.Resok.Count), Size: uint64(r.Resok.File_wcc.After.Attributes.Size)}
	case "setattr":
		r := api.NFSPROC3_SETATTR(nt.SETATTR3args{Object: w.Files[o.File], New_attributes: nt.Sattr3{Size: nt.Set_size3{Set_it: true, Size: nt.Size3(o.Size)}}})
		return cRes{OK: r.Status == nt.NFS3_OK, Size: uint64(r.Resok.Obj_wcc.After.Attributes.Size)}
	case "getattrh":
		r := api.NFSPROC3_GETATTR(nt.GETATTR3args{Object: nt.Nfs_fh3{Data: []byte(o.H)}})
		return cRes{OK: r.Status == nt.NFS3_OK, Size: uint64(r.Resok.Obj_attributes.Size), Mtime: uint32(r.Resok.Obj_attributes.Mtime.Seconds)}
	case "setattrhm":
		r := api.NFSPROC3_SETATTR(nt.SETATTR3args{Object: nt.Nfs_fh3{Data: []byte(o.H)}, New_attributes: nt.Sattr3{Size: nt.Set_size3{Set_it: true, Size: nt.Size3(o.Size)},
			Mtime: nt.Set_mtime{Set_it: nt.SET_TO_CLIENT_TIME, Mtime: nt.Nfstime3{Seconds: nt.Uint32(o.Cnt)}}}})
		return cRes{OK: r.Status == nt.NFS3_OK, Size: uint64(r.Resok.Obj_wcc.After.Attributes.Size)}
	case "readh":
		r := api.NFSPROC3_READ(nt.READ3args{File: nt.Nfs_fh3{Data: []byte(o.H)}, Offset: nt.Offset3(o.Off), Count: nt.Count3(o.Cnt)})
		return cRes{OK: r.Status == nt.NFS3_OK, Data: string(r.Resok.Data), Eof: r.Resok.Eof}
	case "writeh":
		buf := []byte(o.Data)
		r := api.NFSPROC3_WRITE(nt.WRITE3args{File: nt.Nfs_fh3{Data: []byte(o.H)}, Offset: nt.Offset3(o.Off), Count: nt.Count3(len(o.Data)), Stable: o.Stable, Data: buf})
		scribble(buf)
		return cRes{OK: r.Status == nt.NFS3_OK, Cnt: uint32(r.Resok.Count), Size: uint64(r.Resok.File_wcc.After.Attributes.Size)}
	case "setattrh":
		r := api.NFSPROC3_SETATTR(nt.SETATTR3args{Object: nt.Nfs_fh3{Data: []byte(o.H)}, New_attributes: nt.Sattr3{Size: nt.Set_size3{Set_it: true, Size: nt.Size3(o.Size)}}})
		return cRes{OK: r.Status == nt.NFS3_OK, Size: uint64(r.Resok.Obj_wcc.After.Attributes.Size)}
	}
	panic("unknown op " + o.Kind)
}

type cGenCfg struct {
	Focus     bool // all clients work in one directory on two names and one file: maximal contention
	FocusDir  int
	DataOps   bool
	BigTrunc  bool // truncations large enough for the background shrinker
	NameOps   bool
	DirRename bool
	// RootPlus: READDIRPLUS of the root (the only directory all of whose entries come after it in the lock
	// order; READDIRPLUS of other directories is known finding KF1 and stays out of concurrent programs)
	RootPlus bool
	// Sweep: operations that look at every extra file (the world must have been given some with addExtras)
	Sweep bool
	// HandleOps: WRITE/READ/SETATTR/GETATTR through the handle the client last got from CREATE or LOOKUP of a
	// file name - a file that other clients may remove, replace by a RENAME or move meanwhile
	HandleOps bool
}

func genCOp(t *rapid.T, cfg cGenCfg, tag *uint32) cOp {
	kinds := []string{}
	if cfg.NameOps {
		kinds = append(kinds, "create", "create", "remove", "remove", "rename", "rename", "rename", "lookup", "lookup", "mkdir", "rmdir", "readdir")
		if cfg.RootPlus {
			kinds = append(kinds, "readdirplus")
		}
	}
	if cfg.Sweep {
		kinds = append(kinds, "sweep", "sweep", "sweep")
	}
	if cfg.DataOps {
		kinds = append(kinds, "write", "write", "read", "read", "setattr", "getattr")
	}
	if cfg.HandleOps {
		kinds = append(kinds, "writeh", "writeh", "writeh", "readh", "readh", "setattrh", "getattrh", "lookup", "create")
	}
	o := cOp{Kind: pick(t, kinds, "kind"), Dir: rapid.IntRange(0, 2).Draw(t, "dir"), File: rapid.IntRange(0, 1).Draw(t, "file")}
	if cfg.Focus {
		defer func(o *cOp) {
			if o.Kind == "readdirplus" || o.Kind == "sweep" {
				return
			}
			o.Dir, o.Dir2, o.File = cfg.FocusDir, cfg.FocusDir, 0
			for _, p := range []*string{&o.Name, &o.Name2} {
				if *p == "c" {
					*p = "a"
				}
				if *p == "y" {
					*p = "x"
				}
			}
		}(&o)
	}
	switch o.Kind {
	case "readdirplus":
		o.Dir = 0
	case "create", "remove", "lookup":
		o.Name = pick(t, cFileNames, "name")
		if o.Kind != "create" && rapid.IntRange(0, 4).Draw(t, "dirname") == 0 {
			o.Name = pick(t, cDirNames, "dname")
		}
	case "mkdir", "rmdir":
		o.Name = pick(t, cDirNames, "dname")
	case "rename":
		if cfg.DirRename && rapid.IntRange(0, 4).Draw(t, "dirrename") == 0 {
			// a directory is renamed in its parent or moved to another of the three directories (never into itself:
			// the programs create nothing inside x and y)
			o.Name, o.Name2, o.Dir2 = pick(t, cDirNames, "dfrom"), pick(t, cDirNames, "dto"), o.Dir
			if rapid.Bool().Draw(t, "dirmove") {
				o.Dir2 = rapid.IntRange(0, 2).Draw(t, "dir2")
			}
		} else {
			o.Name, o.Name2, o.Dir2 = pick(t, cFileNames, "from"), pick(t, cFileNames, "to"), rapid.IntRange(0, 2).Draw(t, "dir2")
		}
	case "write", "writeh":
		*tag++
		n := pick(t, []int{1, 10, 100, 4096, 5000}, "len")
		o.Off = uint64(pick(t, []int{0, 0, 1, 100, 4000, 4096}, "off"))
		if o.Off+uint64(n) > cPrefix {
			n = int(cPrefix - o.Off)
		}
		o.Data = string(patternData(*tag, uint64(n)))
		o.Stable = nt.Stable_how(rapid.IntRange(0, 2).Draw(t, "stable"))
	case "read", "readh":
		o.Off = uint64(pick(t, []int{0, 0, 1, 100, 4096, 5000, 9000}, "off"))
		o.Cnt = uint32(pick(t, []int{1, 100, 4096, 8192, 16384}, "cnt"))
	case "setattr", "setattrh":
		sizes := []uint64{0, 1, 100, 4096, 5000, 8192}
		if cfg.BigTrunc {
			sizes = append(sizes, 600*BlockSize, 1200*BlockSize)
		}
		o.Size = pick(t, sizes, "size")
	}
	return o
}

// pauseSpec: the Hook-th hook call (lock acquisition or commit point) made by client Client blocks
// until all other clients have finished their programs, or MaxWait has passed (they may need its locks).
type pauseSpec struct {
	Client  int
	Hook    int
	MaxWait time.Duration
	// Disk: the client is held at its Hook-th access to the device (start of a read or write, data of a read
	// fetched) instead of its Hook-th lock/commit/abort point - the places in the middle of a request
	Disk bool
}

func goid() uint64 {
	var buf [64]byte
	n := runtime.Stack(buf[:], false)
	// "goroutine 123 [running]:"
	var id uint64
	for _, c := range buf[10:n] {
		if c < '0' || c > '9' {
			break
		}
		id = id*10 + uint64(c-'0')
	}
	return id
}

type cRun struct {
	Slow        bool // the harness could not finish the run in time; not judged
	Paused      bool // the pause point was reached
	HungInFinal bool // the concurrent phase ended, the sequential final observation did not
	Ops         []porcupine.Operation
	Hung        bool
	Dump        string
	Panic       string
	Duration    time.Duration
}

// runConcurrent executes the programs with one goroutine per client and appends a final observation.
func (w *cWorld) runConcurrent(progs [][]cOp, yieldSeed uint64, viaRPC bool, watchdog time.Duration, pause *pauseSpec) cRun {
	return w.runConcurrentFrom(progs, yieldSeed, viaRPC, watchdog, pause, 0)
}

func (w *cWorld) runConcurrentFrom(progs [][]cOp, yieldSeed uint64, viaRPC bool, watchdog time.Duration, pause *pauseSpec, clock0 int64) cRun {
	// (the helper goroutine of a device-access pause reports through an atomic: it may still be running when the run returns)
	var diskPaused atomic.Bool
	run := w.runConcurrentFrom1(progs, yieldSeed, viaRPC, watchdog, pause, clock0, &diskPaused)
	if diskPaused.Load() {
		run.Paused = true
	}
	return run
}

func (w *cWorld) runConcurrentFrom1(progs [][]cOp, yieldSeed uint64, viaRPC bool, watchdog time.Duration, pause *pauseSpec, clock0 int64, diskPaused *atomic.Bool) cRun {
	clock := clock0
	var mu sync.Mutex
	var ops []porcupine.Operation
	mon := w.S.Mon()
	var run cRun
	var clients sync.Map // goroutine id -> client
	othersDone := make(chan struct{})
	reached := make(chan struct{}) // closed when the held client is at its pause point (or has finished)
	var reachedOnce sync.Once
	var finished int32
	var dp *DiskPause
	if pause != nil && pause.Disk {
		dp = NewDiskPause(pause.Hook, pause.MaxWait)
		w.S.D.SetHook(dp.Hook)
		defer w.S.D.SetHook(nil)
		go func() {
			select {
			case <-dp.Reached():
				diskPaused.Store(dp.Paused.Load())
				reachedOnce.Do(func() { close(reached) })
			case <-othersDone:
			}
		}()
		go func() { <-othersDone; dp.Release() }()
	} else if pause != nil {
		var hooks [8]int32
		var once sync.Once
		mon.SetYield(func(point string) {
			c, ok := clients.Load(goid())
			if !ok || c.(int) != pause.Client {
				return
			}
			if int(atomic.AddInt32(&hooks[pause.Client], 1))-1 != pause.Hook {
				return
			}
			once.Do(func() {
				run.Paused = true
				reachedOnce.Do(func() { close(reached) })
				select {
				case <-othersDone:
				case <-time.After(pause.MaxWait):
				}
			})
		})
	} else if yieldSeed != 0 {
		var n uint64
		mon.SetYield(func(point string) {
			k := atomic.AddUint64(&n, 1)
			h := Hash(yieldSeed, k)
			switch {
			case h%3 == 0:
				for i := uint64(0); i < 1+(h>>8)%3; i++ {
					runtime.Gosched()
				}
			case h%13 == 1:
				// long enough for other clients to complete whole requests in the window
				time.Sleep(time.Duration(50+(h>>8)%400) * time.Microsecond)
			}
		})
	}
	t0 := time.Now()
	txnCount := func() int64 { return atomic.LoadInt64(&mon.Begun) }
	o := GuardTxn(watchdog, func() {
		var wg sync.WaitGroup
		for c := range progs {
			wg.Add(1)
			api := w.S.API()
			if viaRPC {
				api = w.S.NewRPCClient()
			}
			go func(c int, api API) {
				clients.Store(goid(), c)
				if dp != nil && c == pause.Client {
					dp.Enter()
					defer dp.Reach()
				}
				defer wg.Done()
				defer func() {
					if pause != nil && c != pause.Client {
						if int(atomic.AddInt32(&finished, 1)) == len(progs)-1 {
							close(othersDone)
						}
					}
					if pause != nil && c == pause.Client {
						reachedOnce.Do(func() { close(reached) })
					}
				}()
				if pause != nil && c != pause.Client {
					<-reached // the others run while the held client sits at its pause point
				}
				defer func() {
					if r := recover(); r != nil {
						mu.Lock()
						run.Panic = fmt.Sprintf("client %d: %v", c, r)
						mu.Unlock()
					}
				}()
				cur := "" // the handle this client last got from CREATE or LOOKUP of a file name
				for _, op := range progs[c] {
					if (strings.HasSuffix(op.Kind, "h") || op.Kind == "setattrhm") && op.H == "" {
						if cur == "" {
							continue
						}
						op.H = cur
					}
					call := atomic.AddInt64(&clock, 1)
					res := w.exec(api, op)
					ret := atomic.AddInt64(&clock, 1)
					if res.OK && (op.Kind == "create" || (op.Kind == "lookup" && !isDirName(op.Name))) {
						cur = res.Handle
					}
					mu.Lock()
					ops = append(ops, porcupine.Operation{ClientId: c, Input: op, Call: call, Output: res, Return: ret})
					mu.Unlock()
				}
			}(c, api)
		}
		wg.Wait()
	}, txnCount)
	mon.SetYield(nil)
	run.Duration = time.Since(t0)
	if o.Slow {
		run.Slow = true
		return run
	}
	if o.Hung {
		run.Hung, run.Dump = true, o.Stack
		mu.Lock()
		run.Ops = append([]porcupine.Operation{}, ops...)
		mu.Unlock()
		return run
	}
	if o.Panic != "" {
		run.Panic = o.Panic + "\n" + o.Stack
	}
	// final observation, after all clients have returned
	api := w.S.API()
	obs := len(progs)
	final := func(op cOp) cRes {
		op.MayFail = w.FullDisk
		call := atomic.AddInt64(&clock, 1)
		res := w.exec(api, op)
		ops = append(ops, porcupine.Operation{ClientId: obs, Input: op, Call: call, Output: res, Return: atomic.AddInt64(&clock, 1)})
		return res
	}
	fo := GuardTxn(watchdog, func() {
		final(cOp{Kind: "readdirplus", Dir: 0})
		for d := 0; d < 3; d++ {
			final(cOp{Kind: "readdir", Dir: d})
			for _, n := range append(append([]string{}, cFileNames...), cDirNames...) {
				if r := final(cOp{Kind: "lookup", Dir: d, Name: n}); r.OK && !isDirName(n) {
					// the files the programs created: size and bytes as the last writer left them
					final(cOp{Kind: "getattrh", H: r.Handle})
					final(cOp{Kind: "readh", H: r.Handle, Off: 0, Cnt: 16384})
				}
			}
		}
		for f := 0; f < 2; f++ {
			final(cOp{Kind: "getattr", File: f})
			final(cOp{Kind: "read", File: f, Off: 0, Cnt: 16384})
		}
	}, txnCount)
	if fo.Slow {
		run.Slow = true
		return run
	}
	if fo.Hung {
		run.Hung, run.HungInFinal, run.Dump = true, true, fo.Stack
	}
	run.Ops = ops
	return run
}

// conflicting counts pairs of operations of different clients that overlap in time and touch a common name or file.
func conflicting(ops []porcupine.Operation) int {
	touch := func(o cOp) []string {
		switch o.Kind {
		case "write", "read", "setattr", "getattr":
			return []string{fmt.Sprintf("f%d", o.File)}
		case "writeh", "readh", "setattrh", "getattrh", "setattrhm":
			return []string{"h:" + o.H}
		case "rename":
			return []string{fmt.Sprintf("%d/%s", o.Dir, o.Name), fmt.Sprintf("%d/%s", o.Dir2, o.Name2)}
		case "readdir":
			return []string{fmt.Sprintf("%d/*", o.Dir)}
		case "readdirplus":
			return []string{fmt.Sprintf("%d/*", o.Dir), "f0", "f1"}
		case "sweep":
			return nil
		}
		return []string{fmt.Sprintf("%d/%s", o.Dir, o.Name)}
	}
	n := 0
	for i := range ops {
		for j := i + 1; j < len(ops); j++ {
			a, b := ops[i], ops[j]
			if a.ClientId == b.ClientId || !(a.Call < b.Return && b.Call < a.Return) {
				continue
			}
			for _, x := range touch(a.Input.(cOp)) {
				for _, y := range touch(b.Input.(cOp)) {
					if x == y || (strings.HasSuffix(x, "/*") && strings.HasPrefix(y, x[:2])) || (strings.HasSuffix(y, "/*") && strings.HasPrefix(x, y[:2])) {
						n++
					}
				}
			}
		}
	}
	return n
}

func describeHistory(ops []porcupine.Operation) []string {
	sorted := append([]porcupine.Operation{}, ops...)
	sort.Slice(sorted, func(i, j int) bool { return sorted[i].Call < sorted[j].Call })
	var out []string
	for _, o := range sorted {
		out = append(out, fmt.Sprintf("client %d [%d,%d] %s", o.ClientId, o.Call, o.Return, cModel.DescribeOperation(o.Input, o.Output)))
	}
	return out
}

// lockWaiters counts goroutines blocked in the inode lock table in a goroutine dump.
func lockWaiters(dump string) int {
	return strings.Count(dump, "lockmap.(*lockShard).acquire")
}

// fillWorld writes filler files into the root until exactly free blocks are left.
func fillWorld(w *cWorld, free uint64) error {
	api := w.S.API()
	fs := w.S.N.VerifFsState()
	blk := patternData(77, BlockSize)
	for i := 0; i < 10; i++ {
		r := api.NFSPROC3_CREATE(nt.CREATE3args{Where: nt.Diropargs3{Dir: w.Dirs[0], Name: nt.Filename3(fmt.Sprintf("fill%d", i))}})
		if r.Status != nt.NFS3_OK {
			return fmt.Errorf("create filler: %d", r.Status)
		}
		for b := uint64(0); b < 8; b++ {
			if fs.Balloc.NumFree() <= free {
				return nil
			}
			wr := api.NFSPROC3_WRITE(nt.WRITE3args{File: r.Resok.Obj.Handle, Offset: nt.Offset3(b * BlockSize), Count: BlockSize, Stable: nt.FILE_SYNC, Data: blk})
			if wr.Status != nt.NFS3_OK {
				return fmt.Errorf("filler write: %d", wr.Status)
			}
		}
		if fs.Balloc.NumFree() <= free {
			return nil
		}
	}
	return fmt.Errorf("still %d blocks free", fs.Balloc.NumFree())
}

func fillCount(w *cWorld) int {
	n := 0
	for i := 0; i < 10; i++ {
		r := w.S.API().NFSPROC3_LOOKUP(nt.LOOKUP3args{What: nt.Diropargs3{Dir: w.Dirs[0], Name: nt.Filename3(fmt.Sprintf("fill%d", i))}})
		if r.Status == nt.NFS3_OK {
			n++
		}
	}
	return n
}
