package checks

// Plain regression checks: the minimised inputs of defects that were found by the generated checks and
// repaired with "fix:" commits (KNOWN_FINDINGS.json, status fixed).  They bypass the property library: each is
// a fixed request sequence against the real server with the oracle of the property it belongs to.  A fixed
// entry suppresses nothing - if the defect returns, these report it in a second.

import (
	"bytes"
	"fmt"
	"strings"
	"testing"
	"time"

	nt "github.com/mit-pdos/go-nfsd/nfstypes"
	"github.com/mit-pdos/go-nfsd/simple"
)

type rg struct {
	t    *testing.T
	prop string
	d    *Disk
	s    *Srv
	api  API
	root nt.Nfs_fh3
	what string
}

func newRg(t *testing.T, prop, what string, blocks uint64) *rg {
	d := NewDisk(blocks)
	s := StartSrv(d, true, false)
	return &rg{t: t, prop: prop, d: d, s: s, api: s.API(), root: s.RootFH(), what: what}
}

func (r *rg) fail(format string, a ...any) {
	msg := r.what + ": " + fmt.Sprintf(format, a...)
	St.Violation(r.prop, msg, map[string]any{"regression": r.what})
	r.t.Fatalf("%s: %s", r.prop, msg)
}

// call runs f under the panic/hang guard.
func (r *rg) call(f func()) {
	o := Guard(30*time.Second, f)
	if o.Slow {
		r.t.Skip("machine too slow")
	}
	if o.Bad() {
		r.fail("%v", o)
	}
}

func (r *rg) done() {
	r.s.Stop()
	St.Eval(1)
	St.NT(Hash("regress", r.prop, r.what))
}

func (r *rg) create(dir nt.Nfs_fh3, name string) nt.Nfs_fh3 {
	c := r.api.NFSPROC3_CREATE(nt.CREATE3args{Where: nt.Diropargs3{Dir: dir, Name: nt.Filename3(name)}})
	if c.Status != nt.NFS3_OK {
		r.fail("CREATE %s: %d", name, c.Status)
	}
	return c.Resok.Obj.Handle
}

func (r *rg) mkdir(dir nt.Nfs_fh3, name string) nt.Nfs_fh3 {
	c := r.api.NFSPROC3_MKDIR(nt.MKDIR3args{Where: nt.Diropargs3{Dir: dir, Name: nt.Filename3(name)}})
	if c.Status != nt.NFS3_OK {
		r.fail("MKDIR %s: %d", name, c.Status)
	}
	return c.Resok.Obj.Handle
}

func (r *rg) write(fh nt.Nfs_fh3, off uint64, data []byte, how nt.Stable_how) nt.WRITE3res {
	return r.api.NFSPROC3_WRITE(nt.WRITE3args{File: fh, Offset: nt.Offset3(off), Count: nt.Count3(len(data)), Stable: how, Data: data})
}

func (r *rg) setsize(fh nt.Nfs_fh3, sz uint64) nt.Nfsstat3 {
	return r.api.NFSPROC3_SETATTR(nt.SETATTR3args{Object: fh, New_attributes: nt.Sattr3{Size: nt.Set_size3{Set_it: true, Size: nt.Size3(sz)}}}).Status
}

func (r *rg) read(fh nt.Nfs_fh3, off uint64, cnt uint32) []byte {
	rd := r.api.NFSPROC3_READ(nt.READ3args{File: fh, Offset: nt.Offset3(off), Count: nt.Count3(cnt)})
	if rd.Status != nt.NFS3_OK {
		r.fail("READ: %d", rd.Status)
	}
	return rd.Resok.Data
}

// crashNow: a new server on the device as it is at this moment, un-barriered writes lost.
func (r *rg) crashNow() *Srv {
	k := r.d.Mark()
	tr := r.d.Trace()
	drop := map[int]bool{}
	for _, i := range Pending(tr, k) {
		drop[i] = true
	}
	img := ImageOf(r.d.size, r.d.init, tr, k, drop)
	img.SetRecord(false)
	return StartSrv(img, true, false)
}

func TestRegressC07(t *testing.T) {
	// 2ce9649: COMMIT after a request the journal refused
	r := newRg(t, "C07", "UNSTABLE WRITE b; SYMLINK with a 600-block target (refused by the journal); COMMIT b; crash", 1540+3000)
	fh := r.create(r.root, "b")
	if w := r.write(fh, 0, patternData(1, 5000), nt.UNSTABLE); w.Status != nt.NFS3_OK {
		r.fail("WRITE: %d", w.Status)
	}
	r.call(func() {
		r.api.NFSPROC3_SYMLINK(nt.SYMLINK3args{Where: nt.Diropargs3{Dir: r.root, Name: "l"}, Symlink: nt.Symlinkdata3{Symlink_data: nt.Nfspath3(bytes.Repeat([]byte("t"), 600*BlockSize))}})
	})
	cm := r.api.NFSPROC3_COMMIT(nt.COMMIT3args{File: fh})
	if cm.Status == nt.NFS3_OK {
		s2 := r.crashNow()
		g := s2.API().NFSPROC3_GETATTR(nt.GETATTR3args{Object: fh})
		s2.Stop()
		if g.Status != nt.NFS3_OK || g.Resok.Obj_attributes.Size != 5000 {
			r.fail("COMMIT answered OK, but after a crash at that moment the file has size %d (status %d), not 5000: committed data lost", g.Resok.Obj_attributes.Size, g.Status)
		}
	}
	r.done()

	// 4f57572: the write verifier is not constant across server instances
	r = newRg(t, "C07", "write verifier of two server instances", 1540+300)
	fh = r.create(r.root, "v")
	v1 := r.write(fh, 0, []byte("x"), nt.UNSTABLE).Resok.Verf
	r.s.Restart()
	v2 := r.s.API().NFSPROC3_WRITE(nt.WRITE3args{File: fh, Offset: 0, Count: 1, Stable: nt.UNSTABLE, Data: []byte("y")}).Resok.Verf
	if v1 == v2 {
		r.fail("the write verifier is %v in both server instances: a client cannot tell that unstable data may be gone", v1)
	}
	r.done()
}

func TestRegressC11(t *testing.T) {
	type probe struct {
		what string
		f    func(r *rg)
	}
	probes := []probe{
		{"REMOVE and RMDIR of '.'", func(r *rg) {
			r.api.NFSPROC3_REMOVE(nt.REMOVE3args{Object: nt.Diropargs3{Dir: r.root, Name: "."}})
			r.api.NFSPROC3_RMDIR(nt.RMDIR3args{Object: nt.Diropargs3{Dir: r.root, Name: "."}})
		}},
		{"handles of 0..15 bytes and an inode number beyond the table", func(r *rg) {
			for n := 0; n < 16; n++ {
				h := nt.Nfs_fh3{Data: bytes.Repeat([]byte{1}, n)}
				r.api.NFSPROC3_GETATTR(nt.GETATTR3args{Object: h})
				r.api.NFSPROC3_LOOKUP(nt.LOOKUP3args{What: nt.Diropargs3{Dir: h, Name: "a"}})
				r.api.NFSPROC3_READ(nt.READ3args{File: h, Count: 10})
			}
			big := append([]byte{}, r.root.Data...)
			for i := 0; i < 8; i++ {
				big[i] = 0x7f
			}
			r.api.NFSPROC3_GETATTR(nt.GETATTR3args{Object: nt.Nfs_fh3{Data: big}})
		}},
		{"WRITE at offset 2^64-10, SETATTR size 2^50 then READ", func(r *rg) {
			fh := r.create(r.root, "f")
			r.write(fh, ^uint64(0)-10, patternData(1, 100), nt.FILE_SYNC)
			r.setsize(fh, 1<<50)
			r.api.NFSPROC3_READ(nt.READ3args{File: fh, Offset: 1 << 40, Count: 4096})
		}},
		{"READDIR with a cookie that is not an entry boundary", func(r *rg) {
			r.create(r.root, "f")
			for _, c := range []uint64{1, 100, 129, 1 << 40, ^uint64(0)} {
				r.api.NFSPROC3_READDIR(nt.READDIR3args{Dir: r.root, Cookie: nt.Cookie3(c), Count: 4096})
				r.api.NFSPROC3_READDIRPLUS(nt.READDIRPLUS3args{Dir: r.root, Cookie: nt.Cookie3(c), Dircount: 4096, Maxcount: 4096})
			}
		}},
		{"WRITE whose count exceeds the data", func(r *rg) {
			fh := r.create(r.root, "f")
			r.api.NFSPROC3_WRITE(nt.WRITE3args{File: fh, Offset: 0, Count: 8192, Stable: nt.FILE_SYNC, Data: patternData(1, 100)})
		}},
		{"RENAME to '.' and '..', and with one directory under two generations", func(r *rg) {
			r.create(r.root, "f")
			d := r.mkdir(r.root, "d")
			r.api.NFSPROC3_RENAME(nt.RENAME3args{From: nt.Diropargs3{Dir: r.root, Name: "f"}, To: nt.Diropargs3{Dir: r.root, Name: "."}})
			r.api.NFSPROC3_RENAME(nt.RENAME3args{From: nt.Diropargs3{Dir: r.root, Name: "f"}, To: nt.Diropargs3{Dir: d, Name: ".."}})
			forged := append([]byte{}, d.Data...)
			forged[8]++
			r.api.NFSPROC3_RENAME(nt.RENAME3args{From: nt.Diropargs3{Dir: d, Name: "x"}, To: nt.Diropargs3{Dir: nt.Nfs_fh3{Data: forged}, Name: "y"}})
			// the directory lock must be free again
			r.api.NFSPROC3_LOOKUP(nt.LOOKUP3args{What: nt.Diropargs3{Dir: d, Name: "x"}})
			r.api.NFSPROC3_LOOKUP(nt.LOOKUP3args{What: nt.Diropargs3{Dir: r.root, Name: "f"}})
		}},
		{"READ of 4 GB from a sparse file of maximal size", func(r *rg) {
			fh := r.create(r.root, "f")
			r.setsize(fh, (8+512+512*512)*BlockSize)
			var m memProbe
			m.start()
			r.api.NFSPROC3_READ(nt.READ3args{File: fh, Offset: 0, Count: ^nt.Count3(0)})
			if mb := m.allocatedMB(); mb > c11MemLimitMB {
				r.fail("one READ made the server allocate %.0f MB", mb)
			}
		}},
	}
	for _, p := range probes {
		r := newRg(t, "C11", p.what, 1540+2000)
		r.call(func() { p.f(r) })
		// still serving
		r.call(func() {
			if g := r.api.NFSPROC3_GETATTR(nt.GETATTR3args{Object: r.root}); g.Status != nt.NFS3_OK {
				r.fail("GETATTR of the root afterwards: %d", g.Status)
			}
		})
		r.done()
	}
}

func TestRegressC12(t *testing.T) {
	// 32c873d / 5176d44: unaligned shrink, then growth
	for _, c := range [][2]uint64{{8192, 4196}, {5000, 4000}, {3 * 4096, 100}, {530 * 4096, 521*4096 + 7}} {
		r := newRg(t, "C12", fmt.Sprintf("file of %d bytes cut to %d and grown again", c[0], c[1]), 1540+1500)
		fh := r.create(r.root, "f")
		for off := uint64(0); off < c[0]; off += 64 * BlockSize {
			n := c[0] - off
			if n > 64*BlockSize {
				n = 64 * BlockSize
			}
			if w := r.write(fh, off, patternData(7, n), nt.FILE_SYNC); w.Status != nt.NFS3_OK {
				r.fail("WRITE: %d", w.Status)
			}
		}
		r.setsize(fh, c[1])
		r.setsize(fh, c[0])
		lo := c[1] - c[1]%BlockSize
		data := r.read(fh, lo, 3*BlockSize)
		for i, b := range data {
			if lo+uint64(i) >= c[1] && b != 0 {
				r.fail("byte %d was cut off and must read as zero, but reads %#x", lo+uint64(i), b)
			}
		}
		r.done()
	}
}

func TestRegressC02(t *testing.T) {
	// d1bcff7: SETATTR(size) on a directory
	r := newRg(t, "C02", "SETATTR size=0 on a directory with entries", 1540+300)
	d := r.mkdir(r.root, "d")
	r.create(d, "a")
	if st := r.setsize(d, 0); st == nt.NFS3_OK {
		r.fail("SETATTR size=0 on a directory answered OK")
	}
	r.s.Restart()
	if l := r.s.API().NFSPROC3_LOOKUP(nt.LOOKUP3args{What: nt.Diropargs3{Dir: d, Name: "a"}}); l.Status != nt.NFS3_OK {
		r.fail("after the refused SETATTR and a restart, d/a is gone (LOOKUP %d)", l.Status)
	}
	r.done()
	// bc5f957 (through the transport): WRITE keeps no reference to the request buffer
	r = newRg(t, "C02", "two WRITEs through the RPC transport, then READ of the first", 1540+300)
	rpc := r.s.NewRPCClient()
	c := rpc.NFSPROC3_CREATE(nt.CREATE3args{Where: nt.Diropargs3{Dir: r.root, Name: "f"}})
	g := rpc.NFSPROC3_CREATE(nt.CREATE3args{Where: nt.Diropargs3{Dir: r.root, Name: "g"}})
	rpc.NFSPROC3_WRITE(nt.WRITE3args{File: c.Resok.Obj.Handle, Offset: 0, Count: 4096, Stable: nt.UNSTABLE, Data: patternData(1, 4096)})
	rpc.NFSPROC3_WRITE(nt.WRITE3args{File: g.Resok.Obj.Handle, Offset: 0, Count: 4096, Stable: nt.UNSTABLE, Data: patternData(2, 4096)})
	rd := rpc.NFSPROC3_READ(nt.READ3args{File: c.Resok.Obj.Handle, Offset: 0, Count: 4096})
	if !bytes.Equal(rd.Resok.Data, patternData(1, 4096)) {
		r.fail("the first file does not hold what was written to it")
	}
	r.done()
	// former known finding KF2: a directory moved to another parent takes its ".." along (also over an existing empty directory)
	r = newRg(t, "C02", "MKDIR a, b, a/s, b/t; RENAME a/s -> b/s; RENAME b/s -> a/t2; RENAME a/t2 -> b/t (over an empty directory)", 1540+300)
	a, b := r.mkdir(r.root, "a"), r.mkdir(r.root, "b")
	sdir := r.mkdir(a, "s")
	r.mkdir(b, "t")
	r.create(sdir, "inside")
	dotdot := func(what string, parent nt.Nfs_fh3) {
		l := r.s.API().NFSPROC3_LOOKUP(nt.LOOKUP3args{What: nt.Diropargs3{Dir: sdir, Name: ".."}})
		if l.Status != nt.NFS3_OK || !bytes.Equal(l.Resok.Object.Data, parent.Data) {
			r.fail("%s: LOOKUP '..' in the moved directory gives status %d handle %x, its parent is %x", what, l.Status, l.Resok.Object.Data, parent.Data)
		}
		r.s.Quiesce()
		if rep := Fsck(r.s.N.VerifFsState(), FsckOpts{Exact: true, Allocators: true}); len(rep.Problems) > 0 {
			r.fail("%s: fsck: %v", what, rep.Problems)
		}
	}
	mv := func(fd nt.Nfs_fh3, fn string, td nt.Nfs_fh3, tn string) {
		if st := r.s.API().NFSPROC3_RENAME(nt.RENAME3args{From: nt.Diropargs3{Dir: fd, Name: nt.Filename3(fn)}, To: nt.Diropargs3{Dir: td, Name: nt.Filename3(tn)}}).Status; st != nt.NFS3_OK {
			r.fail("RENAME %s -> %s: status %d", fn, tn, st)
		}
	}
	mv(a, "s", b, "s")
	dotdot("after RENAME a/s -> b/s", b)
	r.s.Restart()
	dotdot("after a restart", b)
	mv(b, "s", a, "t2")
	dotdot("after RENAME b/s -> a/t2", a)
	mv(a, "t2", b, "t")
	dotdot("after RENAME a/t2 -> b/t over an empty directory", b)
	if st := r.s.API().NFSPROC3_RMDIR(nt.RMDIR3args{Object: nt.Diropargs3{Dir: r.root, Name: "a"}}).Status; st != nt.NFS3_OK {
		r.fail("RMDIR of the now empty directory a: status %d", st)
	}
	dotdot("after RMDIR a", b)
	r.done()
}

func TestRegressC05(t *testing.T) {
	// 2838ba9: link counts of nested directories; 4d57708: REMOVE of a non-empty directory
	r := newRg(t, "C05", "mkdir d, mkdir d/s, rmdir d/s, rmdir d", 1540+300)
	d := r.mkdir(r.root, "d")
	r.mkdir(d, "s")
	r.api.NFSPROC3_RMDIR(nt.RMDIR3args{Object: nt.Diropargs3{Dir: d, Name: "s"}})
	r.api.NFSPROC3_RMDIR(nt.RMDIR3args{Object: nt.Diropargs3{Dir: r.root, Name: "d"}})
	r.s.Quiesce()
	rep := Fsck(r.s.N.VerifFsState(), FsckOpts{Exact: true, Allocators: true})
	if rep.MarkedInos != 1 {
		r.fail("%d inodes are in use besides the root after removing everything", rep.MarkedInos-1)
	}
	if len(rep.Problems) > 0 {
		r.fail("fsck: %v", rep.Problems)
	}
	r.done()
	r = newRg(t, "C05", "REMOVE of a non-empty directory", 1540+300)
	d = r.mkdir(r.root, "d")
	r.create(d, "a")
	if st := r.api.NFSPROC3_REMOVE(nt.REMOVE3args{Object: nt.Diropargs3{Dir: r.root, Name: "d"}}).Status; st == nt.NFS3_OK {
		r.fail("REMOVE of a directory that still has an entry answered OK (the entry's inode and blocks are orphaned)")
	}
	r.done()
}

func TestRegressC08(t *testing.T) {
	// 42122b1: ACCESS/FSINFO/PATHCONF look at the handle; 92e52bb: RENAME into a dead directory handle
	r := newRg(t, "C08", "handle of a removed directory whose inode number is in use again", 1540+300)
	d := r.mkdir(r.root, "d")
	r.api.NFSPROC3_RMDIR(nt.RMDIR3args{Object: nt.Diropargs3{Dir: r.root, Name: "d"}})
	r.s.Restart()
	r.api = r.s.API()
	r.mkdir(r.root, "e") // takes the number again
	r.create(r.root, "f")
	if st := r.api.NFSPROC3_ACCESS(nt.ACCESS3args{Object: d, Access: 0x3f}).Status; st != nt.NFS3ERR_STALE {
		r.fail("ACCESS with the dead handle: %d", st)
	}
	if st := r.api.NFSPROC3_FSINFO(nt.FSINFO3args{Fsroot: d}).Status; st != nt.NFS3ERR_STALE {
		r.fail("FSINFO with the dead handle: %d", st)
	}
	if st := r.api.NFSPROC3_PATHCONF(nt.PATHCONF3args{Object: d}).Status; st != nt.NFS3ERR_STALE {
		r.fail("PATHCONF with the dead handle: %d", st)
	}
	if st := r.api.NFSPROC3_RENAME(nt.RENAME3args{From: nt.Diropargs3{Dir: r.root, Name: "f"}, To: nt.Diropargs3{Dir: d, Name: "f"}}).Status; st != nt.NFS3ERR_STALE {
		r.fail("RENAME into the dead directory handle: %d", st)
	}
	if st := r.api.NFSPROC3_LOOKUP(nt.LOOKUP3args{What: nt.Diropargs3{Dir: r.root, Name: "f"}}).Status; st != nt.NFS3_OK {
		r.fail("the file is no longer where it was: LOOKUP %d", st)
	}
	r.done()
}

func TestRegressC13(t *testing.T) {
	// 93b0935: a page that holds one entry must make progress
	r := newRg(t, "C13", "READDIR with a count that fits one entry per page", 1540+300)
	for i := 0; i < 5; i++ {
		r.create(r.root, fmt.Sprintf("n%d", i))
	}
	seen := map[string]int{}
	var cookie nt.Cookie3
	for page := 0; page < 40; page++ {
		rd := r.api.NFSPROC3_READDIR(nt.READDIR3args{Dir: r.root, Cookie: cookie, Count: 100})
		if rd.Status != nt.NFS3_OK {
			r.fail("READDIR: %d", rd.Status)
		}
		for e := rd.Resok.Reply.Entries; e != nil; e = e.Nextentry {
			seen[string(e.Name)]++
			cookie = e.Cookie
		}
		if rd.Resok.Reply.Eof {
			break
		}
		if page == 39 {
			r.fail("40 pages and no end of a directory with 7 entries: %v", seen)
		}
	}
	for _, n := range []string{".", "..", "n0", "n1", "n2", "n3", "n4"} {
		if seen[n] != 1 {
			r.fail("entry %q listed %d times: %v", n, seen[n], seen)
		}
	}
	r.done()
}

func TestRegressC19(t *testing.T) {
	// e18aab3: a name of exactly name_max bytes; c175934: a write of wtmax bytes
	r := newRg(t, "C19", "name of name_max bytes, write of wtmax bytes", 1540+3000)
	pc := r.api.NFSPROC3_PATHCONF(nt.PATHCONF3args{Object: r.root})
	name := strings.Repeat("n", int(pc.Resok.Name_max))
	fh := r.create(r.root, name)
	fi := r.api.NFSPROC3_FSINFO(nt.FSINFO3args{Fsroot: r.root})
	n := uint64(fi.Resok.Wtmax)
	w := r.write(fh, 0, patternData(3, n), nt.FILE_SYNC)
	if w.Status != nt.NFS3_OK || uint64(w.Resok.Count) != n {
		r.fail("WRITE of wtmax=%d bytes: status %d count %d", n, w.Status, w.Resok.Count)
	}
	r.done()
}

func TestRegressC17(t *testing.T) {
	// 51d617b: short handle; e0bf144: SETATTR beyond 4096
	d := NewDisk(simpleDiskSize)
	d.SetRecord(false)
	n := simple.MakeNfs(d)
	defer n.VerifShutdown()
	o := Guard(30*time.Second, func() {
		for l := 0; l < 8; l++ {
			n.NFSPROC3_GETATTR(nt.GETATTR3args{Object: nt.Nfs_fh3{Data: make([]byte, l)}})
			n.NFSPROC3_READ(nt.READ3args{File: nt.Nfs_fh3{Data: make([]byte, l)}, Count: 10})
		}
		n.NFSPROC3_SETATTR(nt.SETATTR3args{Object: sFH(2), New_attributes: nt.Sattr3{Size: nt.Set_size3{Set_it: true, Size: 1 << 46}}})
	})
	if o.Bad() {
		St.Violation("C17", "short handles / SETATTR size 2^46: "+o.String(), nil)
		t.Fatalf("C17: %v", o)
	}
	if g := n.NFSPROC3_GETATTR(nt.GETATTR3args{Object: sFH(2)}); g.Status != nt.NFS3_OK || g.Resok.Obj_attributes.Size > simpleMax {
		St.Violation("C17", fmt.Sprintf("after SETATTR size 2^46: status %d size %d", g.Status, g.Resok.Obj_attributes.Size), nil)
		t.Fatalf("C17: size %d", g.Resok.Obj_attributes.Size)
	}
	St.Eval(1)
	St.NT(Hash("regress", "C17"))
}

func TestRegressC04(t *testing.T) {
	// former known finding KF3 (repaired in 1f8d386): a directory cannot be moved into itself or below itself
	r := newRg(t, "C04", "MKDIR /a, /a/b, /a/b/c; RENAME /a -> /a/b/x, /a -> /a/x, /a/b -> /a/b/c/y are refused; RENAME /a/b/c -> /c is not", 1540+300)
	a := r.mkdir(r.root, "a")
	b := r.mkdir(a, "b")
	c := r.mkdir(b, "c")
	mv := func(fd nt.Nfs_fh3, fn string, td nt.Nfs_fh3, tn string) nt.Nfsstat3 {
		return r.s.API().NFSPROC3_RENAME(nt.RENAME3args{From: nt.Diropargs3{Dir: fd, Name: nt.Filename3(fn)}, To: nt.Diropargs3{Dir: td, Name: nt.Filename3(tn)}}).Status
	}
	for _, tc := range []struct {
		what   string
		fd     nt.Nfs_fh3
		fn     string
		td     nt.Nfs_fh3
		tn     string
		wantOK bool
	}{
		{"RENAME /a -> /a/b/x", r.root, "a", b, "x", false},
		{"RENAME /a -> /a/x", r.root, "a", a, "x", false},
		{"RENAME /a/b -> /a/b/c/y", a, "b", c, "y", false},
		{"RENAME /a/b/c -> /c", b, "c", r.root, "c", true},
		{"RENAME /a -> /c/a", r.root, "a", c, "a", true},
		{"RENAME /c -> /c/a/b/z", r.root, "c", b, "z", false},
	} {
		st := mv(tc.fd, tc.fn, tc.td, tc.tn)
		if (st == nt.NFS3_OK) != tc.wantOK {
			r.fail("%s answered status %d", tc.what, st)
		}
		r.s.Quiesce()
		if rep := Fsck(r.s.N.VerifFsState(), FsckOpts{Exact: true, Allocators: true}); len(rep.Problems) > 0 {
			r.fail("after %s (status %d): fsck: %v", tc.what, st, rep.Problems)
		}
	}
	r.done()
}
