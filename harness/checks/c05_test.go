package checks

// C05 - freed space is fully reclaimed, in memory and on disk.

import (
	"fmt"
	"sync"
	"sync/atomic"
	"testing"
	"time"

	nt "github.com/mit-pdos/go-nfsd/nfstypes"
	"pgregory.net/rapid"
)

// deleteAll removes every object of the model's tree, bottom-up.
func deleteAll(x *Exec) error {
	var rec func(d *MNode) error
	rec = func(d *MNode) error {
		for _, name := range sortedNames(d.Children) {
			c := d.Children[name]
			if c.IsDir() {
				if err := rec(c); err != nil {
					return err
				}
				if err := x.Rmdir(LiveRef(d), name); err != nil {
					return err
				}
			} else {
				if nb := len(c.Blocks); nb >= 495 && nb <= 515 {
					St.Class("removed_file_with_about_journal_size_blocks")
				}
				if err := x.Remove(LiveRef(d), name); err != nil {
					return err
				}
			}
		}
		return nil
	}
	return rec(x.M.Root)
}

// reclaimCheck deletes everything and checks that all space came back:
// marked = reachable on disk and in the allocators, nothing but the root
// directory left.  Blocks still held by objects whose freeing was
// interrupted must come back once their inode numbers are reused.
func reclaimCheck(x *Exec, mayBeInterrupted bool) (interrupted bool, err error) {
	return reclaimCheckAllowed(x, mayBeInterrupted, nil)
}

// allowed: inode numbers that were free and half-freed when a free was interrupted (nothing has touched them since);
// nil means any half-freed inode is tolerated when mayBeInterrupted.
func reclaimCheckAllowed(x *Exec, mayBeInterrupted bool, allowed map[uint64]bool) (interrupted bool, err error) {
	if err := deleteAll(x); err != nil {
		return false, nil // a reply mismatch is another oracle's business; nothing to judge here
	}
	r, ferr := quiescentFsck(x, FsckOpts{Exact: true, AllowHalfFreed: true, Allocators: true})
	if ferr != nil && r == nil {
		return false, ferr
	}
	if r.HalfFreed > 0 && !mayBeInterrupted {
		return false, x.errf("all objects are deleted and background freeing has finished (no freeing was ever interrupted), yet inode(s) %v are free but still hold blocks: %v",
			r.HalfFreedInums, ferr)
	}
	if r.HalfFreed > 0 && allowed != nil {
		for _, inum := range r.HalfFreedInums {
			if !allowed[inum] {
				return true, x.errf("every object has been removed (touched) since the interrupted free and background freeing has finished, yet inode %d still holds blocks that only the reuse of its number would release (half-freed inodes: %v; removed-while-freeing before the interruption: %v)",
					inum, r.HalfFreedInums, allowed)
			}
		}
	}
	if r.HalfFreed > 0 {
		interrupted = true
		// reuse the numbers of the half-freed inodes: after a restart the allocator hands out the lowest free ones
		max := uint64(0)
		for _, i := range r.HalfFreedInums {
			if i > max {
				max = i
			}
		}
		if max > 400 {
			return true, nil // would need too many creates; not judged
		}
		if err := x.Restart(); err != nil {
			return true, nil
		}
		root := LiveRef(x.M.Root)
		for i := uint64(0); i < max; i++ {
			if err := x.Create(root, fmt.Sprintf("reuse%d", i)); err != nil {
				return true, nil
			}
		}
		if err := deleteAll(x); err != nil {
			return true, nil
		}
	}
	r, ferr = quiescentFsck(x, FsckOpts{Exact: true, Allocators: true})
	if ferr != nil {
		return interrupted, fmt.Errorf("after deleting everything: %v", ferr)
	}
	if r.MarkedInos != 1 {
		return interrupted, x.errf("after deleting everything %d inodes are still in use besides the root", r.MarkedInos-1)
	}
	if r.MarkedData != r.RootBlocks {
		return interrupted, x.errf("after deleting everything %d data blocks are marked in use, the root directory maps %d", r.MarkedData, r.RootBlocks)
	}
	return interrupted, nil
}

// fillDisk writes until the server reports that space is exhausted; returns the free blocks left on disk.
func fillDisk(x *Exec) (uint64, error) {
	api := x.S.API()
	root := nt.Nfs_fh3{Data: x.M.Root.FH}
	mk := func(name string) (nt.Nfs_fh3, bool) {
		r := api.NFSPROC3_CREATE(nt.CREATE3args{Where: nt.Diropargs3{Dir: root, Name: nt.Filename3(name)}})
		return r.Resok.Obj.Handle, r.Status == nt.NFS3_OK
	}
	var free uint64
	err := x.call(func() {
		big, ok := mk("fill_big")
		off := uint64(0)
		for _, chunk := range []uint64{64, 1} {
			for ok {
				data := make([]byte, chunk*BlockSize)
				for i := range data {
					data[i] = 0x77
				}
				r := api.NFSPROC3_WRITE(nt.WRITE3args{File: big, Offset: nt.Offset3(off), Count: nt.Count3(len(data)), Stable: nt.FILE_SYNC, Data: data})
				if r.Status != nt.NFS3_OK || uint64(r.Resok.Count) < uint64(len(data)) {
					if r.Status == nt.NFS3_OK {
						off += uint64(r.Resok.Count)
					}
					break
				}
				off += uint64(len(data))
			}
		}
		// small files use the blocks a large file cannot (it may need an indirect block as well)
		blk := make([]byte, BlockSize)
		blk[0] = 0x78
		for i := 0; i < 40; i++ {
			fh, ok := mk(fmt.Sprintf("fill_small%d", i))
			if !ok {
				break
			}
			full := false
			for b := uint64(0); b < 8; b++ {
				r := api.NFSPROC3_WRITE(nt.WRITE3args{File: fh, Offset: nt.Offset3(b * BlockSize), Count: BlockSize, Stable: nt.FILE_SYNC, Data: blk})
				if r.Status != nt.NFS3_OK || r.Resok.Count < BlockSize {
					full = true
					break
				}
			}
			if full {
				break
			}
		}
		x.S.Quiesce()
		rep := Fsck(x.S.N.VerifFsState(), FsckOpts{})
		free = rep.FreeBlocks
	})
	return free, err
}

func TestC05Seq(t *testing.T) {
	rapid.Check(t, func(t *rapid.T) {
		x, cc := newSeqCase(t, "C05", 6000, 0)
		defer func() { x.S.Stop() }()
		x.Budget = 2100
		r0, err := quiescentFsck(x, FsckOpts{Exact: true, Allocators: true})
		if err != nil {
			failf(t, "C05", nil, "fresh file system: %v", err)
		}
		cfg := DefaultCfg()
		cfg.BadRefs, cfg.WrongKind, cfg.MaxDepth, cfg.MaxWriteBlks = 3, 3, 4, 16
		excluded := 0
		cfg.Excluded = &excluded
		g := NewGen(x, cfg)
		cut := false
		fail := func(t *rapid.T, err error) {
			failf(t, "C05", map[string]any{"history": x.Log, "unstable": cc.Unstable}, "%v", err)
		}
		base := g.Actions(func(t *rapid.T, err error) { cut = true })
		acts := map[string]func(*rapid.T){}
		for _, k := range []string{"create", "create2", "mkdir", "write", "write2", "write3", "symlink", "setattr", "setattr2", "read",
			"remove", "rmdir", "rename", "rename2", "movedir", "restart"} {
			acts[k] = base[k]
		}
		ninterrupt, ndense := 0, 0
		allowedHalf := map[uint64]bool{}
		noteInterrupted := func() {
			// free inodes that are half-freed right after the restart: removed objects whose free was cut short
			x.call(func() {
				rep := Fsck(x.S.N.VerifFsState(), FsckOpts{})
				for _, i := range rep.HalfFreedFree {
					allowedHalf[i] = true
				}
			})
		}
		allowInterrupt := pct(t, 35, "interruptions?")
		acts["crashrestart"] = func(t *rapid.T) {
			if !allowInterrupt {
				t.Skip("no interruptions in this case")
			}
			ninterrupt++
			if crashRestart(x) != nil {
				cut = true
			}
			noteInterrupted()
		}
		acts["densebig"] = func(t *rapid.T) {
			files := x.M.LiveKind(nt.NF3REG)
			if len(files) == 0 || ndense >= 1 || x.Budget < 1400 {
				t.Skip("no room for a dense file")
			}
			ndense++
			f := pick(t, files, "file")
			start := uint64(rapid.IntRange(0, 200).Draw(t, "startblock"))
			nearJournal := rapid.Bool().Draw(t, "nearJournalSize")
			for i := 0; i < rapid.IntRange(2, 3).Draw(t, "nwrites"); i++ {
				n := uint32(rapid.IntRange(300, 470).Draw(t, "blocks")) * BlockSize
				if nearJournal {
					// a file whose size is close to what one journal transaction can free
					if i == 2 {
						break
					}
					start = 0
					n = 250 * BlockSize
					if i == 1 {
						start = 250
						n = uint32(pick(t, []int{246, 248, 250, 251, 252, 253, 254, 255, 256, 257, 258, 259, 260, 262}, "halfblocks")) * BlockSize
					}
				}
				if x.Write(LiveRef(f), start*BlockSize, patternData(g.nextTag(), uint64(n)), n, nt.UNSTABLE) != nil {
					cut = true
					return
				}
				start += uint64(n / BlockSize)
			}
		}
		acts["growdata"] = func(t *rapid.T) {
			files := x.M.LiveKind(nt.NF3REG)
			if len(files) == 0 {
				t.Skip("no file")
			}
			f := pick(t, files, "file")
			off := uint64(rapid.IntRange(515, 1300).Draw(t, "block")) * BlockSize
			if x.Write(LiveRef(f), off, patternData(g.nextTag(), 5000), 5000, nt.FILE_SYNC) != nil {
				cut = true
			}
		}
		// truncate or remove a large file and at once stop the server with the shrinker interrupted
		acts["freebig_interrupted"] = func(t *rapid.T) {
			var big []*MNode
			for _, f := range x.M.LiveKind(nt.NF3REG) {
				if f.Size > 515*BlockSize {
					big = append(big, f)
				}
			}
			if len(big) == 0 {
				t.Skip("no big file")
			}
			f := pick(t, big, "file")
			var err error
			if rapid.Bool().Draw(t, "remove") {
				err = x.Remove(LiveRef(f.Parent), f.Name)
			} else {
				sz := pick(t, []uint64{0, 100, BlockSize, 9*BlockSize - 7}, "newsize")
				err = x.Setattr(LiveRef(f), &sz, false)
			}
			if err == nil && allowInterrupt && rapid.Bool().Draw(t, "interrupt") {
				ninterrupt++
				err = crashRestart(x)
				noteInterrupted()
			}
			if err != nil {
				cut = true
			}
		}
		// shrink a large file by about as many blocks as one journal transaction can free
		acts["shrink_by_journal_size"] = func(t *rapid.T) {
			var big []*MNode
			for _, f := range x.M.LiveKind(nt.NF3REG) {
				if f.Size > 530*BlockSize && len(f.Blocks) > 500 {
					big = append(big, f)
				}
			}
			if len(big) == 0 {
				t.Skip("no dense big file")
			}
			f := pick(t, big, "file")
			d := uint64(rapid.IntRange(490, 520).Draw(t, "blocks"))
			sz := f.Size - d*BlockSize
			if x.Setattr(LiveRef(f), &sz, false) != nil {
				cut = true
			}
		}
		maxInd := 0
		// an UNCHECKED CREATE that names the largest existing file and carries a small size: refused by this server; a
		// server that opens the file instead cuts it - and has to give the blocks back like any other truncation
		acts["create_over_big"] = func(t *rapid.T) {
			var big *MNode
			for _, f := range x.M.LiveKind(nt.NF3REG) {
				if big == nil || len(f.Blocks) > len(big.Blocks) {
					big = f
				}
			}
			if cut || big == nil {
				t.Skip("no file")
			}
			if x.CreateWithSize(LiveRef(big.Parent), big.Name, uint64(pick(t, []int{0, 100, 4096, 9 * 4096}, "size")), false) != nil {
				cut = true
			}
		}
		// a directory that grows beyond its direct blocks (more than 256 names), is emptied again - directories do
		// not shrink when names go - and is removed, or replaced by a RENAME of another empty directory over it
		nbigdir := 0
		acts["bigdir"] = func(t *rapid.T) {
			if cut || nbigdir >= 1 || x.Budget < 200 {
				t.Skip("once per case")
			}
			nbigdir++
			root := LiveRef(x.M.Root)
			if x.Mkdir(root, "bigdir") != nil || !x.LastOK {
				cut = true
				return
			}
			bd := x.M.Root.Children["bigdir"]
			n := pick(t, []int{240, 260, 300, 600}, "names")
			x.logf("CREATE %d names in /bigdir, then REMOVE them all", n)
			api := x.S.API()
			bad := ""
			if err := x.call(func() {
				for i := 0; i < n; i++ {
					if r := api.NFSPROC3_CREATE(nt.CREATE3args{Where: nt.Diropargs3{Dir: nt.Nfs_fh3{Data: bd.FH}, Name: nt.Filename3(fmt.Sprintf("e%d", i))}}); r.Status != nt.NFS3_OK {
						bad = fmt.Sprintf("CREATE e%d: status %d", i, r.Status)
						return
					}
				}
				for i := 0; i < n; i++ {
					if r := api.NFSPROC3_REMOVE(nt.REMOVE3args{Object: nt.Diropargs3{Dir: nt.Nfs_fh3{Data: bd.FH}, Name: nt.Filename3(fmt.Sprintf("e%d", i))}}); r.Status != nt.NFS3_OK {
						bad = fmt.Sprintf("REMOVE e%d: status %d", i, r.Status)
						return
					}
				}
			}); err != nil || bad != "" {
				cut = true
				return
			}
			x.Budget -= int64(n/32 + 4)
			St.Class("directories_grown_beyond_their_direct_blocks_emptied_and_removed")
			if rapid.Bool().Draw(t, "replace") {
				if x.Mkdir(root, "bigdir2") != nil || x.Rename(root, "bigdir2", root, "bigdir") != nil {
					cut = true
					return
				}
			}
			if x.Rmdir(root, "bigdir") != nil {
				cut = true
			}
		}
		steps := 0
		acts[""] = func(t *rapid.T) {
			steps++
			if cut || x.Budget < 60 {
				t.Skip("case cut short")
			}
			if steps%10 == 0 {
				if r, err := quiescentFsck(x, FsckOpts{}); err == nil && r.NIndirect > maxInd {
					maxInd = r.NIndirect
				}
			}
		}
		t.Repeat(acts)
		if cut {
			St.Class("case_cut_short_by_another_oracle")
			return
		}
		if r, err := quiescentFsck(x, FsckOpts{}); err == nil && r.NIndirect > maxInd {
			maxInd = r.NIndirect
		}
		// at any quiescent point: marked = reachable (interrupted frees are the only allowed difference)
		if _, err := quiescentFsck(x, FsckOpts{Exact: true, AllowHalfFreed: ninterrupt > 0, Allocators: true}); err != nil {
			fail(t, fmt.Errorf("before deleting: %v", err))
		}
		interrupted, err := reclaimCheckAllowed(x, ninterrupt > 0, allowedHalf)
		if err != nil {
			fail(t, err)
		}
		r1, err := quiescentFsck(x, FsckOpts{Exact: true, Allocators: true})
		if err == nil && !interrupted {
			if r1.FreeInodes != r0.FreeInodes || int(r0.FreeBlocks)-int(r1.FreeBlocks) != r1.RootBlocks-r0.RootBlocks {
				fail(t, x.errf("free space did not return to its initial value: %d blocks / %d inodes free at start, %d / %d after deleting everything (root directory grew by %d block(s))",
					r0.FreeBlocks, r0.FreeInodes, r1.FreeBlocks, r1.FreeInodes, r1.RootBlocks-r0.RootBlocks))
			}
		}
		// and the space can be used again
		left, ferr := fillDisk(x)
		if ferr != nil {
			fail(t, ferr)
		}
		if left > 0 {
			fail(t, x.errf("after deleting everything the disk was filled until the server reported no space, but %d blocks are still free on disk", left))
		}
		St.Eval(1)
		nontrivial := maxInd >= 1 || ninterrupt > 0
		if nontrivial {
			St.NT(Hash(x.Log))
		}
		if maxInd >= 1 {
			St.Class("history_that_freed_indirect_blocks")
		}
		if interrupted {
			St.Class("history_with_interrupted_free_left_over")
		}
		if ninterrupt > 0 {
			St.Class("history_with_shrinker_interrupting_stop")
		}
		if excluded > 0 {
			St.ClassN("excluded_known_finding_draws", excluded)
		}
		if St.WantSample(nontrivial) {
			St.Sample(map[string]any{"kind": "build-then-delete history", "indirect_blocks_at_peak": maxInd, "interrupting_stops": ninterrupt,
				"history": headLog(x.Log, 40)}, nontrivial)
		}
	})
}

// emptyAndCount is run on recovered crash images: delete everything, then all space must be back.
func emptyAndCount(s *Srv, state *Model, cr *CrashRun) error {
	x := &Exec{S: s, Prop: "C05", Watchdog: 60 * time.Second, allFH: map[string]int{}, Budget: 1 << 40}
	x.M = state.Snapshot()
	for _, n := range x.M.Objs {
		if n.FH != nil {
			x.allFH[string(n.FH)] = n.ID
		}
	}
	_, err := reclaimCheck(x, true)
	return err
}

func TestC05Crash(t *testing.T) {
	maxPts := 120
	if Thorough() {
		maxPts = 1 << 30
	}
	rapid.Check(t, func(t *rapid.T) {
		structCrashProperty(t, structCrashCfg{Prop: "C05", MaxPts: maxPts,
			Fsck:  FsckOpts{Exact: true, AllowHalfFreed: true, Allocators: true},
			After: emptyAndCount,
			AfterIf: func(rep *FsckReport, h uint64) bool {
				return rep != nil && (rep.HalfFreed > 0 || h%8 == 0)
			}})
	})
}

// Frees running concurrently with other operations: 2-4 clients, each in a directory of its own, build, cut,
// overwrite by RENAME and remove files of every size class (small, around one journal transaction, large enough
// for several background transactions; dense and sparse) at the same time, on a data region small enough that
// blocks freed by one client are handed to another at once.  What they reply is not judged here; when all have
// returned everything is removed, background freeing finishes, and then every block and inode must be free again
// - on disk and in the running allocators - and after a restart as well.
func TestC05Conc(t *testing.T) {
	rapid.Check(t, func(t *rapid.T) {
		size := uint64(pick(t, []int{3600, 5000, 9000}, "disksize"))
		d := NewDisk(size)
		d.SetRecord(false)
		s := StartSrv(d, rapid.Bool().Draw(t, "unstable"), false)
		defer func() { s.Stop() }()
		x, err := NewExec(s, "C05")
		if err != nil {
			failf(t, "C05", nil, "%v", err)
		}
		r0, ferr := quiescentFsck(x, FsckOpts{Exact: true, Allocators: true})
		if ferr != nil {
			failf(t, "C05", nil, "freshly formatted: %v", ferr)
		}
		nclients := rapid.IntRange(2, 4).Draw(t, "clients")
		type op struct {
			Kind   string
			A, B   int
			Blocks uint64
			Off    uint64
			Stable nt.Stable_how
		}
		budget := (size - 1540) / uint64(nclients) / 2
		progs := make([][]op, nclients)
		var desc [][]string
		for c := range progs {
			used := uint64(0)
			var dl []string
			for i := 0; i < rapid.IntRange(4, 14).Draw(t, "nops"); i++ {
				o := op{Kind: pick(t, []string{"write", "write", "write", "cut", "cut", "remove", "remove", "rename", "sparse"}, "kind"),
					A: rapid.IntRange(0, 2).Draw(t, "a"), B: rapid.IntRange(0, 2).Draw(t, "b"), Stable: nt.Stable_how(rapid.IntRange(0, 2).Draw(t, "stable"))}
				switch o.Kind {
				case "write":
					o.Blocks = uint64(pick(t, []int{1, 9, 40, 300, 470}, "blocks"))
					o.Off = uint64(pick(t, []int{0, 0, 7, 200, 480, 519}, "offblock"))
					if used+o.Blocks+4 > budget {
						o.Blocks = 1
					}
					used += o.Blocks + 4
				case "cut":
					o.Blocks = uint64(pick(t, []int{0, 0, 1, 8, 9, 100}, "toblocks"))
				case "sparse":
					o.Blocks = uint64(pick(t, []int{600, 1100, 2000}, "sparseblocks"))
				}
				progs[c] = append(progs[c], o)
				dl = append(dl, fmt.Sprintf("%s f%d f%d blocks=%d offblock=%d stable=%d", o.Kind, o.A, o.B, o.Blocks, o.Off, o.Stable))
			}
			desc = append(desc, dl)
		}
		detail := map[string]any{"disksize": size, "programs": desc}
		api := s.API()
		root := s.RootFH()
		dirs := make([]nt.Nfs_fh3, nclients)
		for c := range dirs {
			r := api.NFSPROC3_MKDIR(nt.MKDIR3args{Where: nt.Diropargs3{Dir: root, Name: nt.Filename3(fmt.Sprintf("c%d", c))}})
			if r.Status != nt.NFS3_OK {
				failf(t, "C05", detail, "MKDIR: status %d", r.Status)
			}
			dirs[c] = r.Resok.Obj.Handle
		}
		var bigFrees int64
		o := Guard(120*time.Second, func() {
			var wg sync.WaitGroup
			for c := range progs {
				wg.Add(1)
				go func(c int) {
					defer wg.Done()
					dir := dirs[c]
					name := func(i int) nt.Filename3 { return nt.Filename3(fmt.Sprintf("f%d", i)) }
					handle := func(i int) (nt.Nfs_fh3, uint64, bool) {
						l := api.NFSPROC3_LOOKUP(nt.LOOKUP3args{What: nt.Diropargs3{Dir: dir, Name: name(i)}})
						if l.Status == nt.NFS3_OK {
							return l.Resok.Object, uint64(l.Resok.Obj_attributes.Attributes.Size), true
						}
						cr := api.NFSPROC3_CREATE(nt.CREATE3args{Where: nt.Diropargs3{Dir: dir, Name: name(i)}})
						return cr.Resok.Obj.Handle, 0, cr.Status == nt.NFS3_OK
					}
					for _, o := range progs[c] {
						switch o.Kind {
						case "write":
							if fh, _, ok := handle(o.A); ok {
								data := patternData(uint32(c*100+o.A), o.Blocks*BlockSize)
								api.NFSPROC3_WRITE(nt.WRITE3args{File: fh, Offset: nt.Offset3(o.Off * BlockSize), Count: nt.Count3(len(data)), Stable: o.Stable, Data: data})
							}
						case "cut", "sparse":
							if fh, sz, ok := handle(o.A); ok {
								if o.Kind == "cut" && sz > (o.Blocks+500)*BlockSize {
									atomic.AddInt64(&bigFrees, 1)
								}
								api.NFSPROC3_SETATTR(nt.SETATTR3args{Object: fh, New_attributes: nt.Sattr3{Size: nt.Set_size3{Set_it: true, Size: nt.Size3(o.Blocks * BlockSize)}}})
							}
						case "remove":
							if _, sz, ok := handle(o.A); ok && sz > 500*BlockSize {
								atomic.AddInt64(&bigFrees, 1)
							}
							api.NFSPROC3_REMOVE(nt.REMOVE3args{Object: nt.Diropargs3{Dir: dir, Name: name(o.A)}})
						case "rename":
							handle(o.A)
							api.NFSPROC3_RENAME(nt.RENAME3args{From: nt.Diropargs3{Dir: dir, Name: name(o.A)}, To: nt.Diropargs3{Dir: dir, Name: name(o.B)}})
						}
					}
				}(c)
			}
			wg.Wait()
			// remove everything
			for c := range dirs {
				for i := 0; i < 3; i++ {
					api.NFSPROC3_REMOVE(nt.REMOVE3args{Object: nt.Diropargs3{Dir: dirs[c], Name: nt.Filename3(fmt.Sprintf("f%d", i))}})
				}
				api.NFSPROC3_RMDIR(nt.RMDIR3args{Object: nt.Diropargs3{Dir: root, Name: nt.Filename3(fmt.Sprintf("c%d", c))}})
			}
		})
		if o.Slow {
			St.Class("call_too_slow_for_the_harness_not_judged")
			t.Skip("harness too slow")
		}
		if o.Bad() {
			St.Class("run_hung_or_panicked_not_judged")
			t.Skip("a request hung or panicked (C06/C11)")
		}
		check := func(when string) {
			r, ferr := quiescentFsck(x, FsckOpts{Exact: true, Allocators: true})
			if ferr != nil {
				failf(t, "C05", detail, "%s: %v", when, ferr)
			}
			if r.MarkedInos != 1 || r.MarkedData != r.RootBlocks || r.FreeBlocks+uint64(r.RootBlocks) != r0.FreeBlocks+uint64(r0.RootBlocks) {
				failf(t, "C05", detail, "%s: %d inodes in use besides the root, %d data blocks marked (the root directory maps %d), %d free (after mkfs: %d)",
					when, r.MarkedInos-1, r.MarkedData, r.RootBlocks, r.FreeBlocks, r0.FreeBlocks)
			}
		}
		check("all clients' files and directories removed, background freeing finished")
		s.Restart()
		check("after that and a restart")
		St.Eval(1)
		St.Class("concurrent_build_and_free_histories_emptied_and_counted")
		if bigFrees > 0 {
			St.NT(Hash("c05conc", desc, size))
			St.Class("concurrent_histories_with_frees_of_more_than_500_blocks")
		}
		if St.WantSample(bigFrees > 0) {
			St.Sample(map[string]any{"kind": "concurrent build-and-free programs", "disksize": size, "programs": desc, "frees_over_500_blocks": bigFrees}, bigFrees > 0)
		}
	})
}
