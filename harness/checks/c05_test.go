package checks

// C05 - freed space is fully reclaimed, in memory and on disk.

import (
	"fmt"
	"testing"
	"time"

	nt "github.com/mit-pdos/go-nfsd/nfstypes"
	"pgregory.net/rapid"
)

// deleteAll removes every object of the model's tree, bottom-up.
func deleteAll(x *Exec) error {
	var rec func(d *MNode) error
	rec = func(d *MNode) error {
		for _, name := range sortedNames(d.Children) {
			c := d.Children[name]
			if c.IsDir() {
				if err := rec(c); err != nil {
					return err
				}
				if err := x.Rmdir(LiveRef(d), name); err != nil {
					return err
				}
			} else {
				if nb := len(c.Blocks); nb >= 495 && nb <= 515 {
					St.Class("removed_file_with_about_journal_size_blocks")
				}
				if err := x.Remove(LiveRef(d), name); err != nil {
					return err
				}
			}
		}
		return nil
	}
	return rec(x.M.Root)
}

// reclaimCheck deletes everything and checks that all space came back:
// marked = reachable on disk and in the allocators, nothing but the root
// directory left.  Blocks still held by objects whose freeing was
// interrupted must come back once their inode numbers are reused.
func reclaimCheck(x *Exec, mayBeInterrupted bool) (interrupted bool, err error) {
	return reclaimCheckAllowed(x, mayBeInterrupted, nil)
}

// allowed: inode numbers that were free and half-freed when a free was interrupted (nothing has touched them since);
// nil means any half-freed inode is tolerated when mayBeInterrupted.
func reclaimCheckAllowed(x *Exec, mayBeInterrupted bool, allowed map[uint64]bool) (interrupted bool, err error) {
	if err := deleteAll(x); err != nil {
		return false, nil // a reply mismatch is another oracle's business; nothing to judge here
	}
	r, ferr := quiescentFsck(x, FsckOpts{Exact: true, AllowHalfFreed: true, Allocators: true})
	if ferr != nil && r == nil {
		return false, ferr
	}
	if r.HalfFreed > 0 && !mayBeInterrupted {
		return false, x.errf("all objects are deleted and background freeing has finished (no freeing was ever interrupted), yet inode(s) %v are free but still hold blocks: %v",
			r.HalfFreedInums, ferr)
	}
	if r.HalfFreed > 0 && allowed != nil {
		for _, inum := range r.HalfFreedInums {
			if !allowed[inum] {
				return true, x.errf("every object has been removed (touched) since the interrupted free and background freeing has finished, yet inode %d still holds blocks that only the reuse of its number would release (half-freed inodes: %v; removed-while-freeing before the interruption: %v)",
					inum, r.HalfFreedInums, allowed)
			}
		}
	}
	if r.HalfFreed > 0 {
		interrupted = true
		// reuse the numbers of the half-freed inodes: after a restart the allocator hands out the lowest free ones
		max := uint64(0)
		for _, i := range r.HalfFreedInums {
			if i > max {
				max = i
			}
		}
		if max > 400 {
			return true, nil // would need too many creates; not judged
		}
		if err := x.Restart(); err != nil {
			return true, nil
		}
		root := LiveRef(x.M.Root)
		for i := uint64(0); i < max; i++ {
			if err := x.Create(root, fmt.Sprintf("reuse%d", i)); err != nil {
				return true, nil
			}
		}
		if err := deleteAll(x); err != nil {
			return true, nil
		}
	}
	r, ferr = quiescentFsck(x, FsckOpts{Exact: true, Allocators: true})
	if ferr != nil {
		return interrupted, fmt.Errorf("after deleting everything: %v", ferr)
	}
	if r.MarkedInos != 1 {
		return interrupted, x.errf("after deleting everything %d inodes are still in use besides the root", r.MarkedInos-1)
	}
	if r.MarkedData != r.RootBlocks {
		return interrupted, x.errf("after deleting everything %d data blocks are marked in use, the root directory maps %d", r.MarkedData, r.RootBlocks)
	}
	return interrupted, nil
}

// fillDisk writes until the server reports that space is exhausted; returns the free blocks left on disk.
func fillDisk(x *Exec) (uint64, error) {
	api := x.S.API()
	root := nt.Nfs_fh3{Data: x.M.Root.FH}
	mk := func(name string) (nt.Nfs_fh3, bool) {
		r := api.NFSPROC3_CREATE(nt.CREATE3args{Where: nt.Diropargs3{Dir: root, Name: nt.Filename3(name)}})
		return r.Resok.Obj.Handle, r.Status == nt.NFS3_OK
	}
	var free uint64
	err := x.call(func() {
		big, ok := mk("fill_big")
		off := uint64(0)
		for _, chunk := range []uint64{64, 1} {
			for ok {
				data := make([]byte, chunk*BlockSize)
				for i := range data {
					data[i] = 0x77
				}
				r := api.NFSPROC3_WRITE(nt.WRITE3args{File: big, Offset: nt.Offset3(off), Count: nt.Count3(len(data)), Stable: nt.FILE_SYNC, Data: data})
				if r.Status != nt.NFS3_OK || uint64(r.Resok.Count) < uint64(len(data)) {
					if r.Status == nt.NFS3_OK {
						off += uint64(r.Resok.Count)
					}
					break
				}
				off += uint64(len(data))
			}
		}
		// small files use the blocks a large file cannot (it may need an indirect block as well)
		blk := make([]byte, BlockSize)
		blk[0] = 0x78
		for i := 0; i < 40; i++ {
			fh, ok := mk(fmt.Sprintf("fill_small%d", i))
			if !ok {
				break
			}
			full := false
			for b := uint64(0); b < 8; b++ {
				r := api.NFSPROC3_WRITE(nt.WRITE3args{File: fh, Offset: nt.Offset3(b * BlockSize), Count: BlockSize, Stable: nt.FILE_SYNC, Data: blk})
				if r.Status != nt.NFS3_OK || r.Resok.Count < BlockSize {
					full = true
					break
				}
			}
			if full {
				break
			}
		}
		x.S.Quiesce()
		rep := Fsck(x.S.N.VerifFsState(), FsckOpts{})
		free = rep.FreeBlocks
	})
	return free, err
}

func TestC05Seq(t *testing.T) {
	rapid.Check(t, func(t *rapid.T) {
		x, cc := newSeqCase(t, "C05", 6000, 0)
		defer func() { x.S.Stop() }()
		x.Budget = 2100
		r0, err := quiescentFsck(x, FsckOpts{Exact: true, Allocators: true})
		if err != nil {
			failf(t, "C05", nil, "fresh file system: %v", err)
		}
		cfg := DefaultCfg()
		cfg.BadRefs, cfg.WrongKind, cfg.MaxDepth, cfg.MaxWriteBlks = 3, 3, 4, 16
		excluded := 0
		cfg.Excluded = &excluded
		g := NewGen(x, cfg)
		cut := false
		fail := func(t *rapid.T, err error) {
			failf(t, "C05", map[string]any{"history": x.Log, "unstable": cc.Unstable}, "%v", err)
		}
		base := g.Actions(func(t *rapid.T, err error) { cut = true })
		acts := map[string]func(*rapid.T){}
		for _, k := range []string{"create", "create2", "mkdir", "write", "write2", "write3", "symlink", "setattr", "setattr2", "read",
			"remove", "rmdir", "rename", "rename2", "movedir", "restart"} {
			acts[k] = base[k]
		}
		ninterrupt, ndense := 0, 0
		allowedHalf := map[uint64]bool{}
		noteInterrupted := func() {
			// free inodes that are half-freed right after the restart: removed objects whose free was cut short
			x.call(func() {
				rep := Fsck(x.S.N.VerifFsState(), FsckOpts{})
				for _, i := range rep.HalfFreedFree {
					allowedHalf[i] = true
				}
			})
		}
		allowInterrupt := pct(t, 35, "interruptions?")
		acts["crashrestart"] = func(t *rapid.T) {
			if !allowInterrupt {
				t.Skip("no interruptions in this case")
			}
			ninterrupt++
			if crashRestart(x) != nil {
				cut = true
			}
			noteInterrupted()
		}
		acts["densebig"] = func(t *rapid.T) {
			files := x.M.LiveKind(nt.NF3REG)
			if len(files) == 0 || ndense >= 1 || x.Budget < 1400 {
				t.Skip("no room for a dense file")
			}
			ndense++
			f := pick(t, files, "file")
			start := uint64(rapid.IntRange(0, 200).Draw(t, "startblock"))
			nearJournal := rapid.Bool().Draw(t, "nearJournalSize")
			for i := 0; i < rapid.IntRange(2, 3).Draw(t, "nwrites"); i++ {
				n := uint32(rapid.IntRange(300, 470).Draw(t, "blocks")) * BlockSize
				if nearJournal {
					// a file whose size is close to what one journal transaction can free
					if i == 2 {
						break
					}
					start = 0
					n = 250 * BlockSize
					if i == 1 {
						start = 250
						n = uint32(pick(t, []int{246, 248, 250, 251, 252, 253, 254, 255, 256, 257, 258, 259, 260, 262}, "halfblocks")) * BlockSize
					}
				}
				if x.Write(LiveRef(f), start*BlockSize, patternData(g.nextTag(), uint64(n)), n, nt.UNSTABLE) != nil {
					cut = true
					return
				}
				start += uint64(n / BlockSize)
			}
		}
		acts["growdata"] = func(t *rapid.T) {
			files := x.M.LiveKind(nt.NF3REG)
			if len(files) == 0 {
				t.Skip("no file")
			}
			f := pick(t, files, "file")
			off := uint64(rapid.IntRange(515, 1300).Draw(t, "block")) * BlockSize
			if x.Write(LiveRef(f), off, patternData(g.nextTag(), 5000), 5000, nt.FILE_SYNC) != nil {
				cut = true
			}
		}
		// truncate or remove a large file and at once stop the server with the shrinker interrupted
		acts["freebig_interrupted"] = func(t *rapid.T) {
			var big []*MNode
			for _, f := range x.M.LiveKind(nt.NF3REG) {
				if f.Size > 515*BlockSize {
					big = append(big, f)
				}
			}
			if len(big) == 0 {
				t.Skip("no big file")
			}
			f := pick(t, big, "file")
			var err error
			if rapid.Bool().Draw(t, "remove") {
				err = x.Remove(LiveRef(f.Parent), f.Name)
			} else {
				sz := pick(t, []uint64{0, 100, BlockSize, 9*BlockSize - 7}, "newsize")
				err = x.Setattr(LiveRef(f), &sz, false)
			}
			if err == nil && allowInterrupt && rapid.Bool().Draw(t, "interrupt") {
				ninterrupt++
				err = crashRestart(x)
				noteInterrupted()
			}
			if err != nil {
				cut = true
			}
		}
		// shrink a large file by about as many blocks as one journal transaction can free
		acts["shrink_by_journal_size"] = func(t *rapid.T) {
			var big []*MNode
			for _, f := range x.M.LiveKind(nt.NF3REG) {
				if f.Size > 530*BlockSize && len(f.Blocks) > 500 {
					big = append(big, f)
				}
			}
			if len(big) == 0 {
				t.Skip("no dense big file")
			}
			f := pick(t, big, "file")
			d := uint64(rapid.IntRange(490, 520).Draw(t, "blocks"))
			sz := f.Size - d*BlockSize
			if x.Setattr(LiveRef(f), &sz, false) != nil {
				cut = true
			}
		}
		maxInd := 0
		steps := 0
		acts[""] = func(t *rapid.T) {
			steps++
			if cut || x.Budget < 60 {
				t.Skip("case cut short")
			}
			if steps%10 == 0 {
				if r, err := quiescentFsck(x, FsckOpts{}); err == nil && r.NIndirect > maxInd {
					maxInd = r.NIndirect
				}
			}
		}
		t.Repeat(acts)
		if cut {
			St.Class("case_cut_short_by_another_oracle")
			return
		}
		if r, err := quiescentFsck(x, FsckOpts{}); err == nil && r.NIndirect > maxInd {
			maxInd = r.NIndirect
		}
		// at any quiescent point: marked = reachable (interrupted frees are the only allowed difference)
		if _, err := quiescentFsck(x, FsckOpts{Exact: true, AllowHalfFreed: ninterrupt > 0, Allocators: true}); err != nil {
			fail(t, fmt.Errorf("before deleting: %v", err))
		}
		interrupted, err := reclaimCheckAllowed(x, ninterrupt > 0, allowedHalf)
		if err != nil {
			fail(t, err)
		}
		r1, err := quiescentFsck(x, FsckOpts{Exact: true, Allocators: true})
		if err == nil && !interrupted {
			if r1.FreeInodes != r0.FreeInodes || int(r0.FreeBlocks)-int(r1.FreeBlocks) != r1.RootBlocks-r0.RootBlocks {
				fail(t, x.errf("free space did not return to its initial value: %d blocks / %d inodes free at start, %d / %d after deleting everything (root directory grew by %d block(s))",
					r0.FreeBlocks, r0.FreeInodes, r1.FreeBlocks, r1.FreeInodes, r1.RootBlocks-r0.RootBlocks))
			}
		}
		// and the space can be used again
		left, ferr := fillDisk(x)
		if ferr != nil {
			fail(t, ferr)
		}
		if left > 0 {
			fail(t, x.errf("after deleting everything the disk was filled until the server reported no space, but %d blocks are still free on disk", left))
		}
		St.Eval(1)
		nontrivial := maxInd >= 1 || ninterrupt > 0
		if nontrivial {
			St.NT(Hash(x.Log))
		}
		if maxInd >= 1 {
			St.Class("history_that_freed_indirect_blocks")
		}
		if interrupted {
			St.Class("history_with_interrupted_free_left_over")
		}
		if ninterrupt > 0 {
			St.Class("history_with_shrinker_interrupting_stop")
		}
		if excluded > 0 {
			St.ClassN("excluded_known_finding_draws", excluded)
		}
		if St.WantSample(nontrivial) {
			St.Sample(map[string]any{"kind": "build-then-delete history", "indirect_blocks_at_peak": maxInd, "interrupting_stops": ninterrupt,
				"history": headLog(x.Log, 40)}, nontrivial)
		}
	})
}

// emptyAndCount is run on recovered crash images: delete everything, then all space must be back.
func emptyAndCount(s *Srv, state *Model, cr *CrashRun) error {
	x := &Exec{S: s, Prop: "C05", Watchdog: 60 * time.Second, allFH: map[string]int{}, Budget: 1 << 40}
	x.M = state.Snapshot()
	for _, n := range x.M.Objs {
		if n.FH != nil {
			x.allFH[string(n.FH)] = n.ID
		}
	}
	_, err := reclaimCheck(x, true)
	return err
}

func TestC05Crash(t *testing.T) {
	maxPts := 120
	if Thorough() {
		maxPts = 1 << 30
	}
	rapid.Check(t, func(t *rapid.T) {
		structCrashProperty(t, structCrashCfg{Prop: "C05", MaxPts: maxPts,
			Fsck:  FsckOpts{Exact: true, AllowHalfFreed: true, Allocators: true},
			After: emptyAndCount,
			AfterIf: func(rep *FsckReport, h uint64) bool {
				return rep != nil && (rep.HalfFreed > 0 || h%8 == 0)
			}})
	})
}
