package checks

// C08 - a file handle denotes one object for ever; stale handles stay stale.

import (
	"bytes"
	"fmt"
	"os"
	"strings"
	"sync"
	"sync/atomic"
	"testing"
	"time"

	nt "github.com/mit-pdos/go-nfsd/nfstypes"
	"pgregory.net/rapid"
)

// c08Relevant: handle identity and staleness failures; anything else is another property's business.
func c08Relevant(err error) bool {
	if err == nil {
		return false
	}
	m := err.Error()
	for _, k := range []string{"handle", "stale", "STALE", "file id", "performed a request the reference refuses"} {
		if strings.Contains(m, k) {
			return true
		}
	}
	return false
}

// staleSweep presents a dead handle to every procedure and every handle-typed argument position.
func staleSweep(x *Exec, dead Ref, liveDir *MNode, liveName string) error {
	sz := uint64(100)
	data := patternData(0xdead, 100)
	steps := []func() error{
		func() error { return x.Getattr(dead) },
		func() error { return x.Setattr(dead, &sz, false) },
		func() error { return x.Setattr(dead, nil, true) },
		func() error { return x.Lookup(dead, "a") },
		func() error { return x.Lookup(dead, ".") },
		func() error { return x.Lookup(dead, "..") },
		func() error { return x.Access(dead) },
		func() error { return x.Readlink(dead) },
		func() error { return x.Read(dead, 0, 100) },
		func() error { return x.Write(dead, 0, data, 100, nt.FILE_SYNC) },
		func() error { return x.Write(dead, 0, data, 100, nt.UNSTABLE) },
		func() error { return x.Create(dead, "zz_stale") },
		func() error { return x.Mkdir(dead, "zz_stale") },
		func() error { return x.Symlink(dead, "zz_stale", "t") },
		func() error { return x.Remove(dead, "a") },
		func() error { return x.Rmdir(dead, "a") },
		func() error { return x.Rename(dead, "a", dead, "b") },
		func() error { return x.Rename(dead, "a", LiveRef(liveDir), "zz_stale") },
		func() error { return x.Rename(LiveRef(liveDir), liveName, dead, "zz_stale") },
		func() error { return x.Rename(LiveRef(liveDir), liveName, dead, liveName) },
		func() error { return x.Readdir(dead, false, 4096) },
		func() error { return x.Readdir(dead, true, 4096) },
		func() error { return x.Fsinfo(dead) },
		func() error { return x.Pathconf(dead) },
		func() error { return x.Commit(dead, 0, 0) },
	}
	// the dead handle next to the live handle of the object that now has its inode number
	if dead.N != nil {
		for _, n := range x.M.LiveKind(nt.NF3DIR) {
			if n.Fileid == dead.N.Fileid && n != dead.N && len(n.Children) < 200 {
				re := n
				name := "a"
				if ns := sortedNames(re.Children); len(ns) > 0 {
					name = ns[0]
				}
				steps = append(steps,
					func() error { return x.Rename(LiveRef(re), name, dead, "zz_stale") },
					func() error { return x.Rename(dead, name, LiveRef(re), "zz_stale") },
					func() error { return x.Rename(LiveRef(re), name, dead, name) })
				St.Class("stale_sweeps_with_the_dead_and_the_live_handle_of_one_inode_number_in_one_rename")
				break
			}
		}
	}
	for _, f := range steps {
		if err := f(); err != nil {
			return err
		}
	}
	return nil
}

func TestC08Handles(t *testing.T) {
	rapid.Check(t, func(t *rapid.T) {
		unstable := rapid.Bool().Draw(t, "unstable")
		d := NewDisk(6000)
		s := StartSrv(d, unstable, false)
		x, err := NewExec(s, "C08")
		if err != nil {
			s.Stop()
			failf(t, "C08", nil, "%v", err)
		}
		defer func() { x.S.Stop() }()
		x.StrictStale = true
		x.Budget = 1500
		cfg := DefaultCfg()
		cfg.BadRefs, cfg.WrongKind, cfg.LongNames, cfg.HugeOffsets, cfg.BigWrites, cfg.MaxWriteBlks, cfg.MaxDepth = 15, 3, false, false, false, 4, 3
		excluded := 0
		cfg.Excluded = &excluded
		g := NewGen(x, cfg)
		cut := false
		fail := func(t *rapid.T, err error) {
			failf(t, "C08", map[string]any{"history": x.Log, "unstable": unstable}, "%v", err)
		}
		judge := func(t *rapid.T, err error) {
			if err == nil {
				return
			}
			if c08Relevant(err) {
				fail(t, err)
			}
			cut = true
		}
		base := g.Actions(judge)
		acts := map[string]func(*rapid.T){}
		for _, k := range []string{"create", "create2", "mkdir", "symlink", "write", "remove", "remove2", "rmdir", "rename", "rename2", "movedir",
			"lookup", "readdirplus", "misc", "restart", "setattr"} {
			acts[k] = base[k]
		}
		acts["remove3"], acts["restart2"], acts["rmdir2"], acts["mkdir2"] = base["remove"], base["restart"], base["rmdir"], base["mkdir"]
		// a file too large to be freed inside the request that removes it (its inode is released by the background
		// shrinker): made large by SETATTR (sparse) or by a write far out, then removed or replaced by a RENAME
		acts["bigremove"] = func(t *rapid.T) {
			files := g.unskipped(x.M.LiveKind(nt.NF3REG))
			if cut || len(files) == 0 {
				t.Skip("no file")
			}
			f := pick(t, files, "file")
			sz := uint64(pick(t, []int{520, 600, 1100}, "blocks")) * BlockSize
			if rapid.Bool().Draw(t, "sparse") {
				judge(t, x.Setattr(LiveRef(f), &sz, false))
			} else {
				judge(t, x.Write(LiveRef(f), sz-BlockSize, patternData(g.nextTag(), BlockSize), BlockSize, nt.FILE_SYNC))
			}
			if cut || !f.Alive {
				return
			}
			judge(t, x.Remove(LiveRef(f.Parent), f.Name))
			if !cut {
				x.call(func() { x.S.N.VerifWaitShrinkers() })
				St.Class("removed_files_released_by_the_background_shrinker")
			}
		}
		ncrash, nsweeps, nreusedSweeps := 0, 0, 0
		// crash: abandon the running server at a quiescent point and recover from a copy of its disk
		acts["crashrecover"] = func(t *rapid.T) {
			if ncrash >= 2 {
				t.Skip("enough crashes")
			}
			ncrash++
			if x.Unflushed && x.lastUnstable != nil && x.lastUnstable.Alive {
				judge(t, x.Commit(LiveRef(x.lastUnstable), 0, 0))
			}
			x.logf("CRASH (power cut at a quiescent point; a new server recovers from the disk image)")
			var img *Disk
			if err := x.call(func() {
				x.S.N.VerifWaitShrinkers()
				img = x.S.D.Clone()
				x.S.Stop()
				x.S = StartSrv(img, unstable, false)
			}); err != nil {
				judge(t, err)
				return
			}
			x.AfterRestart()
		}
		sweep := func(t *rapid.T) {
			dead := x.M.Dead()
			if len(dead) == 0 {
				t.Skip("no dead handle yet")
			}
			// a live directory with an entry, for the RENAME positions
			var ld *MNode
			var ln string
			for _, dn := range x.M.LiveKind(nt.NF3DIR) {
				if len(dn.Children) > 0 {
					ld, ln = dn, sortedNames(dn.Children)[0]
					break
				}
			}
			if ld == nil {
				t.Skip("no live entry")
			}
			live := map[uint64]bool{}
			for _, n := range x.M.Live() {
				live[n.Fileid] = true
			}
			n := pick(t, dead, "deadobj")
			// prefer a dead handle whose inode number is in use again
			for _, c := range dead {
				if live[c.Fileid] && rapid.Bool().Draw(t, "preferreused") {
					n = c
					break
				}
			}
			nsweeps++
			if live[n.Fileid] {
				nreusedSweeps++
			}
			judge(t, staleSweep(x, DeadRef(n), ld, ln))
		}
		acts["sweep"], acts["sweep2"], acts["sweep3"] = sweep, sweep, sweep
		steps := 0
		acts[""] = func(t *rapid.T) {
			steps++
			if cut || x.Budget < 60 {
				t.Skip("case cut short")
			}
		}
		t.Repeat(acts)
		if !cut {
			// every live object still answers to its one handle
			if err := x.CompareAll(); err != nil {
				judge(t, err)
			}
		}
		St.Eval(1)
		St.ClassN("stale_sweeps", nsweeps)
		St.ClassN("stale_sweeps_of_a_reused_inode_number", nreusedSweeps)
		St.ClassN("crash_recoveries", ncrash)
		if cut {
			St.Class("case_cut_short_by_another_oracle")
		}
		if excluded > 0 {
			St.ClassN("excluded_known_finding_draws", excluded)
		}
		if nreusedSweeps > 0 {
			St.NT(Hash(x.Log))
		}
		if St.WantSample(nreusedSweeps > 0) {
			St.Sample(map[string]any{"kind": "handle history", "sweeps": nsweeps, "sweeps_of_reused_numbers": nreusedSweeps, "restarts": x.NRestarts,
				"history": headLog(x.Log, 60)}, nreusedSweeps > 0)
		}
	})
}

// Inode-table exhaustion: every number is used, freed and used again; all handles must be distinct and the old ones stale.
func TestC08Exhaust(t *testing.T) {
	d := NewDisk(9000)
	d.SetRecord(false)
	s := StartSrv(d, true, false)
	defer func() { s.Stop() }()
	x, err := NewExec(s, "C08")
	if err != nil {
		t.Fatal(err)
	}
	x.StrictStale = true
	must := func(err error) {
		if err != nil {
			St.Violation("C08", err.Error(), map[string]any{"history": tailLog(x.Log, 20)})
			t.Fatalf("C08: %v", err)
		}
	}
	root := LiveRef(x.M.Root)
	seen := map[string]string{string(x.M.Root.FH): "/"}
	var first [][]byte
	round := func(r int) int {
		api := x.S.API()
		n := 0
		for di := 0; ; di++ {
			dn := fmt.Sprintf("r%dd%d", r, di)
			must(x.Mkdir(root, dn))
			dir := x.M.Root.Children[dn]
			if dir == nil {
				break
			}
			dfh := nt.Nfs_fh3{Data: dir.FH}
			if os.Getenv("VERIF_DEBUG") != "" {
				fs := x.S.N.VerifFsState()
				fmt.Printf("round %d dir %s handle %x free inodes %d\n", r, dn, dir.FH, fs.Ialloc.NumFree())
			}
			full := false
			for i := 0; i < 2000; i++ {
				if os.Getenv("VERIF_DEBUG") != "" && r == 1 && (i < 3 || i%100 == 0) {
					fmt.Printf("round 1 create %s/f%d free=%d\n", dn, i, x.S.N.VerifFsState().Ialloc.NumFree())
				}
				res := api.NFSPROC3_CREATE(nt.CREATE3args{Where: nt.Diropargs3{Dir: dfh, Name: nt.Filename3(fmt.Sprintf("f%d", i))}})
				if res.Status != nt.NFS3_OK {
					full = true
					break
				}
				h := string(res.Resok.Obj.Handle.Data)
				if prev, dup := seen[h]; dup {
					must(fmt.Errorf("round %d: new file %s/f%d got handle %x, already issued for %s", r, dn, i, h, prev))
				}
				seen[h] = fmt.Sprintf("round %d %s/f%d", r, dn, i)
				if r == 0 {
					first = append(first, res.Resok.Obj.Handle.Data)
				}
				n++
			}
			if full {
				break
			}
		}
		return n
	}
	n0 := round(0)
	if n0 < 30000 {
		must(fmt.Errorf("only %d files could be created before the inode table was exhausted", n0))
	}
	// remove everything through the API (the model only knows the directories)
	api := x.S.API()
	for _, dn := range sortedNames(x.M.Root.Children) {
		dfh := nt.Nfs_fh3{Data: x.M.Root.Children[dn].FH}
		ents, _, err := x.ListDir(api, dfh, false, 65536)
		must(err)
		for _, e := range ents {
			if e.Name != "." && e.Name != ".." {
				if r := api.NFSPROC3_REMOVE(nt.REMOVE3args{Object: nt.Diropargs3{Dir: dfh, Name: nt.Filename3(e.Name)}}); r.Status != nt.NFS3_OK {
					must(fmt.Errorf("REMOVE %s/%s: %d", dn, e.Name, r.Status))
				}
			}
		}
		must(x.Rmdir(root, dn))
	}
	must(x.Restart())
	n1 := round(1)
	if n1 != n0 {
		must(fmt.Errorf("after freeing all %d inodes only %d could be allocated again", n0, n1))
	}
	// every handle of round 0 is stale although its inode number is in use again
	api = x.S.API()
	for i, h := range first {
		if i%97 != 0 {
			continue
		}
		r := api.NFSPROC3_GETATTR(nt.GETATTR3args{Object: nt.Nfs_fh3{Data: h}})
		if r.Status != nt.NFS3ERR_STALE {
			must(fmt.Errorf("handle %x of a file removed in round 0 answers GETATTR with %d after its inode number was reused", h, r.Status))
		}
		St.NT(Hash("exhaust", i))
	}
	St.Eval(n0 + n1)
	St.ClassN("inode_exhaustion_files_created", n0+n1)
	St.Sample(map[string]any{"kind": "inode exhaustion", "files_round0": n0, "files_round1": n1, "stale_probes": len(first)/97 + 1}, true)
}

// Handles seen by a client are never issued again for another object after a crash: the disk stops
// accepting writes at some moment (that is the crash image) while several clients keep issuing
// requests for a while; every handle a reply carried in that window either names the same live
// object after recovery or is stale for ever - also for objects created after recovery.
func TestC08GateCrash(t *testing.T) {
	rapid.Check(t, func(t *rapid.T) {
		unstable := rapid.Bool().Draw(t, "unstable")
		d := NewDisk(6000)
		d.SetRecord(false)
		s := StartSrv(d, unstable, false)
		x, err := NewExec(s, "C08")
		if err != nil {
			s.Stop()
			failf(t, "C08", nil, "%v", err)
		}
		root := LiveRef(x.M.Root)
		// some history with removals, so that low inode numbers are free and have been used before
		for i := 0; i < rapid.IntRange(0, 6).Draw(t, "pre"); i++ {
			name := pick(t, smallNames, "name")
			if x.M.Root.Children[name] == nil {
				if x.Create(root, name) != nil {
					s.Stop()
					return
				}
			} else if x.Remove(root, name) != nil {
				s.Stop()
				return
			}
		}
		if rapid.Bool().Draw(t, "restart") {
			if x.Restart() != nil {
				x.S.Stop()
				return
			}
		}
		s = x.S
		api := s.API()
		rootfh := s.RootFH()
		img := d.CloseGate() // from here on nothing reaches the disk: this is the crash image
		type seen struct {
			name string
			fh   []byte
			how  string
		}
		var mu sync.Mutex
		var observed []seen
		nclients := rapid.IntRange(2, 4).Draw(t, "clients")
		names := []string{"g0", "g1", "a", "b"}
		var wg sync.WaitGroup
		stop := make(chan struct{})
		progs := make([][]string, nclients)
		for c := range progs {
			for i := 0; i < rapid.IntRange(1, 3).Draw(t, "nops"); i++ {
				progs[c] = append(progs[c], pick(t, []string{"create", "mkdir", "lookup", "lookup", "lookup"}, "op")+" "+pick(t, names, "gname"))
			}
		}
		for c := range progs {
			wg.Add(1)
			go func(c int) {
				defer wg.Done()
				for _, op := range progs[c] {
					kind, name := op[:strings.Index(op, " ")], op[strings.Index(op, " ")+1:]
					for rep := 0; rep < 40; rep++ {
						var fh []byte
						switch kind {
						case "create":
							r := api.NFSPROC3_CREATE(nt.CREATE3args{Where: nt.Diropargs3{Dir: rootfh, Name: nt.Filename3(name)}})
							if r.Status == nt.NFS3_OK {
								fh = r.Resok.Obj.Handle.Data
							}
							rep = 40
						case "mkdir":
							r := api.NFSPROC3_MKDIR(nt.MKDIR3args{Where: nt.Diropargs3{Dir: rootfh, Name: nt.Filename3(name)}})
							if r.Status == nt.NFS3_OK {
								fh = r.Resok.Obj.Handle.Data
							}
							rep = 40
						default:
							r := api.NFSPROC3_LOOKUP(nt.LOOKUP3args{What: nt.Diropargs3{Dir: rootfh, Name: nt.Filename3(name)}})
							if r.Status == nt.NFS3_OK {
								fh = r.Resok.Object.Data
							}
						}
						select {
						case <-stop:
							return // replies after the device came back are not part of the window
						default:
						}
						if fh != nil {
							mu.Lock()
							observed = append(observed, seen{name, fh, kind})
							mu.Unlock()
						}
						if kind == "lookup" {
							time.Sleep(200 * time.Microsecond)
						}
					}
				}
			}(c)
		}
		time.Sleep(time.Duration(rapid.IntRange(3, 15).Draw(t, "window_ms")) * time.Millisecond)
		close(stop)
		mu.Lock()
		window := append([]seen{}, observed...)
		mu.Unlock()
		d.OpenGate()
		wg.Wait()
		s.Stop()
		// recover from the crash image
		d2 := NewDiskFrom(d.Size(), img)
		d2.SetRecord(false)
		s2 := StartSrv(d2, unstable, false)
		defer s2.Stop()
		api2 := s2.API()
		root2 := s2.RootFH()
		fail := func(format string, a ...any) {
			failf(t, "C08", map[string]any{"history": x.Log, "programs": progs, "handles_seen_while_the_disk_was_cut_off": fmt.Sprintf("%d", len(window))}, format, a...)
		}
		newSeen := 0
		dead := map[string]seen{}
		for _, o := range window {
			lk := api2.NFSPROC3_LOOKUP(nt.LOOKUP3args{What: nt.Diropargs3{Dir: root2, Name: nt.Filename3(o.name)}})
			ga := api2.NFSPROC3_GETATTR(nt.GETATTR3args{Object: nt.Nfs_fh3{Data: o.fh}})
			if lk.Status == nt.NFS3_OK && string(lk.Resok.Object.Data) == string(o.fh) {
				continue // the object survived: same name, same handle
			}
			newSeen++
			if ga.Status != nt.NFS3ERR_STALE {
				fail("a client received handle %x (%s %q) while the disk was cut off; after recovery the object is gone, yet GETATTR of that handle answers %d, not NFS3ERR_STALE", o.fh, o.how, o.name, ga.Status)
			}
			dead[string(o.fh)] = o
		}
		// new objects after recovery must not get any of those handles
		for i := 0; i < 8; i++ {
			r := api2.NFSPROC3_CREATE(nt.CREATE3args{Where: nt.Diropargs3{Dir: root2, Name: nt.Filename3(fmt.Sprintf("after%d", i))}})
			if r.Status != nt.NFS3_OK {
				break
			}
			if o, dup := dead[string(r.Resok.Obj.Handle.Data)]; dup {
				fail("handle %x was returned to a client (%s %q) before the crash; after recovery it is issued again for the new object after%d", o.fh, o.how, o.name, i)
			}
		}
		St.Eval(1)
		St.ClassN("handles_seen_while_the_disk_was_cut_off", len(window))
		if newSeen > 0 {
			St.Class("window_with_handles_of_objects_lost_in_the_crash")
		}
		St.NT(Hash("gate", x.Log, progs))
	})
}

// A request is between dropping its locks and taking them again (LOOKUP/REMOVE of a child with a smaller
// inode number than its directory does that) while another client moves the child out, removes the directory,
// creates a new directory that gets the same inode number (the inode table is otherwise full) and moves the
// child into it under the same name.  The first request holds the handle of a deleted directory: it must not
// act on the new one.  Enumerated: request kind x lock/commit point at which it is held x write mode.
func TestC08Reuse(t *testing.T) {
	inodeFullOnce.Do(buildInodeFullImage)
	shard, nshards := EnvInt("VERIF_SHARD", 0), EnvInt("VERIF_NSHARDS", 1)
	St.Exhaustive(true)
	type rcase struct {
		Kind     string
		Hook     int
		Unstable bool
	}
	var cases []rcase
	for _, k := range []string{"remove", "rename", "lookup", "setattr-child"} {
		for h := 0; h < 5; h++ {
			for _, u := range []bool{true, false} {
				cases = append(cases, rcase{k, h, u})
			}
		}
	}
	// renames between two directories (they drop their locks and take {from-dir, to-dir, source} again in inode
	// order): out of the directory whose handle goes stale, and into it
	for _, k := range []string{"rename-out", "rename-in"} {
		for h := 0; h < 12; h++ {
			cases = append(cases, rcase{k, h, h%2 == 0})
		}
	}
	nrun, nreused, npaused := 0, 0, 0
	for i, rc := range cases {
		if i%nshards != shard {
			continue
		}
		d := NewDiskFrom(inodeFullDisk, inodeFullImg)
		d.SetRecord(false)
		s := StartSrv(d, rc.Unstable, false)
		api := s.API()
		root := s.RootFH()
		var hist []string
		logf := func(format string, a ...any) { hist = append(hist, fmt.Sprintf(format, a...)) }
		fail := func(format string, a ...any) {
			msg := fmt.Sprintf(format, a...)
			detail := map[string]any{"case": fmt.Sprintf("%+v", rc), "history": hist}
			St.Violation("C08", msg, detail)
			t.Fatalf("C08: %s\n%s", msg, strings.Join(hist, "\n"))
		}
		lookup := func(dir nt.Nfs_fh3, name string) (nt.Nfs_fh3, uint64, nt.Nfsstat3) {
			r := api.NFSPROC3_LOOKUP(nt.LOOKUP3args{What: nt.Diropargs3{Dir: dir, Name: nt.Filename3(name)}})
			return r.Resok.Object, uint64(r.Resok.Obj_attributes.Attributes.Fileid), r.Status
		}
		remove := func(dir nt.Nfs_fh3, name string) nt.Nfsstat3 {
			return api.NFSPROC3_REMOVE(nt.REMOVE3args{Object: nt.Diropargs3{Dir: dir, Name: nt.Filename3(name)}}).Status
		}
		rename := func(fd nt.Nfs_fh3, fn string, td nt.Nfs_fh3, tn string) nt.Nfsstat3 {
			return api.NFSPROC3_RENAME(nt.RENAME3args{From: nt.Diropargs3{Dir: fd, Name: nt.Filename3(fn)}, To: nt.Diropargs3{Dir: td, Name: nt.Filename3(tn)}}).Status
		}
		// two free inode numbers, a low and a high one
		p0, _, st0 := lookup(root, inodeFullDirs[0])
		p1, _, st1 := lookup(root, inodeFullDirs[1])
		if rc.Kind == "rename-in" {
			remove(p0, "p6") // a third free inode number, for the file that is moved in
		}
		if st0 != nt.NFS3_OK || st1 != nt.NFS3_OK || remove(p0, "p5") != nt.NFS3_OK || remove(p1, "p5") != nt.NFS3_OK {
			s.Stop()
			St.Class("setup_not_possible_with_this_build_case_not_judged")
			continue
		}
		c1 := api.NFSPROC3_CREATE(nt.CREATE3args{Where: nt.Diropargs3{Dir: root, Name: "g1"}})
		c2 := api.NFSPROC3_CREATE(nt.CREATE3args{Where: nt.Diropargs3{Dir: root, Name: "g2"}})
		if c1.Status != nt.NFS3_OK || c2.Status != nt.NFS3_OK {
			s.Stop()
			St.Class("setup_not_possible_with_this_build_case_not_judged")
			continue
		}
		if rc.Kind == "rename-in" {
			if cx := api.NFSPROC3_CREATE(nt.CREATE3args{Where: nt.Diropargs3{Dir: root, Name: "x"}}); cx.Status != nt.NFS3_OK {
				s.Stop()
				St.Class("setup_not_possible_with_this_build_case_not_judged")
				continue
			}
		}
		lo, hi := "g1", "g2"
		loid, hiid := uint64(c1.Resok.Obj_attributes.Attributes.Fileid), uint64(c2.Resok.Obj_attributes.Attributes.Fileid)
		fh := c1.Resok.Obj.Handle
		if loid > hiid {
			lo, hi, loid, hiid, fh = hi, lo, hiid, loid, c2.Resok.Obj.Handle
		}
		remove(root, hi)
		md := api.NFSPROC3_MKDIR(nt.MKDIR3args{Where: nt.Diropargs3{Dir: root, Name: "d"}})
		if md.Status != nt.NFS3_OK || uint64(md.Resok.Obj_attributes.Attributes.Fileid) != hiid {
			s.Stop()
			St.Class("setup_not_possible_with_this_build_case_not_judged")
			continue
		}
		dh := md.Resok.Obj.Handle
		if st := rename(root, lo, dh, "f"); st != nt.NFS3_OK {
			s.Stop()
			St.Class("setup_not_possible_with_this_build_case_not_judged")
			continue
		}
		logf("inode table full; directory /d has inode %d, its only entry f has inode %d", hiid, loid)
		// client 0, held at its hook-th lock/commit point
		mon := s.Mon()
		reached, othersDone := make(chan struct{}), make(chan struct{})
		var reachedOnce sync.Once
		var gid0 uint64
		var nhook int32
		paused := false
		mon.SetYield(func(point string) {
			if goid() != atomic.LoadUint64(&gid0) {
				return
			}
			if int(atomic.AddInt32(&nhook, 1))-1 != rc.Hook {
				return
			}
			paused = true
			reachedOnce.Do(func() { close(reached) })
			select {
			case <-othersDone:
			case <-time.After(150 * time.Millisecond):
			}
		})
		var st0c nt.Nfsstat3
		var lfh nt.Nfs_fh3
		done0 := make(chan struct{})
		var r1, r2, r3, r4 nt.Nfsstat3
		var eid uint64
		var eh nt.Nfs_fh3
		o := Guard(30*time.Second, func() {
			go func() {
				defer close(done0)
				defer reachedOnce.Do(func() { close(reached) })
				atomic.StoreUint64(&gid0, goid())
				switch rc.Kind {
				case "remove":
					st0c = remove(dh, "f")
				case "rename":
					st0c = rename(dh, "f", dh, "g")
				case "rename-out":
					st0c = rename(dh, "f", root, "g")
				case "rename-in":
					st0c = rename(root, "x", dh, "g")
				case "lookup":
					lfh, _, st0c = lookup(dh, "f")
				case "setattr-child":
					// not through the directory at all: must simply keep working
					st0c = api.NFSPROC3_SETATTR(nt.SETATTR3args{Object: fh, New_attributes: nt.Sattr3{Size: nt.Set_size3{Set_it: true, Size: 10}}}).Status
				}
			}()
			<-reached
			r1 = rename(dh, "f", root, "t")
			r2 = api.NFSPROC3_RMDIR(nt.RMDIR3args{Object: nt.Diropargs3{Dir: root, Name: "d"}}).Status
			me := api.NFSPROC3_MKDIR(nt.MKDIR3args{Where: nt.Diropargs3{Dir: root, Name: "e"}})
			r3, eh, eid = me.Status, me.Resok.Obj.Handle, uint64(me.Resok.Obj_attributes.Attributes.Fileid)
			if r3 == nt.NFS3_OK {
				r4 = rename(root, "t", eh, "f")
			}
			close(othersDone)
			<-done0
		})
		mon.SetYield(nil)
		logf("client 0: %s through the handle of /d (held at its lock/commit point #%d: %v) -> %d", rc.Kind, rc.Hook, paused, st0c)
		logf("client 1 meanwhile: RENAME /d/f -> /t: %d; RMDIR /d: %d; MKDIR /e: %d (inode %d); RENAME /t -> /e/f: %d", r1, r2, r3, eid, r4)
		if o.Slow {
			s.Stop()
			continue
		}
		if o.Hung || o.Panic != "" {
			fail("the requests did not return: %s %s", o.Why, o.Panic)
		}
		nrun++
		if paused {
			npaused++
		}
		reused := r1 == nt.NFS3_OK && r2 == nt.NFS3_OK && r3 == nt.NFS3_OK && r4 == nt.NFS3_OK && eid == hiid
		if reused {
			nreused++
			if paused {
				St.NT(Hash("c08reuse", i))
			}
		}
		switch rc.Kind {
		case "rename-in":
			// /d can only have been removed while it was empty: "x was moved into /d" and "/d was removed" cannot both have happened
			if r2 == nt.NFS3_OK && st0c == nt.NFS3_OK {
				fail("RENAME /x -> /d/g through the handle of /d succeeded and RMDIR /d succeeded: x went into the new directory /e that got /d's inode number (or was lost with /d)")
			}
			if st0c != nt.NFS3_OK {
				if _, _, st := lookup(root, "x"); st != nt.NFS3_OK {
					fail("RENAME /x -> /d/g failed with %d, but /x is gone", st0c)
				}
			}
		case "remove", "rename", "rename-out":
			// both "f was moved out of /d" and "f was removed from / renamed inside /d" cannot have happened
			if r1 == nt.NFS3_OK && st0c == nt.NFS3_OK {
				fail("%s of f through the handle of the deleted directory /d succeeded although f had been moved out of /d before: it acted on the new directory /e that got /d's inode number", strings.ToUpper(rc.Kind))
			}
		case "lookup":
			if st0c == nt.NFS3_OK && !bytes.Equal(lfh.Data, fh.Data) {
				fail("LOOKUP returned another object's handle")
			}
		case "setattr-child":
			if st0c != nt.NFS3_OK {
				fail("SETATTR through the live handle of f failed with %d while f was being moved", st0c)
			}
		}
		if reused {
			got, _, st := lookup(eh, "f")
			if st0c != nt.NFS3_OK || rc.Kind == "lookup" || rc.Kind == "setattr-child" || rc.Kind == "rename-in" {
				if st != nt.NFS3_OK || !bytes.Equal(got.Data, fh.Data) {
					fail("after everything returned, /e/f is gone (LOOKUP: %d) although no successful request removed it", st)
				}
			}
			// the old handle is dead for every later request
			if _, _, st := lookup(dh, "f"); st != nt.NFS3ERR_STALE {
				fail("LOOKUP through the handle of the deleted directory /d answers %d, not STALE (inode %d now belongs to /e)", st, hiid)
			}
		}
		s.Stop()
		St.Eval(1)
	}
	St.ClassN("cases_where_the_new_directory_reused_the_inode_number", nreused)
	St.ClassN("cases_with_the_request_held_inside_its_window", npaused)
	St.Sample(map[string]any{"kind": "stale directory handle vs. reuse of its inode number under a held request", "cases_in_this_shard": nrun, "reused": nreused}, true)
}

// A working set larger than the inode cache: 2-6 clients look at 160 files through their handles, each starting at
// another file, on a cold cache, next to writers of the shared files - every handle must keep answering with the
// object it was issued for (cache entries are evicted and re-filled while other requests hold or wait for them).
func TestC08BigSet(t *testing.T) {
	rapid.Check(t, func(t *rapid.T) { runBigSet(t, "C08") })
}

// The same reuse window inside CREATE / MKDIR / SYMLINK: the request is handed the number of an inode whose blocks
// are still being freed (a removed 600-block file, server stopped with the shrinker interrupted), gives up its
// transaction - and with it the lock of its directory -, finishes the free in transactions of its own and tries
// again.  While it is held at one of the lock/commit/abort points of that detour another client removes the (still
// empty) directory and makes a new one, which receives the directory's inode number (the table is otherwise full).
// The held request carries the handle of a directory that no longer exists: it must not put its object into the new
// one.  Enumerated: request kind x point at which it is held.
func TestC08ReuseCreate(t *testing.T) {
	inodeFullOnce.Do(buildInodeFullImage)
	shard, nshards := EnvInt("VERIF_SHARD", 0), EnvInt("VERIF_NSHARDS", 1)
	St.Exhaustive(true)
	type rcase struct {
		Kind string
		Hook int
	}
	var cases []rcase
	for _, k := range []string{"create", "mkdir", "symlink"} {
		for h := 0; h < 16; h++ {
			cases = append(cases, rcase{k, h})
		}
	}
	nrun, nreused, npaused, nhalf := 0, 0, 0, 0
	for i, rc := range cases {
		if i%nshards != shard {
			continue
		}
		d := NewDiskFrom(inodeFullDisk, inodeFullImg)
		d.SetRecord(false)
		s := StartSrv(d, i%2 == 0, false)
		api := s.API()
		root := s.RootFH()
		var hist []string
		logf := func(format string, a ...any) { hist = append(hist, fmt.Sprintf(format, a...)) }
		fail := func(format string, a ...any) {
			msg := fmt.Sprintf(format, a...)
			detail := map[string]any{"case": fmt.Sprintf("%+v", rc), "history": hist}
			St.Violation("C08", msg, detail)
			t.Fatalf("C08: %s\n%s", msg, strings.Join(hist, "\n"))
		}
		notJudged := func() {
			s.Stop()
			St.Class("setup_not_possible_with_this_build_case_not_judged")
		}
		lookup := func(dir nt.Nfs_fh3, name string) (nt.Nfs_fh3, uint64, nt.Nfsstat3) {
			r := api.NFSPROC3_LOOKUP(nt.LOOKUP3args{What: nt.Diropargs3{Dir: dir, Name: nt.Filename3(name)}})
			return r.Resok.Object, uint64(r.Resok.Obj_attributes.Attributes.Fileid), r.Status
		}
		remove := func(dir nt.Nfs_fh3, name string) nt.Nfsstat3 {
			return api.NFSPROC3_REMOVE(nt.REMOVE3args{Object: nt.Diropargs3{Dir: dir, Name: nt.Filename3(name)}}).Status
		}
		// two free inode numbers: the lower one for the big file, the higher one for the directory
		p0, _, st0 := lookup(root, inodeFullDirs[0])
		p1, _, st1 := lookup(root, inodeFullDirs[1])
		if st0 != nt.NFS3_OK || st1 != nt.NFS3_OK || remove(p0, "p5") != nt.NFS3_OK || remove(p1, "p5") != nt.NFS3_OK {
			notJudged()
			continue
		}
		c1 := api.NFSPROC3_CREATE(nt.CREATE3args{Where: nt.Diropargs3{Dir: root, Name: "g1"}})
		c2 := api.NFSPROC3_CREATE(nt.CREATE3args{Where: nt.Diropargs3{Dir: root, Name: "g2"}})
		if c1.Status != nt.NFS3_OK || c2.Status != nt.NFS3_OK {
			notJudged()
			continue
		}
		big, hi := "g1", "g2"
		bigid, hiid := uint64(c1.Resok.Obj_attributes.Attributes.Fileid), uint64(c2.Resok.Obj_attributes.Attributes.Fileid)
		bigfh := c1.Resok.Obj.Handle
		if bigid > hiid {
			big, hi, bigid, hiid, bigfh = hi, big, hiid, bigid, c2.Resok.Obj.Handle
		}
		remove(root, hi)
		md := api.NFSPROC3_MKDIR(nt.MKDIR3args{Where: nt.Diropargs3{Dir: root, Name: "d"}})
		if md.Status != nt.NFS3_OK || uint64(md.Resok.Obj_attributes.Attributes.Fileid) != hiid {
			notJudged()
			continue
		}
		dh := md.Resok.Obj.Handle
		wok := true
		for j := uint64(0); j < 2; j++ {
			w := api.NFSPROC3_WRITE(nt.WRITE3args{File: bigfh, Offset: nt.Offset3(j * 300 * BlockSize), Count: 300 * BlockSize, Stable: nt.FILE_SYNC, Data: patternData(uint32(70+j), 300*BlockSize)})
			wok = wok && w.Status == nt.NFS3_OK
		}
		if !wok || remove(root, big) != nt.NFS3_OK {
			notJudged()
			continue
		}
		s.StopCrash()
		s.start()
		api = s.API()
		half := false
		for _, n := range Fsck(s.N.VerifFsState(), FsckOpts{}).HalfFreedFree {
			half = half || n == bigid
		}
		if half {
			nhalf++
		}
		logf("inode table full; the empty directory /d has inode %d; the only free inode number, %d, belongs to a removed 600-block file (free interrupted by a server stop: %v)", hiid, bigid, half)
		mon := s.Mon()
		reached, othersDone := make(chan struct{}), make(chan struct{})
		var reachedOnce sync.Once
		var gid0 uint64
		var nhook int32
		paused := false
		pausedAt := ""
		mon.SetYield(func(point string) {
			if goid() != atomic.LoadUint64(&gid0) {
				return
			}
			if int(atomic.AddInt32(&nhook, 1))-1 != rc.Hook {
				return
			}
			paused, pausedAt = true, point
			reachedOnce.Do(func() { close(reached) })
			select {
			case <-othersDone:
			case <-time.After(150 * time.Millisecond):
			}
		})
		var st0c nt.Nfsstat3
		var newid uint64
		done0 := make(chan struct{})
		var r2, r3 nt.Nfsstat3
		var eid uint64
		var eh nt.Nfs_fh3
		o := Guard(30*time.Second, func() {
			go func() {
				defer close(done0)
				defer reachedOnce.Do(func() { close(reached) })
				atomic.StoreUint64(&gid0, goid())
				where := nt.Diropargs3{Dir: dh, Name: "n"}
				switch rc.Kind {
				case "create":
					r := api.NFSPROC3_CREATE(nt.CREATE3args{Where: where})
					st0c, newid = r.Status, uint64(r.Resok.Obj_attributes.Attributes.Fileid)
				case "mkdir":
					r := api.NFSPROC3_MKDIR(nt.MKDIR3args{Where: where})
					st0c, newid = r.Status, uint64(r.Resok.Obj_attributes.Attributes.Fileid)
				case "symlink":
					r := api.NFSPROC3_SYMLINK(nt.SYMLINK3args{Where: where, Symlink: nt.Symlinkdata3{Symlink_data: "target"}})
					st0c, newid = r.Status, uint64(r.Resok.Obj_attributes.Attributes.Fileid)
				}
			}()
			<-reached
			r2 = api.NFSPROC3_RMDIR(nt.RMDIR3args{Object: nt.Diropargs3{Dir: root, Name: "d"}}).Status
			me := api.NFSPROC3_MKDIR(nt.MKDIR3args{Where: nt.Diropargs3{Dir: root, Name: "e"}})
			r3, eh, eid = me.Status, me.Resok.Obj.Handle, uint64(me.Resok.Obj_attributes.Attributes.Fileid)
			close(othersDone)
			<-done0
		})
		mon.SetYield(nil)
		logf("client 0: %s of n through the handle of /d (held at its lock/commit point #%d: %v %s) -> %d (inode %d)", strings.ToUpper(rc.Kind), rc.Hook, paused, pausedAt, st0c, newid)
		logf("client 1 meanwhile: RMDIR /d: %d; MKDIR /e: %d (inode %d)", r2, r3, eid)
		if o.Slow {
			s.Stop()
			continue
		}
		if o.Hung || o.Panic != "" {
			fail("the requests did not return: %s %s", o.Why, o.Panic)
		}
		nrun++
		if paused {
			npaused++
			St.Class(fmt.Sprintf("create_cases_held_at_%s_rmdir_%v_request_%v", pausedAt, r2 == nt.NFS3_OK, st0c == nt.NFS3_OK))
		}
		reused := r2 == nt.NFS3_OK && r3 == nt.NFS3_OK && eid == hiid
		if reused {
			nreused++
			if paused {
				St.NT(Hash("c08reusecreate", i))
			}
		}
		// /d can only have been removed while it was empty: "n was made in /d" and "/d was removed" cannot both have happened
		if r2 == nt.NFS3_OK && st0c == nt.NFS3_OK {
			fail("%s of n through the handle of /d succeeded and RMDIR /d succeeded: n went into the new directory /e that got /d's inode number (or was lost with /d)", strings.ToUpper(rc.Kind))
		}
		if r2 != nt.NFS3_OK && st0c != nt.NFS3_OK && paused {
			// neither happened although nothing else was going on: RMDIR may only fail when n is there
			if _, _, st := lookup(dh, "n"); st != nt.NFS3_OK {
				fail("RMDIR of the empty directory /d failed with %d and the %s in it failed with %d", r2, strings.ToUpper(rc.Kind), st0c)
			}
		}
		if r3 == nt.NFS3_OK {
			if _, _, st := lookup(eh, "n"); st == nt.NFS3_OK {
				fail("the new directory /e has an entry n that nobody made there (the %s went through the handle of the removed /d and answered %d)", strings.ToUpper(rc.Kind), st0c)
			}
		}
		if reused {
			if _, _, st := lookup(dh, "n"); st != nt.NFS3ERR_STALE {
				fail("LOOKUP through the handle of the deleted directory /d answers %d, not STALE (inode %d now belongs to /e)", st, hiid)
			}
		}
		if st0c == nt.NFS3_OK {
			if _, id, st := lookup(dh, "n"); st != nt.NFS3_OK || id != newid {
				fail("%s /d/n answered OK (inode %d), LOOKUP /d/n afterwards: status %d inode %d", strings.ToUpper(rc.Kind), newid, st, id)
			}
		}
		s.Stop()
		St.Eval(1)
	}
	St.ClassN("create_cases_where_the_new_directory_reused_the_inode_number", nreused)
	St.ClassN("create_cases_with_the_request_held_inside_its_window", npaused)
	St.ClassN("create_cases_starting_from_a_half_freed_inode", nhalf)
	St.Sample(map[string]any{"kind": "CREATE/MKDIR/SYMLINK through a directory handle that goes stale while the request finishes an interrupted free", "cases_in_this_shard": nrun, "reused": nreused, "held": npaused, "half_freed_start": nhalf}, true)
}
