package checks

// C08 - a file handle denotes one object for ever; stale handles stay stale.

import (
	"fmt"
	"os"
	"strings"
	"sync"
	"testing"
	"time"

	nt "github.com/mit-pdos/go-nfsd/nfstypes"
	"pgregory.net/rapid"
)

// c08Relevant: handle identity and staleness failures; anything else is another property's business.
func c08Relevant(err error) bool {
	if err == nil {
		return false
	}
	m := err.Error()
	for _, k := range []string{"handle", "stale", "STALE", "file id", "performed a request the reference refuses"} {
		if strings.Contains(m, k) {
			return true
		}
	}
	return false
}

// staleSweep presents a dead handle to every procedure and every handle-typed argument position.
func staleSweep(x *Exec, dead Ref, liveDir *MNode, liveName string) error {
	sz := uint64(100)
	data := patternData(0xdead, 100)
	steps := []func() error{
		func() error { return x.Getattr(dead) },
		func() error { return x.Setattr(dead, &sz, false) },
		func() error { return x.Setattr(dead, nil, true) },
		func() error { return x.Lookup(dead, "a") },
		func() error { return x.Lookup(dead, ".") },
		func() error { return x.Lookup(dead, "..") },
		func() error { return x.Access(dead) },
		func() error { return x.Readlink(dead) },
		func() error { return x.Read(dead, 0, 100) },
		func() error { return x.Write(dead, 0, data, 100, nt.FILE_SYNC) },
		func() error { return x.Write(dead, 0, data, 100, nt.UNSTABLE) },
		func() error { return x.Create(dead, "zz_stale") },
		func() error { return x.Mkdir(dead, "zz_stale") },
		func() error { return x.Symlink(dead, "zz_stale", "t") },
		func() error { return x.Remove(dead, "a") },
		func() error { return x.Rmdir(dead, "a") },
		func() error { return x.Rename(dead, "a", dead, "b") },
		func() error { return x.Rename(dead, "a", LiveRef(liveDir), "zz_stale") },
		func() error { return x.Rename(LiveRef(liveDir), liveName, dead, "zz_stale") },
		func() error { return x.Rename(LiveRef(liveDir), liveName, dead, liveName) },
		func() error { return x.Readdir(dead, false, 4096) },
		func() error { return x.Readdir(dead, true, 4096) },
		func() error { return x.Fsinfo(dead) },
		func() error { return x.Pathconf(dead) },
		func() error { return x.Commit(dead, 0, 0) },
	}
	for _, f := range steps {
		if err := f(); err != nil {
			return err
		}
	}
	return nil
}

func TestC08Handles(t *testing.T) {
	rapid.Check(t, func(t *rapid.T) {
		unstable := rapid.Bool().Draw(t, "unstable")
		d := NewDisk(6000)
		s := StartSrv(d, unstable, false)
		x, err := NewExec(s, "C08")
		if err != nil {
			s.Stop()
			failf(t, "C08", nil, "%v", err)
		}
		defer func() { x.S.Stop() }()
		x.StrictStale = true
		x.Budget = 1500
		cfg := DefaultCfg()
		cfg.BadRefs, cfg.WrongKind, cfg.LongNames, cfg.HugeOffsets, cfg.BigWrites, cfg.MaxWriteBlks, cfg.MaxDepth = 15, 3, false, false, false, 4, 3
		excluded := 0
		cfg.Excluded = &excluded
		g := NewGen(x, cfg)
		cut := false
		fail := func(t *rapid.T, err error) {
			failf(t, "C08", map[string]any{"history": x.Log, "unstable": unstable}, "%v", err)
		}
		judge := func(t *rapid.T, err error) {
			if err == nil {
				return
			}
			if c08Relevant(err) {
				fail(t, err)
			}
			cut = true
		}
		base := g.Actions(judge)
		acts := map[string]func(*rapid.T){}
		for _, k := range []string{"create", "create2", "mkdir", "symlink", "write", "remove", "remove2", "rmdir", "rename", "rename2",
			"lookup", "readdirplus", "misc", "restart", "setattr"} {
			acts[k] = base[k]
		}
		acts["remove3"], acts["restart2"], acts["rmdir2"], acts["mkdir2"] = base["remove"], base["restart"], base["rmdir"], base["mkdir"]
		ncrash, nsweeps, nreusedSweeps := 0, 0, 0
		// crash: abandon the running server at a quiescent point and recover from a copy of its disk
		acts["crashrecover"] = func(t *rapid.T) {
			if ncrash >= 2 {
				t.Skip("enough crashes")
			}
			ncrash++
			if x.Unflushed && x.lastUnstable != nil && x.lastUnstable.Alive {
				judge(t, x.Commit(LiveRef(x.lastUnstable), 0, 0))
			}
			x.logf("CRASH (power cut at a quiescent point; a new server recovers from the disk image)")
			var img *Disk
			if err := x.call(func() {
				x.S.N.VerifWaitShrinkers()
				img = x.S.D.Clone()
				x.S.Stop()
				x.S = StartSrv(img, unstable, false)
			}); err != nil {
				judge(t, err)
				return
			}
			x.AfterRestart()
		}
		sweep := func(t *rapid.T) {
			dead := x.M.Dead()
			if len(dead) == 0 {
				t.Skip("no dead handle yet")
			}
			// a live directory with an entry, for the RENAME positions
			var ld *MNode
			var ln string
			for _, dn := range x.M.LiveKind(nt.NF3DIR) {
				if len(dn.Children) > 0 {
					ld, ln = dn, sortedNames(dn.Children)[0]
					break
				}
			}
			if ld == nil {
				t.Skip("no live entry")
			}
			live := map[uint64]bool{}
			for _, n := range x.M.Live() {
				live[n.Fileid] = true
			}
			n := pick(t, dead, "deadobj")
			// prefer a dead handle whose inode number is in use again
			for _, c := range dead {
				if live[c.Fileid] && rapid.Bool().Draw(t, "preferreused") {
					n = c
					break
				}
			}
			nsweeps++
			if live[n.Fileid] {
				nreusedSweeps++
			}
			judge(t, staleSweep(x, DeadRef(n), ld, ln))
		}
		acts["sweep"], acts["sweep2"], acts["sweep3"] = sweep, sweep, sweep
		steps := 0
		acts[""] = func(t *rapid.T) {
			steps++
			if cut || x.Budget < 60 {
				t.Skip("case cut short")
			}
		}
		t.Repeat(acts)
		if !cut {
			// every live object still answers to its one handle
			if err := x.CompareAll(); err != nil {
				judge(t, err)
			}
		}
		St.Eval(1)
		St.ClassN("stale_sweeps", nsweeps)
		St.ClassN("stale_sweeps_of_a_reused_inode_number", nreusedSweeps)
		St.ClassN("crash_recoveries", ncrash)
		if cut {
			St.Class("case_cut_short_by_another_oracle")
		}
		if excluded > 0 {
			St.ClassN("excluded_known_finding_draws", excluded)
		}
		if nreusedSweeps > 0 {
			St.NT(Hash(x.Log))
		}
		if St.WantSample(nreusedSweeps > 0) {
			St.Sample(map[string]any{"kind": "handle history", "sweeps": nsweeps, "sweeps_of_reused_numbers": nreusedSweeps, "restarts": x.NRestarts,
				"history": headLog(x.Log, 60)}, nreusedSweeps > 0)
		}
	})
}

// Inode-table exhaustion: every number is used, freed and used again; all handles must be distinct and the old ones stale.
func TestC08Exhaust(t *testing.T) {
	d := NewDisk(9000)
	d.SetRecord(false)
	s := StartSrv(d, true, false)
	defer func() { s.Stop() }()
	x, err := NewExec(s, "C08")
	if err != nil {
		t.Fatal(err)
	}
	x.StrictStale = true
	must := func(err error) {
		if err != nil {
			St.Violation("C08", err.Error(), map[string]any{"history": tailLog(x.Log, 20)})
			t.Fatalf("C08: %v", err)
		}
	}
	root := LiveRef(x.M.Root)
	seen := map[string]string{string(x.M.Root.FH): "/"}
	var first [][]byte
	round := func(r int) int {
		api := x.S.API()
		n := 0
		for di := 0; ; di++ {
			dn := fmt.Sprintf("r%dd%d", r, di)
			must(x.Mkdir(root, dn))
			dir := x.M.Root.Children[dn]
			if dir == nil {
				break
			}
			dfh := nt.Nfs_fh3{Data: dir.FH}
			if os.Getenv("VERIF_DEBUG") != "" {
				fs := x.S.N.VerifFsState()
				fmt.Printf("round %d dir %s handle %x free inodes %d\n", r, dn, dir.FH, fs.Ialloc.NumFree())
			}
			full := false
			for i := 0; i < 2000; i++ {
				if os.Getenv("VERIF_DEBUG") != "" && r == 1 && (i < 3 || i%100 == 0) {
					fmt.Printf("round 1 create %s/f%d free=%d\n", dn, i, x.S.N.VerifFsState().Ialloc.NumFree())
				}
				res := api.NFSPROC3_CREATE(nt.CREATE3args{Where: nt.Diropargs3{Dir: dfh, Name: nt.Filename3(fmt.Sprintf("f%d", i))}})
				if res.Status != nt.NFS3_OK {
					full = true
					break
				}
				h := string(res.Resok.Obj.Handle.Data)
				if prev, dup := seen[h]; dup {
					must(fmt.Errorf("round %d: new file %s/f%d got handle %x, already issued for %s", r, dn, i, h, prev))
				}
				seen[h] = fmt.Sprintf("round %d %s/f%d", r, dn, i)
				if r == 0 {
					first = append(first, res.Resok.Obj.Handle.Data)
				}
				n++
			}
			if full {
				break
			}
		}
		return n
	}
	n0 := round(0)
	if n0 < 30000 {
		must(fmt.Errorf("only %d files could be created before the inode table was exhausted", n0))
	}
	// remove everything through the API (the model only knows the directories)
	api := x.S.API()
	for _, dn := range sortedNames(x.M.Root.Children) {
		dfh := nt.Nfs_fh3{Data: x.M.Root.Children[dn].FH}
		ents, _, err := x.ListDir(api, dfh, false, 65536)
		must(err)
		for _, e := range ents {
			if e.Name != "." && e.Name != ".." {
				if r := api.NFSPROC3_REMOVE(nt.REMOVE3args{Object: nt.Diropargs3{Dir: dfh, Name: nt.Filename3(e.Name)}}); r.Status != nt.NFS3_OK {
					must(fmt.Errorf("REMOVE %s/%s: %d", dn, e.Name, r.Status))
				}
			}
		}
		must(x.Rmdir(root, dn))
	}
	must(x.Restart())
	n1 := round(1)
	if n1 != n0 {
		must(fmt.Errorf("after freeing all %d inodes only %d could be allocated again", n0, n1))
	}
	// every handle of round 0 is stale although its inode number is in use again
	api = x.S.API()
	for i, h := range first {
		if i%97 != 0 {
			continue
		}
		r := api.NFSPROC3_GETATTR(nt.GETATTR3args{Object: nt.Nfs_fh3{Data: h}})
		if r.Status != nt.NFS3ERR_STALE {
			must(fmt.Errorf("handle %x of a file removed in round 0 answers GETATTR with %d after its inode number was reused", h, r.Status))
		}
		St.NT(Hash("exhaust", i))
	}
	St.Eval(n0 + n1)
	St.ClassN("inode_exhaustion_files_created", n0+n1)
	St.Sample(map[string]any{"kind": "inode exhaustion", "files_round0": n0, "files_round1": n1, "stale_probes": len(first)/97 + 1}, true)
}

// Handles seen by a client are never issued again for another object after a crash: the disk stops
// accepting writes at some moment (that is the crash image) while several clients keep issuing
// requests for a while; every handle a reply carried in that window either names the same live
// object after recovery or is stale for ever - also for objects created after recovery.
func TestC08GateCrash(t *testing.T) {
	rapid.Check(t, func(t *rapid.T) {
		unstable := rapid.Bool().Draw(t, "unstable")
		d := NewDisk(6000)
		d.SetRecord(false)
		s := StartSrv(d, unstable, false)
		x, err := NewExec(s, "C08")
		if err != nil {
			s.Stop()
			failf(t, "C08", nil, "%v", err)
		}
		root := LiveRef(x.M.Root)
		// some history with removals, so that low inode numbers are free and have been used before
		for i := 0; i < rapid.IntRange(0, 6).Draw(t, "pre"); i++ {
			name := pick(t, smallNames, "name")
			if x.M.Root.Children[name] == nil {
				if x.Create(root, name) != nil {
					s.Stop()
					return
				}
			} else if x.Remove(root, name) != nil {
				s.Stop()
				return
			}
		}
		if rapid.Bool().Draw(t, "restart") {
			if x.Restart() != nil {
				x.S.Stop()
				return
			}
		}
		s = x.S
		api := s.API()
		rootfh := s.RootFH()
		img := d.CloseGate() // from here on nothing reaches the disk: this is the crash image
		type seen struct {
			name string
			fh   []byte
			how  string
		}
		var mu sync.Mutex
		var observed []seen
		nclients := rapid.IntRange(2, 4).Draw(t, "clients")
		names := []string{"g0", "g1", "a", "b"}
		var wg sync.WaitGroup
		stop := make(chan struct{})
		progs := make([][]string, nclients)
		for c := range progs {
			for i := 0; i < rapid.IntRange(1, 3).Draw(t, "nops"); i++ {
				progs[c] = append(progs[c], pick(t, []string{"create", "mkdir", "lookup", "lookup", "lookup"}, "op")+" "+pick(t, names, "gname"))
			}
		}
		for c := range progs {
			wg.Add(1)
			go func(c int) {
				defer wg.Done()
				for _, op := range progs[c] {
					kind, name := op[:strings.Index(op, " ")], op[strings.Index(op, " ")+1:]
					for rep := 0; rep < 40; rep++ {
						var fh []byte
						switch kind {
						case "create":
							r := api.NFSPROC3_CREATE(nt.CREATE3args{Where: nt.Diropargs3{Dir: rootfh, Name: nt.Filename3(name)}})
							if r.Status == nt.NFS3_OK {
								fh = r.Resok.Obj.Handle.Data
							}
							rep = 40
						case "mkdir":
							r := api.NFSPROC3_MKDIR(nt.MKDIR3args{Where: nt.Diropargs3{Dir: rootfh, Name: nt.Filename3(name)}})
							if r.Status == nt.NFS3_OK {
								fh = r.Resok.Obj.Handle.Data
							}
							rep = 40
						default:
							r := api.NFSPROC3_LOOKUP(nt.LOOKUP3args{What: nt.Diropargs3{Dir: rootfh, Name: nt.Filename3(name)}})
							if r.Status == nt.NFS3_OK {
								fh = r.Resok.Object.Data
							}
						}
						select {
						case <-stop:
							return // replies after the device came back are not part of the window
						default:
						}
						if fh != nil {
							mu.Lock()
							observed = append(observed, seen{name, fh, kind})
							mu.Unlock()
						}
						if kind == "lookup" {
							time.Sleep(200 * time.Microsecond)
						}
					}
				}
			}(c)
		}
		time.Sleep(time.Duration(rapid.IntRange(3, 15).Draw(t, "window_ms")) * time.Millisecond)
		close(stop)
		mu.Lock()
		window := append([]seen{}, observed...)
		mu.Unlock()
		d.OpenGate()
		wg.Wait()
		s.Stop()
		// recover from the crash image
		d2 := NewDiskFrom(d.Size(), img)
		d2.SetRecord(false)
		s2 := StartSrv(d2, unstable, false)
		defer s2.Stop()
		api2 := s2.API()
		root2 := s2.RootFH()
		fail := func(format string, a ...any) {
			failf(t, "C08", map[string]any{"history": x.Log, "programs": progs, "handles_seen_while_the_disk_was_cut_off": fmt.Sprintf("%d", len(window))}, format, a...)
		}
		newSeen := 0
		dead := map[string]seen{}
		for _, o := range window {
			lk := api2.NFSPROC3_LOOKUP(nt.LOOKUP3args{What: nt.Diropargs3{Dir: root2, Name: nt.Filename3(o.name)}})
			ga := api2.NFSPROC3_GETATTR(nt.GETATTR3args{Object: nt.Nfs_fh3{Data: o.fh}})
			if lk.Status == nt.NFS3_OK && string(lk.Resok.Object.Data) == string(o.fh) {
				continue // the object survived: same name, same handle
			}
			newSeen++
			if ga.Status != nt.NFS3ERR_STALE {
				fail("a client received handle %x (%s %q) while the disk was cut off; after recovery the object is gone, yet GETATTR of that handle answers %d, not NFS3ERR_STALE", o.fh, o.how, o.name, ga.Status)
			}
			dead[string(o.fh)] = o
		}
		// new objects after recovery must not get any of those handles
		for i := 0; i < 8; i++ {
			r := api2.NFSPROC3_CREATE(nt.CREATE3args{Where: nt.Diropargs3{Dir: root2, Name: nt.Filename3(fmt.Sprintf("after%d", i))}})
			if r.Status != nt.NFS3_OK {
				break
			}
			if o, dup := dead[string(r.Resok.Obj.Handle.Data)]; dup {
				fail("handle %x was returned to a client (%s %q) before the crash; after recovery it is issued again for the new object after%d", o.fh, o.how, o.name, i)
			}
		}
		St.Eval(1)
		St.ClassN("handles_seen_while_the_disk_was_cut_off", len(window))
		if newSeen > 0 {
			St.Class("window_with_handles_of_objects_lost_in_the_crash")
		}
		St.NT(Hash("gate", x.Log, progs))
	})
}
