package checks

// C18 - KVS multi-put is atomic, durable and read-your-writes.

import (
	"encoding/binary"
	"fmt"
	"sync"
	"sync/atomic"
	"testing"
	"time"

	"github.com/anishathalye/porcupine"
	"github.com/mit-pdos/go-journal/common"
	"github.com/mit-pdos/go-nfsd/kvs"
	"pgregory.net/rapid"
)

const kvsDiskSize = common.LOGSIZE + 40

// valBlock builds the 4096-byte value for a tag: the tag repeated.
func valBlock(tag uint32) []byte {
	b := make([]byte, BlockSize)
	for i := 0; i < BlockSize; i += 4 {
		binary.LittleEndian.PutUint32(b[i:], tag)
	}
	return b
}

// valTag decodes a value block; ok is false if it is not a clean repetition of one tag.
func valTag(b []byte) (uint32, bool) {
	if len(b) != BlockSize {
		return 0, false
	}
	tag := binary.LittleEndian.Uint32(b)
	for i := 0; i < BlockSize; i += 4 {
		if binary.LittleEndian.Uint32(b[i:]) != tag {
			return tag, false
		}
	}
	return tag, true
}

type kvPut struct {
	Keys []uint64 `json:"keys"`
	Tags []uint32 `json:"tags"`
}

func (p kvPut) pairs() []kvs.KVPair {
	var ps []kvs.KVPair
	for i, k := range p.Keys {
		ps = append(ps, kvs.KVPair{Key: k, Val: valBlock(p.Tags[i])})
	}
	return ps
}

func (p kvPut) apply(m map[uint64]uint32) {
	for i, k := range p.Keys {
		m[k] = p.Tags[i]
	}
}

// key generator: a few hot keys plus both ends of the valid range.
func genKey(sz uint64) *rapid.Generator[uint64] {
	return rapid.OneOf(
		rapid.Uint64Range(common.LOGSIZE, common.LOGSIZE+5),
		rapid.Uint64Range(common.LOGSIZE, sz-1),
		rapid.Just(uint64(common.LOGSIZE)),
		rapid.Just(sz-1),
	)
}

func genPut(t *rapid.T, sz uint64, nextTag *uint32, maxPairs int) kvPut {
	n := rapid.IntRange(1, maxPairs).Draw(t, "npairs")
	var p kvPut
	for i := 0; i < n; i++ {
		p.Keys = append(p.Keys, genKey(sz).Draw(t, "key"))
		*nextTag++
		p.Tags = append(p.Tags, *nextTag)
	}
	return p
}

func kvsReadAll(k *kvs.KVS, sz uint64) (map[uint64]uint32, error) {
	m := map[uint64]uint32{}
	for key := uint64(common.LOGSIZE); key < sz; key++ {
		p, ok := k.Get(key)
		if !ok {
			return nil, fmt.Errorf("get(%d) returned !ok", key)
		}
		tag, clean := valTag(p.Val)
		if !clean {
			return nil, fmt.Errorf("get(%d): block is not a value that was ever put (torn/mixed block, first tag %d)", key, tag)
		}
		if tag != 0 {
			m[key] = tag
		}
	}
	return m, nil
}

func mapsEqual(a, b map[uint64]uint32) bool {
	if len(a) != len(b) {
		return false
	}
	for k, v := range a {
		if b[k] != v {
			return false
		}
	}
	return true
}

func copyMap(m map[uint64]uint32) map[uint64]uint32 {
	c := make(map[uint64]uint32, len(m))
	for k, v := range m {
		c[k] = v
	}
	return c
}

// Sequential: state machine against a map, with reopen and an oversized put.
func TestC18Seq(t *testing.T) {
	rapid.Check(t, func(t *rapid.T) {
		sz := uint64(kvsDiskSize)
		d := NewDisk(sz)
		d.SetRecord(false)
		k := kvs.MkKVS(d, sz)
		defer func() { k.Delete() }()
		model := map[uint64]uint32{}
		var tag uint32
		var log []string
		nput, nreopen, nover := 0, 0, 0
		t.Repeat(map[string]func(*rapid.T){
			"put": func(t *rapid.T) {
				p := genPut(t, sz, &tag, 20)
				seen := map[uint64]bool{}
				for _, key := range p.Keys {
					if _, ok := model[key]; ok || seen[key] {
						nover++
					}
					seen[key] = true
				}
				log = append(log, fmt.Sprintf("put %v=%v", p.Keys, p.Tags))
				if !k.MultiPut(p.pairs()) {
					failf(t, "C18", log, "MultiPut of %d pairs returned false", len(p.Keys))
				}
				p.apply(model)
				nput++
			},
			"get": func(t *rapid.T) {
				key := genKey(sz).Draw(t, "key")
				pr, ok := k.Get(key)
				if !ok {
					failf(t, "C18", log, "Get(%d) !ok", key)
				}
				got, clean := valTag(pr.Val)
				if !clean || got != model[key] || pr.Key != key {
					failf(t, "C18", log, "Get(%d) = tag %d (clean=%v), want %d", key, got, clean, model[key])
				}
			},
			"reopen": func(t *rapid.T) {
				k.Delete()
				k = kvs.MkKVS(d, sz)
				log = append(log, "reopen")
				nreopen++
			},
			"": func(t *rapid.T) {
				got, err := kvsReadAll(k, sz)
				if err != nil {
					failf(t, "C18", log, "%v", err)
				}
				if !mapsEqual(got, model) {
					failf(t, "C18", log, "store %v differs from model %v", got, model)
				}
			},
		})
		St.Eval(1)
		if nput >= 2 && (nreopen > 0 || nover > 0) {
			St.NT(Hash(log))
			St.Sample(map[string]any{"kind": "sequential", "history": log}, true)
		}
		if nreopen > 0 {
			St.Class("seq_with_reopen")
		}
		if nover > 0 {
			St.Class("seq_with_overwrite")
		}
	})
}

// An oversized put (more distinct blocks than the journal holds) returns false and installs nothing.
func TestC18BigPut(t *testing.T) {
	rapid.Check(t, func(t *rapid.T) {
		sz := uint64(common.LOGSIZE + 700)
		d := NewDisk(sz)
		d.SetRecord(false)
		k := kvs.MkKVS(d, sz)
		defer k.Delete()
		model := map[uint64]uint32{}
		var tag uint32
		pre := genPut(t, sz, &tag, 10)
		if !k.MultiPut(pre.pairs()) {
			failf(t, "C18", nil, "small put failed")
		}
		pre.apply(model)
		n := rapid.IntRange(505, 560).Draw(t, "n")
		start := rapid.Uint64Range(common.LOGSIZE, sz-uint64(n)).Draw(t, "start")
		var big kvPut
		for i := 0; i < n; i++ {
			tag++
			big.Keys = append(big.Keys, start+uint64(i))
			big.Tags = append(big.Tags, tag)
		}
		ok := k.MultiPut(big.pairs())
		if ok {
			big.apply(model)
		}
		if n > 511 && ok {
			failf(t, "C18", n, "put of %d distinct blocks (journal holds 511) reported success", n)
		}
		if n <= 511 && !ok {
			failf(t, "C18", n, "put of %d distinct blocks refused", n)
		}
		got, err := kvsReadAll(k, sz)
		if err != nil {
			failf(t, "C18", n, "%v", err)
		}
		if !mapsEqual(got, model) {
			failf(t, "C18", n, "after put of %d blocks (ok=%v) the store differs from the model: a refused put was partly installed or an accepted one was not", n, ok)
		}
		St.Eval(1)
		St.NT(Hash("big", n, start, pre.Keys))
		St.Class(fmt.Sprintf("bigput_ok=%v", ok))
	})
}

// Crash: every put entirely present or absent; recovered state = a prefix that contains every acknowledged put.
func TestC18Crash(t *testing.T) {
	maxPts := 400
	if Thorough() {
		maxPts = 1 << 30
	}
	rapid.Check(t, func(t *rapid.T) {
		sz := uint64(kvsDiskSize)
		d := NewDisk(sz)
		k := kvs.MkKVS(d, sz)
		var tag uint32
		nops := rapid.IntRange(2, 14).Draw(t, "nops")
		salt := rapid.Uint64().Draw(t, "salt")
		var puts []kvPut
		var started, acked []int
		states := []map[uint64]uint32{{}}
		for i := 0; i < nops; i++ {
			p := genPut(t, sz, &tag, 12)
			puts = append(puts, p)
			started = append(started, d.Mark())
			if !k.MultiPut(p.pairs()) {
				failf(t, "C18", puts, "MultiPut returned false")
			}
			acked = append(acked, d.Mark())
			m := copyMap(states[len(states)-1])
			p.apply(m)
			states = append(states, m)
			if rapid.IntRange(0, 3).Draw(t, "pause") == 0 {
				// let the installer run so that traces differ in shape
				k.Get(common.LOGSIZE)
			}
		}
		k.Delete()
		trace := d.Trace()
		pts, exhaustive := CrashPoints(trace, 0, maxPts)
		St.Exhaustive(exhaustive)
		detail := map[string]any{"puts": puts}
		var nNT int64
		n, fail := ExploreCrashes(d, pts, salt, 2, func(img *Disk, c CrashCase) error {
			lo, hi := 0, 0
			for i := range puts {
				if acked[i] <= c.K {
					lo = i + 1
				}
				if started[i] < c.K {
					hi = i + 1
				}
			}
			if hi < lo {
				hi = lo
			}
			check := func(img *Disk) error {
				k2 := kvs.MkKVS(img, sz)
				got, err := kvsReadAll(k2, sz)
				k2.Delete()
				if err != nil {
					return err
				}
				for j := lo; j <= hi; j++ {
					if mapsEqual(got, states[j]) {
						return nil
					}
				}
				return fmt.Errorf("recovered store %v is not the state after any prefix of puts in [%d,%d] (acked: %d, started: %d)", got, lo, hi, lo, hi)
			}
			if err := check(img); err != nil {
				return err
			}
			if hi > lo || len(c.Variant.Drop) > 0 {
				atomic.AddInt64(&nNT, 1)
				St.NT(Hash("kvcrash", puts, c.K, c.VarIdx))
			}
			// crash again during recovery: cut the recovering instance's own writes
			rt := img.Trace()
			for k2 := 0; k2 <= len(rt); k2++ {
				for _, v := range Variants(rt, k2, salt, 0) {
					img2 := ImageOf(img.size, img.init, rt, k2, v.Drop)
					if err := check(img2); err != nil {
						return fmt.Errorf("second crash during recovery (after %d of its %d events, %s): %v", k2, len(rt), v.Name, err)
					}
					St.ClassN("recrash_images", 1)
				}
			}
			return nil
		})
		St.Eval(n)
		St.ClassN("crash_images", n)
		if fail != nil {
			detail["crash"] = fail.Case.String()
			failf(t, "C18", detail, "%s: %v", fail.Case, fail.Err)
		}
		if nNT > 0 {
			St.Sample(map[string]any{"kind": "crash", "puts": puts, "trace_events": len(trace), "crash_points": len(pts), "images": n}, true)
		}
	})
}

// Concurrent callers: linearizable w.r.t. a map with atomic multi-key puts.
type kvIn struct {
	Put *kvPut
	Get uint64
}

var kvModel = porcupine.Model{
	Init: func() interface{} { return map[uint64]uint32{} },
	Step: func(state, input, output interface{}) (bool, interface{}) {
		m := state.(map[uint64]uint32)
		in := input.(kvIn)
		if in.Put != nil {
			if !output.(bool) {
				return false, m
			}
			n := copyMap(m)
			in.Put.apply(n)
			return true, n
		}
		return output.(uint32) == m[in.Get], m
	},
	Equal: func(a, b interface{}) bool { return mapsEqual(a.(map[uint64]uint32), b.(map[uint64]uint32)) },
	DescribeOperation: func(input, output interface{}) string {
		in := input.(kvIn)
		if in.Put != nil {
			return fmt.Sprintf("put(%v=%v)->%v", in.Put.Keys, in.Put.Tags, output)
		}
		return fmt.Sprintf("get(%d)->%v", in.Get, output)
	},
}

func TestC18Conc(t *testing.T) {
	rapid.Check(t, func(t *rapid.T) {
		sz := uint64(kvsDiskSize)
		d := NewDisk(sz)
		d.SetRecord(false)
		// some keys already hold values from a small pool when the store is opened (they are on the device, not in
		// the journal's memory), and puts draw from the same pool: a put may find its own value already there
		init := map[uint64]uint32{}
		for key := uint64(common.LOGSIZE); key < common.LOGSIZE+4; key++ {
			if tg := uint32(rapid.IntRange(0, 3).Draw(t, "init")); tg != 0 {
				init[key] = tg
				d.Write(key, valBlock(tg))
			}
		}
		k := kvs.MkKVS(d, sz)
		defer k.Delete()
		nclients := rapid.IntRange(2, 4).Draw(t, "nclients")
		tag := uint32(100)
		progs := make([][]kvIn, nclients)
		for c := range progs {
			n := rapid.IntRange(2, 6).Draw(t, "nops")
			for i := 0; i < n; i++ {
				if rapid.Bool().Draw(t, "isput") {
					p := genPut(t, common.LOGSIZE+4, &tag, 4)
					for j := range p.Tags {
						if rapid.Bool().Draw(t, "pooled") {
							p.Tags[j] = uint32(rapid.IntRange(1, 3).Draw(t, "pool"))
						}
					}
					progs[c] = append(progs[c], kvIn{Put: &p})
				} else {
					progs[c] = append(progs[c], kvIn{Get: rapid.Uint64Range(common.LOGSIZE, common.LOGSIZE+3).Draw(t, "key")})
				}
			}
		}
		// one client may be held at one of its disk accesses (a slow device) until the others are done
		var pause *DiskPause
		if rapid.IntRange(0, 2).Draw(t, "pause") > 0 {
			pause = NewDiskPause(rapid.IntRange(0, 5).Draw(t, "access"), 5*time.Millisecond)
			d.SetHook(pause.Hook)
			defer d.SetHook(nil)
		}
		var clock int64
		var mu sync.Mutex
		var ops []porcupine.Operation
		var wg sync.WaitGroup
		var others sync.WaitGroup
		others.Add(nclients - 1)
		for c := range progs {
			wg.Add(1)
			go func(c int) {
				defer wg.Done()
				if pause != nil {
					if c == 0 {
						pause.Enter()
						defer pause.Reach()
					} else {
						defer others.Done()
						<-pause.Reached()
					}
				}
				for _, in := range progs[c] {
					call := atomic.AddInt64(&clock, 1)
					var out interface{}
					if in.Put != nil {
						out = k.MultiPut(in.Put.pairs())
					} else {
						p, ok := k.Get(in.Get)
						tg, clean := valTag(p.Val)
						if !ok || !clean {
							tg = ^uint32(0)
						}
						out = tg
					}
					ret := atomic.AddInt64(&clock, 1)
					mu.Lock()
					ops = append(ops, porcupine.Operation{ClientId: c, Input: in, Call: call, Output: out, Return: ret})
					mu.Unlock()
				}
			}(c)
		}
		if pause != nil {
			go func() { others.Wait(); pause.Release() }()
		}
		wg.Wait()
		if pause != nil && pause.Paused.Load() {
			St.Class("conc_with_a_client_held_at_a_disk_access")
		}
		// final observation of every key, after all clients returned
		for key := uint64(common.LOGSIZE); key < common.LOGSIZE+4; key++ {
			call := atomic.AddInt64(&clock, 1)
			p, _ := k.Get(key)
			tg, clean := valTag(p.Val)
			if !clean {
				tg = ^uint32(0)
			}
			ops = append(ops, porcupine.Operation{ClientId: nclients, Input: kvIn{Get: key}, Call: call, Output: tg, Return: atomic.AddInt64(&clock, 1)})
		}
		model := kvModel
		model.Init = func() interface{} { return copyMap(init) }
		res := porcupine.CheckOperations(model, ops)
		St.Eval(1)
		overlap := overlapping(ops)
		if overlap > 0 {
			St.NT(Hash(describeOps(kvModel, ops)))
			St.Class("conc_with_overlap")
			St.Sample(map[string]any{"kind": "concurrent", "history": describeOps(kvModel, ops)}, true)
		}
		if !res {
			failf(t, "C18", describeOps(kvModel, ops), "concurrent history is not linearizable")
		}
	})
}

// overlapping counts pairs of operations from different clients that overlap in time.
func overlapping(ops []porcupine.Operation) int {
	n := 0
	for i := range ops {
		for j := i + 1; j < len(ops); j++ {
			a, b := ops[i], ops[j]
			if a.ClientId != b.ClientId && a.Call < b.Return && b.Call < a.Return {
				n++
			}
		}
	}
	return n
}

func describeOps(m porcupine.Model, ops []porcupine.Operation) []string {
	var s []string
	for _, o := range ops {
		s = append(s, fmt.Sprintf("c%d [%d,%d] %s", o.ClientId, o.Call, o.Return, m.DescribeOperation(o.Input, o.Output)))
	}
	return s
}

// Concurrent callers and a crash: a put that returned true is on the device at that moment, whatever the
// other callers were doing (including multi-puts too large for the journal, which fail).  Each small client owns
// its keys, so the value a key must have in an image taken at the acknowledgement is known.
func TestC18ConcCrash(t *testing.T) {
	rapid.Check(t, func(t *rapid.T) {
		sz := uint64(common.LOGSIZE + 640)
		d := NewDisk(sz)
		k := kvs.MkKVS(d, sz)
		nsmall := rapid.IntRange(1, 4).Draw(t, "smallclients")
		nbigfail := rapid.IntRange(0, 200).Draw(t, "failingbigputs")
		nfailers := rapid.IntRange(1, 2).Draw(t, "failingclients")
		nbigok := rapid.IntRange(0, 3).Draw(t, "bigputs")
		type ack struct {
			Client    int      `json:"client"`
			Keys      []uint64 `json:"keys"`
			Tag       uint32   `json:"tag"`
			Call, Ret int      // trace positions
		}
		progs := make([][]kvPut, nsmall)
		tag := uint32(0)
		for c := range progs {
			for i := 0; i < rapid.IntRange(5, 60).Draw(t, "nputs"); i++ {
				tag++
				var p kvPut
				for j := 0; j < rapid.IntRange(1, 3).Draw(t, "npairs"); j++ {
					p.Keys = append(p.Keys, common.LOGSIZE+uint64(10*c+rapid.IntRange(0, 9).Draw(t, "key")))
					p.Tags = append(p.Tags, tag)
				}
				progs[c] = append(progs[c], p)
			}
		}
		var mu sync.Mutex
		var acks []ack
		var wg sync.WaitGroup
		var bigFailed, bigOK int32
		var smallFalse int32
		for c := range progs {
			wg.Add(1)
			go func(c int) {
				defer wg.Done()
				for _, p := range progs[c] {
					call := d.Mark()
					ok := k.MultiPut(p.pairs())
					ret := d.Mark()
					if !ok {
						atomic.AddInt32(&smallFalse, 1)
						continue
					}
					mu.Lock()
					acks = append(acks, ack{c, p.Keys, p.Tags[0], call, ret})
					mu.Unlock()
				}
			}(c)
		}
		// the oversized puts are built once: the callers only differ in when they hit the journal
		var bigPairs, okPairs []kvs.KVPair
		for j := 0; j < 520; j++ {
			bigPairs = append(bigPairs, kvs.KVPair{Key: common.LOGSIZE + 100 + uint64(j), Val: valBlock(5000)})
		}
		okPairs = bigPairs[:200]
		for f := 0; f < nfailers; f++ {
			wg.Add(1)
			go func(f int) {
				defer wg.Done()
				for i := 0; i < nbigfail+nbigok; i++ {
					ps := bigPairs
					if f == 0 && nbigok > 0 && i%(nbigfail/(nbigok+1)+1) == 0 && int(atomic.LoadInt32(&bigOK)) < nbigok {
						ps = okPairs
					}
					if k.MultiPut(ps) {
						atomic.AddInt32(&bigOK, 1)
					} else {
						atomic.AddInt32(&bigFailed, 1)
					}
				}
			}(f)
		}
		wg.Wait()
		k.Delete()
		trace := d.Trace()
		if smallFalse > 0 {
			failf(t, "C18", nil, "%d small multi-puts returned false", smallFalse)
		}
		// which acknowledgements to verify: those during which the journal's header block was not written (none in a
		// correct run), and a sample of the others
		hdrWrites := make([]int, len(trace)+1) // prefix count of writes to block 0
		for i, e := range trace {
			hdrWrites[i+1] = hdrWrites[i]
			if !e.Barrier && e.Addr == 0 {
				hdrWrites[i+1]++
			}
		}
		salt := rapid.Uint64().Draw(t, "salt")
		nchecked, suspicious := 0, 0
		for i, a := range acks {
			noHdr := hdrWrites[a.Ret] == hdrWrites[a.Call]
			if noHdr {
				suspicious++
			}
			if !noHdr && Hash(salt, i)%uint64(len(acks)/10+1) != 0 {
				continue
			}
			nchecked++
			for _, v := range Variants(trace, a.Ret, salt, 0)[:min(2, len(Variants(trace, a.Ret, salt, 0)))] {
				img := ImageOf(d.size, d.init, trace, a.Ret, v.Drop)
				img.SetRecord(false)
				k2 := kvs.MkKVS(img, sz)
				var bad string
				for _, key := range a.Keys {
					p, ok := k2.Get(key)
					tg, clean := valTag(p.Val)
					if !ok || !clean || tg != a.Tag {
						bad = fmt.Sprintf("key %d holds tag %d (clean=%v) instead of %d", key, tg, clean, a.Tag)
						break
					}
				}
				k2.Delete()
				if bad != "" {
					failf(t, "C18", map[string]any{"ack": a, "variant": v.Name, "failed_big_puts": bigFailed, "small_clients": nsmall},
						"a multi-put returned true, but in the image of the device at that moment (%s) %s: the put is not durable (%d multi-puts too large for the journal failed meanwhile)",
						v.Name, bad, bigFailed)
				}
			}
		}
		St.Eval(nchecked)
		St.ClassN("acknowledgements_verified_in_a_crash_image", nchecked)
		St.ClassN("failed_oversized_puts_running_alongside", int(bigFailed))
		if bigFailed > 0 && nchecked > 0 {
			St.NT(Hash("kvconccrash", progs, nbigfail, nbigok, salt))
			if St.WantSample(true) {
				St.Sample(map[string]any{"kind": "concurrent puts, image at an acknowledgement", "small_clients": nsmall, "acks": len(acks),
					"verified": nchecked, "failed_big_puts": bigFailed, "ok_big_puts": bigOK, "trace_events": len(trace)}, true)
			}
		}
		_ = suspicious
	})
}

// Keys at and just outside both ends of the valid range, mixed into multi-puts.  The documented contract is that a
// key outside [LOGSIZE, sz) makes the call panic; whatever a build does with such a put - panic, return false,
// or accept it - the put must be all-or-nothing: refused (panic or false) means that none of its pairs is
// installed, accepted means that all of them are and stay readable.  After the put the journal is made to wrap
// (more than 511 blocks of further puts), the store is reopened, and everything is read back.
func TestC18EdgeKeys(t *testing.T) {
	rapid.Check(t, func(t *rapid.T) {
		sz := uint64(kvsDiskSize)
		d := NewDisk(sz + 8) // the device is a little larger than the store
		d.SetRecord(false)
		k := kvs.MkKVS(d, sz)
		defer func() { k.Delete() }()
		model := map[uint64]uint32{}
		var tag uint32
		var log []string
		fail := func(format string, a ...any) { failf(t, "C18", log, format, a...) }
		for i := 0; i < rapid.IntRange(0, 3).Draw(t, "npre"); i++ {
			p := genPut(t, sz, &tag, 8)
			log = append(log, fmt.Sprintf("put %v=%v", p.Keys, p.Tags))
			if !k.MultiPut(p.pairs()) {
				fail("MultiPut returned false")
			}
			p.apply(model)
		}
		odd := pick(t, []uint64{common.LOGSIZE - 2, common.LOGSIZE - 1, sz, sz + 1}, "oddkey")
		p := genPut(t, sz, &tag, 6)
		pos := rapid.IntRange(0, len(p.Keys)).Draw(t, "position")
		tag++
		p.Keys = append(p.Keys[:pos], append([]uint64{odd}, p.Keys[pos:]...)...)
		p.Tags = append(p.Tags[:pos], append([]uint32{tag}, p.Tags[pos:]...)...)
		log = append(log, fmt.Sprintf("put %v=%v (key %d is outside the store's range [%d, %d))", p.Keys, p.Tags, odd, uint64(common.LOGSIZE), sz))
		outcome, accepted := "", false
		func() {
			defer func() {
				if r := recover(); r != nil {
					outcome = "refused by panic"
				}
			}()
			if k.MultiPut(p.pairs()) {
				outcome, accepted = "accepted", true
			} else {
				outcome = "refused (false)"
			}
		}()
		log[len(log)-1] += " -> " + outcome
		oddModel := map[uint64]uint32{}
		if accepted {
			for i, key := range p.Keys {
				if key == odd {
					oddModel[key] = p.Tags[i]
				} else {
					model[key] = p.Tags[i]
				}
			}
		}
		verify := func(when string) {
			got, err := kvsReadAll(k, sz)
			if err != nil {
				fail("%s: %v", when, err)
			}
			if !mapsEqual(got, model) {
				fail("%s: the store holds %v, the reference %v (a put with a key outside the range was %s: it must be installed completely or not at all)", when, got, model, outcome)
			}
			for key, want := range oddModel {
				var pr *kvs.KVPair
				panicked := false
				func() {
					defer func() {
						if r := recover(); r != nil {
							panicked = true
						}
					}()
					pr, _ = k.Get(key)
				}()
				if panicked {
					fail("%s: the put of key %d was accepted, but Get(%d) refuses the key", when, key, key)
				}
				if tg, clean := valTag(pr.Val); !clean || tg != want {
					fail("%s: the put of key %d = %d was accepted, but Get returns tag %d (clean=%v)", when, key, want, tg, clean)
				}
			}
		}
		verify("right after the put")
		// make the journal wrap: more than 511 blocks of further puts
		for i := 0; i < 32; i++ {
			var w kvPut
			for j := 0; j < 20; j++ {
				tag++
				w.Keys = append(w.Keys, common.LOGSIZE+uint64((i*7+j)%int(sz-common.LOGSIZE)))
				w.Tags = append(w.Tags, tag)
			}
			if !k.MultiPut(w.pairs()) {
				fail("MultiPut of 20 pairs returned false")
			}
			w.apply(model)
		}
		log = append(log, "32 puts of 20 pairs each (the journal wraps)")
		verify("after 640 more blocks were put")
		k.Delete()
		k = kvs.MkKVS(d, sz)
		log = append(log, "reopen")
		verify("after a reopen")
		St.Eval(1)
		St.NT(Hash("edge", log))
		St.Class("puts_with_a_key_outside_the_range_" + map[bool]string{true: "accepted", false: "refused"}[accepted])
	})
}
