package checks

import (
	"testing"

	nt "github.com/mit-pdos/go-nfsd/nfstypes"
)

// TestProbeRemoveSizes: remove files of every size around the journal capacity and check that all space returns.
func TestProbeRemoveSizes(t *testing.T) {
	for n := uint64(495); n <= 520; n++ {
		d := NewDisk(6000)
		d.SetRecord(false)
		s := StartSrv(d, true, false)
		x, _ := NewExec(s, "C05")
		root := LiveRef(x.M.Root)
		if err := x.Create(root, "f"); err != nil {
			t.Fatal(err)
		}
		f := LiveRef(x.M.Root.Children["f"])
		for off := uint64(0); off < n; off += 100 {
			k := uint64(100)
			if off+k > n {
				k = n - off
			}
			if err := x.Write(f, off*BlockSize, patternData(uint32(off+1), k*BlockSize), uint32(k*BlockSize), nt.FILE_SYNC); err != nil {
				t.Fatal(err)
			}
		}
		if err := x.Remove(root, "f"); err != nil {
			t.Fatal(err)
		}
		r, err := quiescentFsck(x, FsckOpts{Exact: true, Allocators: true})
		if err != nil {
			t.Errorf("size %d blocks: %v", n, err)
		} else if r.MarkedData != r.RootBlocks {
			t.Errorf("size %d blocks: %d marked", n, r.MarkedData)
		}
		s.Stop()
	}
}
