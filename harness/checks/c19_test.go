package checks

// C19 - advertised limits are honoured exactly.  The limits are read from
// FSINFO/PATHCONF at run time; the boundary grid is enumerated, not sampled.

import (
	"fmt"
	"os"
	"strings"
	"testing"

	nt "github.com/mit-pdos/go-nfsd/nfstypes"
)

type gridRun struct {
	t    *testing.T
	x    *Exec
	n    int
	near int
	desc string
}

func (gr *gridRun) must(err error) {
	if err != nil {
		St.Violation("C19", err.Error(), map[string]any{"history": tailLog(gr.x.Log, 30), "grid": gr.desc})
		St.Flush()
		gr.t.Fatalf("C19 (%s): %v", gr.desc, err)
	}
}

func tailLog(log []string, n int) []string {
	if len(log) > n {
		return log[len(log)-n:]
	}
	return log
}

// req counts one boundary request; nearLimit: within 2 of an advertised limit.
func (gr *gridRun) req(nearLimit bool, key ...any) {
	gr.n++
	St.Eval(1)
	if nearLimit {
		gr.near++
		St.NT(Hash(append([]any{gr.desc}, key...)...))
	}
}

func nameOfLen(n int, prefix string) string {
	if n <= len(prefix) {
		return prefix[:n]
	}
	return prefix + strings.Repeat("n", n-len(prefix))
}

// nameOfBytes: a name of exactly n bytes made of the multi-byte character filler (padded with 'n').
func nameOfBytes(n int, prefix, filler string) string {
	if n <= len(prefix) {
		return prefix[:n]
	}
	k := (n - len(prefix)) / len(filler)
	s := prefix + strings.Repeat(filler, k)
	return s + strings.Repeat("n", n-len(s))
}

func near(v, limit uint64) bool {
	return v+2 >= limit && v <= limit+2
}

func runLimitGrid(t *testing.T, size uint64, viaRPC bool, unstable bool) {
	d := NewDisk(size)
	d.SetRecord(false)
	s := StartSrv(d, unstable, viaRPC)
	defer func() { s.Stop() }()
	x, err := NewExec(s, "C19")
	if err != nil {
		t.Fatal(err)
	}
	gr := &gridRun{t: t, x: x, desc: fmt.Sprintf("disk=%d rpc=%v unstable=%v", size, viaRPC, unstable)}
	lim := x.M.Lim
	root := LiveRef(x.M.Root)
	api := s.API()

	// ---- the announced numbers are coherent ----
	fi := api.NFSPROC3_FSINFO(nt.FSINFO3args{Fsroot: root.fh()})
	if fi.Status != nt.NFS3_OK {
		gr.must(fmt.Errorf("FSINFO failed: %d", fi.Status))
	}
	r := fi.Resok
	if r.Rtpref > r.Rtmax || r.Wtpref > r.Wtmax || r.Rtmax == 0 || r.Wtmax == 0 || r.Maxfilesize == 0 ||
		(r.Rtmult != 0 && r.Rtmax%r.Rtmult != 0) || (r.Wtmult != 0 && r.Wtmax%r.Wtmult != 0) {
		gr.must(fmt.Errorf("FSINFO announces incoherent limits: %+v", r))
	}
	gr.req(true, "fsinfo")

	// ---- names ----
	gr.must(x.Mkdir(root, "names"))
	nd := LiveRef(x.M.Root.Children["names"])
	var lens []int
	for l := 1; l <= int(lim.NameMax)+2; l++ {
		lens = append(lens, l)
	}
	lens = append(lens, 200, 255, 256, 1000)
	gr.must(x.Create(nd, "src")) // source for renames
	for _, l := range lens {
		nl := near(uint64(l), lim.NameMax)
		full := nl || l%16 == 1 || l >= 200
		for k, prefix := range []string{"c", "d", "s", "r"} {
			name := nameOfLen(l, prefix)
			if l == 1 && (k > 0) {
				name = string(rune('w' + k)) // distinct one-letter names
			}
			if name == "src" {
				continue
			}
			switch k {
			case 0:
				gr.must(x.Create(nd, name))
			case 1:
				gr.must(x.Mkdir(nd, name))
			case 2:
				gr.must(x.Symlink(nd, name, "target"))
			case 3:
				// RENAME to a name of this length and back
				gr.must(x.Rename(nd, "src", nd, name))
				if nd.N.Children[name] != nil {
					gr.must(x.Lookup(nd, name))
					gr.must(x.Rename(nd, name, nd, "src"))
				}
			}
			gr.req(nl, "name", k, l)
			// exact read-back, or no trace of the name nor of a truncation of it
			gr.must(x.Lookup(nd, name))
			if uint64(l) > lim.NameMax {
				gr.must(x.Lookup(nd, name[:lim.NameMax]))
				gr.must(x.Lookup(nd, name[:lim.NameMax-1]))
			}
			if full {
				gr.must(x.Readdir(nd, k%2 == 0, 4096))
			}
		}
	}
	// names of multi-byte characters: the limit is in bytes (a 112-byte entry), not in characters
	for fi, filler := range []string{"\u00e9", "\u20ac", "\U0001F600"} {
		for _, l := range []int{int(lim.NameMax) - 2, int(lim.NameMax) - 1, int(lim.NameMax), int(lim.NameMax) + 1, int(lim.NameMax) + 2, int(lim.NameMax) + 8, 2 * int(lim.NameMax)} {
			for k, prefix := range []string{"uc", "ud", "ur"} {
				name := nameOfBytes(l, fmt.Sprintf("%s%d", prefix, fi), filler)
				switch k {
				case 0:
					gr.must(x.Create(nd, name))
				case 1:
					gr.must(x.Mkdir(nd, name))
				case 2:
					gr.must(x.Rename(nd, "src", nd, name))
					if nd.N.Children[name] != nil {
						gr.must(x.Rename(nd, name, nd, "src"))
					}
				}
				gr.req(near(uint64(l), lim.NameMax), "utf8name", fi, k, l)
				gr.must(x.Lookup(nd, name))
				gr.must(x.Readdir(nd, k%2 == 0, 4096))
			}
		}
	}
	gr.must(x.Readdir(nd, false, 65536))
	gr.must(x.Restart())
	gr.must(x.CompareAll())
	nd = LiveRef(x.M.Root.Children["names"])
	gr.must(x.Readdir(nd, true, 8192))

	// ---- transfer sizes ----
	gr.must(x.Mkdir(root, "xfer"))
	xd := LiveRef(x.M.Root.Children["xfer"])
	wt := lim.WtMax
	sizes := []uint64{wt - 4096, wt - 4095, wt - 2, wt - 1, wt, wt + 1, wt + 2, wt + 4095, wt + 4096, uint64(r.Wtpref) - 1, uint64(r.Wtpref), uint64(r.Wtpref) + 1}
	offs := []uint64{0, 100, 8 * BlockSize, 8*BlockSize - 1, 520 * BlockSize, 520*BlockSize + 7, 519*BlockSize + 4095}
	stables := []nt.Stable_how{nt.UNSTABLE, nt.DATA_SYNC, nt.FILE_SYNC}
	i := 0
	for _, sz := range sizes {
		for oi, off := range offs {
			if !near(sz, wt) && oi > 2 {
				continue
			}
			i++
			st := stables[i%3]
			name := fmt.Sprintf("w%d", i)
			gr.must(x.Create(xd, name))
			f := LiveRef(xd.N.Children[name])
			data := patternData(uint32(i), sz)
			gr.must(x.Write(f, off, data, uint32(sz), st))
			gr.req(near(sz, wt), "write", sz, off, st)
			// normal behaviour: reads back at both ends, or nothing happened
			gr.must(x.Read(f, off, 8192))
			if f.N.Size > 8192 {
				gr.must(x.Read(f, f.N.Size-5000, 8192))
			}
			gr.must(x.Getattr(f))
			if i%7 == 0 {
				gr.must(x.CompareAll())
			}
			gr.must(x.Remove(xd, name))
		}
	}
	// reads up to rtmax
	gr.must(x.Create(xd, "rd"))
	rf := LiveRef(xd.N.Children["rd"])
	rdata := patternData(0x7ead, lim.RtMax+2*BlockSize)
	gr.must(x.Write(rf, 0, rdata[:lim.RtMax], uint32(lim.RtMax), nt.FILE_SYNC))
	gr.must(x.Write(rf, lim.RtMax, rdata[lim.RtMax:], uint32(2*BlockSize), nt.FILE_SYNC))
	for _, c := range []uint64{lim.RtMax - 1, lim.RtMax, lim.RtMax + 1, uint64(r.Rtpref), uint64(r.Dtpref)} {
		gr.must(x.Read(rf, 0, uint32(c)))
		gr.must(x.Read(rf, 1, uint32(c)))
		gr.req(near(c, lim.RtMax), "read", c)
	}

	// ---- file sizes ----
	gr.must(x.Mkdir(root, "sizes"))
	sd := LiveRef(x.M.Root.Children["sizes"])
	max := lim.MaxFileSize
	ends := []uint64{max - BlockSize - 1, max - 2, max - 1, max, max + 1, max + 2, max + BlockSize, 1 << 32, 1<<32 + 1, 1 << 40, 1 << 63, 1<<63 + 1, ^uint64(0) - 4095, ^uint64(0) - 1, ^uint64(0)}
	// a CREATE that carries a size beyond the limit among its initial attributes
	for j, end := range ends {
		if end <= max {
			continue
		}
		gr.must(x.CreateWithSize(sd, fmt.Sprintf("cs%d", j), end, j%2 == 0))
		gr.req(true, "create-with-size", end)
		if n := sd.N.Children[fmt.Sprintf("cs%d", j)]; n != nil {
			gr.must(x.Read(LiveRef(n), 0, 4096))
			gr.must(x.Write(LiveRef(n), 0, patternData(uint32(300+j), 100), 100, nt.FILE_SYNC))
		}
	}
	for j, end := range ends {
		nl := near(end, max) || end > 1<<62
		// through SETATTR
		name := fmt.Sprintf("sa%d", j)
		gr.must(x.Create(sd, name))
		f := LiveRef(sd.N.Children[name])
		gr.must(x.Write(f, 0, patternData(uint32(100+j), 3*BlockSize), 3*BlockSize, nt.FILE_SYNC))
		e := end
		if end > max {
			// a size beyond the limit arriving together with other attributes (every combination in turn): refused as a whole
			for k := 0; k < 7; k++ {
				gr.must(x.Setattr(f, &e, true))
				gr.req(nl, "setattr+attrs", end, k)
			}
		}
		gr.must(x.Setattr(f, &e, false))
		gr.req(nl, "setattr", end)
		gr.must(x.Getattr(f))
		gr.must(x.Read(f, 0, 3*BlockSize)) // the data is still there (or the refused request had no effect)
		if f.N.Size > BlockSize {
			gr.must(x.Read(f, f.N.Size-1, 10)) // the last byte
			gr.must(x.Read(f, f.N.Size, 10))
		}
		// through WRITE ending exactly at 'end'
		for _, cnt := range []uint64{1, 5000} {
			if end < cnt {
				continue
			}
			wname := fmt.Sprintf("wr%d_%d", j, cnt)
			gr.must(x.Create(sd, wname))
			wf := LiveRef(sd.N.Children[wname])
			gr.must(x.Write(wf, end-cnt, patternData(uint32(200+j), cnt), uint32(cnt), stables[j%3]))
			gr.req(nl, "write-end", end, cnt)
			gr.must(x.Getattr(wf))
			if wf.N.Size > 0 {
				gr.must(x.Read(wf, wf.N.Size-cnt, uint32(cnt)+10))
				gr.must(x.Read(wf, 0, 100)) // a hole at the start
			}
			gr.must(x.Remove(sd, wname))
		}
		if j%4 == 3 {
			gr.must(x.Restart())
			gr.must(x.CompareAll())
			sd = LiveRef(x.M.Root.Children["sizes"])
		}
	}
	// removal of maximum-size files (the shrinker walks the whole range)
	for _, name := range sortedNames(sd.N.Children) {
		gr.must(x.Remove(sd, name))
	}
	if _, err := quiescentFsck(x, FsckOpts{Exact: true, Allocators: true}); err != nil {
		gr.must(fmt.Errorf("after removing the maximum-size files: %v", err))
	}
	gr.must(x.Restart())
	gr.must(x.CompareAll())
	St.ClassN("boundary_requests", gr.n)
	St.ClassN("requests_within_2_of_a_limit", gr.near)
	St.Class("grid_" + strings.ReplaceAll(gr.desc, " ", "_"))
	St.Sample(map[string]any{"kind": "limit grid", "config": gr.desc, "limits": lim, "name_lengths": fmt.Sprintf("1..%d,200,255,256,1000 x {CREATE,MKDIR,SYMLINK,RENAME}", lim.NameMax+2),
		"write_sizes": sizes, "write_offsets": offs, "file_ends": ends, "requests": gr.n, "last_ops": tailLog(x.Log, 12)}, true)
}

func TestC19Grid(t *testing.T) {
	St.Exhaustive(true)
	shard, nshards := EnvInt("VERIF_SHARD", 0), EnvInt("VERIF_NSHARDS", 1)
	type cfg struct {
		size     uint64
		rpc, uns bool
	}
	cfgs := []cfg{{14000, false, true}, {14000, true, false}}
	if Thorough() {
		cfgs = []cfg{{14000, false, true}, {14000, true, false}, {9000, false, false}, {9000, true, true}, {40000, false, true}, {40000, true, false}}
	}
	for i, c := range cfgs {
		if i%nshards != shard {
			continue
		}
		runLimitGrid(t, c.size, c.rpc, c.uns)
	}
	_ = os.Getenv
}
