package checks

// C15 - every supported disk size yields a consistent, fully usable file system.
// Disk sizes are enumerated over dense ranges, not sampled.

import (
	"fmt"
	"sort"
	"testing"
	"time"

	"github.com/mit-pdos/go-journal/common"
	"github.com/mit-pdos/go-nfsd/nfs"
)

// tryFormat formats a blank disk of the given size; accepted=false if the server refuses (panics).
func tryFormat(size uint64) (s *Srv, accepted bool, reason string) {
	d := NewDisk(size)
	d.SetRecord(false)
	o := Guard(60*time.Second, func() {
		n := nfs.MakeNfs(d)
		s = &Srv{D: d, N: n, Unstable: true}
		s.api = n
	})
	if o.Slow {
		return nil, false, "slow"
	}
	if o.Hung {
		return nil, false, "hang"
	}
	if o.Panic != "" {
		return nil, false, o.Panic
	}
	return s, true, ""
}

// dataStartOfSmallDisk: where the data region of a disk with one block-bitmap block begins (asked from the server).
func dataStartOfSmallDisk() uint64 {
	s, ok, _ := tryFormat(4000)
	if !ok {
		return 0
	}
	defer s.Stop()
	return uint64(s.N.VerifFsState().Super.DataStart())
}

func c15Sizes(thorough bool) (sizes []uint64, fills map[uint64]bool) {
	set := map[uint64]bool{}
	fills = map[uint64]bool{}
	add := func(lo, hi uint64, fillEvery uint64) {
		for s := lo; s <= hi; s++ {
			set[s] = true
			if fillEvery > 0 && (s-lo)%fillEvery == 0 {
				fills[s] = true
			}
		}
	}
	const nb = 32768
	if thorough {
		add(1500, 1960, 1)
		add(nb-300, nb+300, 8)
		add(2*nb-200, 2*nb+200, 50)
		add(3*nb-200, 3*nb+200, 0)
		for _, s := range []uint64{nb - 1, nb, nb + 1, nb - 8, nb + 7, 2*nb - 1, 2 * nb, 2*nb + 1} {
			fills[s] = true
		}
	} else {
		add(1500, 1620, 1)
		add(1621, 1960, 4)
		add(nb-300, nb+300, 0)
		add(2*nb-200, 2*nb+200, 0)
		add(3*nb-200, 3*nb+200, 0)
		for _, s := range []uint64{nb - 1, nb, nb + 5} {
			fills[s] = true
		}
	}
	// sizes at which a file that fills the disk runs out of space exactly when it needs a new index block: the data
	// region holds the root directory's block, n data blocks and their index blocks, plus 0..2 (n = 8: first
	// indirect block; 520: double-indirect root and its first leaf; 520+512k: a further leaf)
	if ds := dataStartOfSmallDisk(); ds != 0 {
		for _, n := range []uint64{8, 520, 1032, 1544} {
			used := 1 + n
			if n > 8 {
				used += 1
			}
			if n > 520 {
				used += 1 + (n-520)/512
			}
			for extra := uint64(0); extra <= 3; extra++ {
				set[ds+used+extra] = true
				fills[ds+used+extra] = true
			}
		}
	}
	// the sizes cmd/go-nfsd can produce: 1500 + 256 blocks per megabyte
	for mb := uint64(1); mb <= 400; mb++ {
		s := 1500 + 256*mb
		set[s] = true
		if mb <= 12 && (thorough || mb%4 == 1) {
			fills[s] = true
		}
	}
	for s := range set {
		sizes = append(sizes, s)
	}
	sort.Slice(sizes, func(i, j int) bool { return sizes[i] < sizes[j] })
	return
}

func TestC15Sizes(t *testing.T) {
	St.Exhaustive(true)
	shard, nshards := EnvInt("VERIF_SHARD", 0), EnvInt("VERIF_NSHARDS", 1)
	sizes, fills := c15Sizes(Thorough())
	fail := func(size uint64, format string, a ...any) {
		msg := fmt.Sprintf("disk of %d blocks: ", size) + fmt.Sprintf(format, a...)
		St.Violation("C15", msg, map[string]any{"size": size})
		t.Fatalf("C15: %s", msg)
	}
	accepted, refused, filled := 0, 0, 0
	var minAccepted uint64
	for i, size := range sizes {
		if i%nshards != shard {
			continue
		}
		s, ok, reason := tryFormat(size)
		St.Eval(1)
		if !ok {
			refused++
			if reason == "slow" {
				St.Class("call_too_slow_for_the_harness_not_judged")
				continue
			}
			if reason == "hang" {
				fail(size, "formatting does not terminate")
			}
			if minAccepted != 0 {
				fail(size, "refused (%s) although the smaller size %d is accepted", trunc(reason, 80), minAccepted)
			}
			continue
		}
		accepted++
		if minAccepted == 0 {
			minAccepted = size
		}
		fs := s.N.VerifFsState()
		sup := fs.Super
		nearBoundary := size%32768 <= 2 || size%32768 >= 32766 || size <= 1545
		if nearBoundary {
			St.NT(Hash("size", size))
		}
		// regions: log | block bitmap | inode bitmap | inode table | data, disjoint and inside the disk
		needBB := (size + common.NBITBLOCK - 1) / common.NBITBLOCK
		needIB := (uint64(sup.NInode())*common.INODESZ + BlockSize - 1) / BlockSize
		switch {
		case uint64(sup.BitmapBlockStart()) < common.LOGSIZE:
			fail(size, "the block bitmap (block %d) overlaps the log (%d blocks)", sup.BitmapBlockStart(), common.LOGSIZE)
		case uint64(sup.BitmapInodeStart()) < uint64(sup.BitmapBlockStart())+needBB:
			fail(size, "the block bitmap needs %d blocks but the inode bitmap starts %d blocks after it", needBB, sup.BitmapInodeStart()-sup.BitmapBlockStart())
		case uint64(sup.InodeStart()) < uint64(sup.BitmapInodeStart())+1:
			fail(size, "the inode table overlaps the inode bitmap")
		case uint64(sup.DataStart()) < uint64(sup.InodeStart())+needIB:
			fail(size, "the inode table needs %d blocks but the data region starts %d blocks after it", needIB, sup.DataStart()-sup.InodeStart())
		case uint64(sup.DataStart()) >= size:
			fail(size, "accepted, but the data region (from block %d) is empty or outside the disk", sup.DataStart())
		case uint64(sup.MaxBnum()) != size:
			fail(size, "the data region ends at block %d", sup.MaxBnum())
		case uint64(sup.NInode()) < 3 || uint64(sup.NInode()) > sup.NInodeBitmap*common.NBITBLOCK:
			fail(size, "%d inodes for an inode bitmap of %d bits", sup.NInode(), sup.NInodeBitmap*common.NBITBLOCK)
		}
		// bitmaps: exactly the non-data blocks, the root directory's block and inodes 0, 1 (and the root) are in use
		x, err := NewExec(s, "C15")
		if err != nil {
			fail(size, "%v", err)
		}
		r, ferr := quiescentFsck(x, FsckOpts{Exact: true, Allocators: true})
		if ferr != nil {
			fail(size, "freshly formatted: %v", ferr)
		}
		dataBlocks := size - uint64(sup.DataStart())
		if r.FreeBlocks+uint64(r.RootBlocks) != dataBlocks || r.RootBlocks < 1 || r.MarkedInos != 1 {
			fail(size, "freshly formatted: %d free + %d root blocks, the data region has %d; %d inodes in use besides the reserved ones",
				r.FreeBlocks, r.RootBlocks, dataBlocks, r.MarkedInos)
		}
		if fills[size] {
			// the whole data region - no block less, none outside it - can be allocated and freed again
			left, err := fillDisk(x)
			if err != nil {
				fail(size, "filling the disk: %v", err)
			}
			if left != 0 {
				fail(size, "filled until the server reported no space, but %d block(s) of the data region were never handed out", left)
			}
			if r2 := Fsck(fs, FsckOpts{Exact: true, Allocators: true}); r2.Err() != nil {
				fail(size, "after filling the disk: %v", r2.Err())
			}
			// free everything again through the API
			api := s.API()
			root := s.RootFH()
			ents, _, lerr := x.ListDir(api, root, false, 65536)
			if lerr != nil {
				fail(size, "listing the full disk: %v", lerr)
			}
			for _, e := range ents {
				if e.Name != "." && e.Name != ".." {
					x.M.Create(x.M.Root, e.Name, 1, "") // tell the reference about the filler files
				}
			}
			for _, n := range x.M.Root.Children {
				res := api.NFSPROC3_LOOKUP(lookupArgs(root, n.Name))
				n.FH, n.Fileid = res.Resok.Object.Data, uint64(res.Resok.Obj_attributes.Attributes.Fileid)
			}
			x.SpaceMayBind = true
			if _, err := reclaimCheck(x, false); err != nil {
				fail(size, "after filling and emptying the disk: %v", err)
			}
			r3 := Fsck(fs, FsckOpts{Exact: true, Allocators: true})
			if r3.Err() != nil || r3.FreeBlocks+uint64(r3.RootBlocks) != dataBlocks {
				fail(size, "after filling and emptying the disk %d blocks are free (+%d of the root), the data region has %d: %v", r3.FreeBlocks, r3.RootBlocks, dataBlocks, r3.Err())
			}
			filled++
			St.NT(Hash("fill", size))
		}
		s.Stop()
	}
	St.ClassN("sizes_accepted", accepted)
	St.ClassN("sizes_refused", refused)
	St.ClassN("sizes_filled_completely_and_emptied", filled)
	St.Sample(map[string]any{"kind": "disk sizes", "shard": shard, "sizes_in_this_run": len(sizes), "smallest_accepted_in_shard": minAccepted,
		"ranges": "1500..1960, 32768+-300, 65536+-200, 98304+-200, 1500+256*MB (MB=1..400)", "filled": filled}, true)
}
