# Per-property configuration of the driver (/verif/check).
# unit: one Go test (a rapid property unless norapid) run as `shards` processes with `checks` cases each.

COMMON_ASSUMPTIONS = [
    "disk.Disk contract: single-block writes are atomic; Barrier makes all earlier writes durable",
    "the dependencies (go-journal, go-rpcgen, goose) are exercised as they are in the module cache, not modified",
    "time stamps are outside every oracle except before/after-restart equality",
]

PROPS = {}

PROPS["C18"] = {
    "level": "fault_enumeration",
    "technique": "model-based stateful PBT (rapid) vs a map; crash-point x lost-write enumeration of a recorded disk trace with a prefix oracle; porcupine linearizability oracle over generated concurrent programs",
    "level_text": "Generated put/get programs are judged against a map after every step; every crash point of each recorded disk trace (quick: up to 400 per program, thorough: all) times the lost-write variants, plus second crashes during recovery, is recovered with the real code and must equal a prefix containing all acknowledged puts; generated concurrent programs must be linearizable. Fault enumeration is the right level because the property quantifies over crash points, which are finite per trace and enumerated completely.",
    "level_note": "Sampled: programs and goroutine schedules. Enumerated per program: crash points and loss variants as described. Trusts the disk contract (atomic block writes, barriers) and porcupine.",
    "rule": ("rapid-generated multi-put/get programs on kvs.KVS over a recording disk. Units: sequential state machine vs a map "
             "(non-trivial: >=2 puts and a reopen or an overwritten key); oversized puts around the 511-block journal limit; "
             "crash: every crash point of the recorded write/barrier trace x loss variants (cut, all un-barriered lost, only last kept, "
             "single losses, hashed subsets) plus a second crash at every point of the recovery's own writes, oracle = state equals the "
             "model after a prefix j of puts with acked<=j<=started (non-trivial: an in-flight put at the crash point or lost writes); "
             "concurrent clients checked with porcupine against a map with atomic multi-key puts (non-trivial: operations of different "
             "clients overlap in time). distinct = FNV hash of (program, crash point, variant) resp. of the history."),
    "assumptions": COMMON_ASSUMPTIONS + ["keys in [LOGSIZE, sz) and 4096-byte values only (documented precondition; others panic by contract)"],
    "required_classes": ["crash_images", "conc_with_overlap", "seq_with_reopen"],
    "units": [
        {"test": "^TestC18Seq$", "quick": {"checks": 300, "shards": 2}, "thorough": {"checks": 5000, "shards": 4}},
        {"test": "^TestC18BigPut$", "quick": {"checks": 60}, "thorough": {"checks": 600, "shards": 2}},
        {"test": "^TestC18Crash$", "quick": {"checks": 6, "shards": 2, "procs": 8}, "thorough": {"checks": 150, "shards": 4, "procs": 4}},
        {"test": "^TestC18Conc$", "quick": {"checks": 400, "shards": 2}, "thorough": {"checks": 10000, "shards": 4}},
    ],
}
