# Per-property configuration of the driver (/verif/check).
# unit: one Go test (a rapid property unless norapid) run as `shards` processes with `checks` cases each.

COMMON_ASSUMPTIONS = [
    "disk.Disk contract: single-block writes are atomic; Barrier makes all earlier writes durable",
    "the dependencies (go-journal, go-rpcgen, goose) are exercised as they are in the module cache, not modified",
    "time stamps are outside every oracle except before/after-restart equality",
]

PROPS = {}

PROPS["C18"] = {
    "level": "fault_enumeration",
    "technique": "model-based stateful PBT (rapid) vs a map; crash-point x lost-write enumeration of a recorded disk trace with a prefix oracle; porcupine linearizability oracle over generated concurrent programs",
    "level_text": "Generated put/get programs are judged against a map after every step; every crash point of each recorded disk trace (quick: up to 400 per program, thorough: all) times the lost-write variants, plus second crashes during recovery, is recovered with the real code and must equal a prefix containing all acknowledged puts; generated concurrent programs must be linearizable (keys may already hold values on the device when the store is opened, puts draw half of their values from the same small pool so that a put can meet its own value, and in 2/3 of the programs one client is held at one of its device accesses until the others have finished). A concurrent crash unit runs 1-4 clients with small puts on keys of their own next to 1-2 callers whose 520-pair puts the journal refuses: at sampled acknowledgements (and at every one during which the journal header was not written) the device image of that moment, un-barriered writes lost, is recovered and must hold the acknowledged values. Fault enumeration is the right level because the property quantifies over crash points, which are finite per trace and enumerated completely. Keys at and just outside both ends of the range are mixed into multi-puts at every position: whether such a put panics (the documented contract), returns false or is accepted, it must be installed completely or not at all, and stay so after the journal has wrapped (640 more blocks) and the store was reopened.",
    "level_note": "Sampled: programs and goroutine schedules. Enumerated per program: crash points and loss variants as described. Trusts the disk contract (atomic block writes, barriers) and porcupine.",
    "rule": ("rapid-generated multi-put/get programs on kvs.KVS over a recording disk. Units: sequential state machine vs a map "
             "(non-trivial: >=2 puts and a reopen or an overwritten key); oversized puts around the 511-block journal limit; "
             "crash: every crash point of the recorded write/barrier trace x loss variants (cut, all un-barriered lost, only last kept, "
             "single losses, hashed subsets) plus a second crash at every point of the recovery's own writes, oracle = state equals the "
             "model after a prefix j of puts with acked<=j<=started (non-trivial: an in-flight put at the crash point or lost writes); "
             "concurrent clients checked with porcupine against a map with atomic multi-key puts (non-trivial: operations of different "
             "clients overlap in time). distinct = FNV hash of (program, crash point, variant) resp. of the history."),
    "assumptions": COMMON_ASSUMPTIONS + ["keys in [LOGSIZE, sz) and 4096-byte values only (documented precondition; others panic by contract)"],
    "required_classes": ["conc_with_a_client_held_at_a_disk_access", "acknowledgements_verified_in_a_crash_image", "crash_images", "conc_with_overlap", "seq_with_reopen"],
    "units": [
        {"test": "^TestC18Seq$", "quick": {"checks": 300, "shards": 2}, "thorough": {"checks": 5000, "shards": 4}},
        {"test": "^TestC18BigPut$", "quick": {"checks": 60}, "thorough": {"checks": 600, "shards": 2}},
        {"test": "^TestC18EdgeKeys$", "quick": {"checks": 150, "shards": 4}, "thorough": {"checks": 3000, "shards": 4}},
        {"test": "^TestC18Crash$", "quick": {"checks": 6, "shards": 2, "procs": 8}, "thorough": {"checks": 150, "shards": 4, "procs": 4}},
        {"test": "^TestC18Conc$", "quick": {"checks": 400, "shards": 2}, "thorough": {"checks": 10000, "shards": 4}},
        {"test": "^TestC18ConcCrash$", "quick": {"checks": 60, "shards": 4}, "thorough": {"checks": 1500, "shards": 8}},
    ],
}

CRASH_ASSUMPTIONS = COMMON_ASSUMPTIONS + [
    "crash points start when the first MakeNfs has returned (formatting is a precondition, not an NFS operation)",
    "lost writes: any subset of the writes issued since the last barrier (explored: none, all, all-but-last, first, each single one when <=8 pending, hashed subsets)",
    "traces depend on background-thread timing; each failure is reported with the program and the crash point",
]

PROPS["C01"] = {
    "level": "fault_enumeration",
    "technique": "generated NFS programs (rapid) -> recorded disk trace -> enumeration of crash points x lost-write variants -> real recovery -> prefix oracle against the reference model; sampled second crashes during recovery and post-recovery workloads",
    "level_text": "For each generated client program (all mutating RPCs, three stability levels, multi-block and sparse writes, truncations, removals of files large enough for the background shrinker, clean restarts with and without COMMIT) one live run records every disk write and barrier; crash points (quick: <=300 per program, commit-adjacent first; thorough: all) x loss variants are recovered with nfs.MakeNfs and the whole tree (names, handles, sizes, bytes, link targets) must equal the reference state after a prefix j with last-stable-ack <= j <= last-started. 1/16 of the recovered servers run a further workload under the sequential oracle, 1/16 are crashed again at every point of their own recovery writes. 1/48 (thorough 1/64) go on serving a second workload (unstable, data-sync and stable writes, COMMIT, truncation, rename, removal of the largest old file) on the recording image and are then cut at up to 40 (thorough 200) points of that second run and recovered again under the same prefix oracle - crash, recover, go on, crash. A concurrent unit runs 2-4 clients, each in its own directory (so what the directory must hold when one of its stable requests is acknowledged is known exactly), next to requests the journal refuses (600-block symlink targets) and 300-block stable writes; at sampled acknowledgements - and at every one during which the journal header was not written - the device image of that moment (cut, and with all un-barriered writes lost) is recovered and the client's directory compared with its own model. A further unit runs the nearly-full-disk engine (60-1500 data blocks filled to 0-3 free blocks, nearly exhausted inode table, short writes at index-block edges): at every restart action and at the end the device as it is at that moment is recovered by a second server and must show every request acknowledged so far. Two programs in three end with a directed tail: a file with data near the edge of the direct range and one block far out is cut to just below that data (only the background shrinker can finish such a cut) or removed, so that the trace has crash points at which a file is still shrinking; those images get a post-crash WRITE that starts inside the file and ends in the middle of the next block, growth and reads. In a third of the programs, and always at the tail's REMOVE, the client's requests rest 2 ms at their commit points (locks held, nothing handed to the journal), so that shrinker, logger and installer get ahead of them wherever the server lets them - a schedule perturbation, never a verdict.",
    "level_note": "Programs, and the timing of background threads in the live run, are sampled; crash points and loss variants are enumerated per trace as stated. Trusts the reference model (harness/checks/model.go) and the disk contract.",
    "rule": ("unit = one crash image (program, crash point k, loss variant). Non-trivial: an operation is in flight or unstable operations are pending at k "
             "(the oracle window lo<hi), or at least one un-barriered write is dropped. distinct = FNV hash of (program history, disk size, k, variant)."),
    "assumptions": CRASH_ASSUMPTIONS,
    "required_classes": ["acknowledgements_verified_in_a_crash_image", "crash_images", "images_followed_by_suffix_workload", "recrash_images", "second_epoch_crash_images", "crash_images_of_nearly_full_disks"],
    "units": [
        {"test": "^TestC01Crash$", "quick": {"checks": 5, "shards": 2, "procs": 8, "timeout": 600},
         "thorough": {"checks": 16, "shards": 4, "procs": 4, "timeout": 7200}},
        {"test": "^TestC01Full$", "quick": {"checks": 40, "shards": 4, "steps": 40}, "thorough": {"checks": 500, "shards": 8, "steps": 60}},
        {"test": "^TestC01ConcAck$", "quick": {"checks": 40, "shards": 4}, "thorough": {"checks": 1500, "shards": 8, "timeout": 7200}},
    ],
}

PROPS["C07"] = {
    "level": "fault_enumeration",
    "technique": "generated UNSTABLE/DATA_SYNC/FILE_SYNC write + COMMIT programs (rapid) -> recorded disk trace -> crash-point x lost-write enumeration -> prefix oracle with stable acknowledgements as lower bound; reply checks for committed level and write verifier",
    "level_text": "Same engine as C01 with programs biased to writes of all three stability levels on several files interleaved with COMMITs and metadata operations, server option Unstable on (3/4) and off (1/4), clean restarts with and without a preceding COMMIT. Oracle: data readable immediately (sequential oracle on every reply); committed >= requested and FILE_SYNC when the option is off; a reply claiming DATA_SYNC/FILE_SYNC, a COMMIT, or any later stable operation raises the durable lower bound; every crash image and every restart must show a prefix of the acknowledgement order (no hole, nothing stable lost); one verifier per server instance, different across instances. The concurrent acknowledgement unit of C01 runs here with UNSTABLE writes and COMMITs (count 0 = to the end of the file) dominating: a COMMIT or stable request acknowledged while other clients' requests are being refused by the journal must have made everything before it durable in the device image of that moment. Fixed regressions (COMMIT after a refused commit; verifier) run as plain deterministic checks. COMMIT windows are enumerated (32 cases): client A's COMMIT is held at each of its first eight device writes while client B completes one or two UNSTABLE writes (to another file, to the same file); A's COMMIT is released and returns, B sends its COMMIT, and the device image at the moment B's COMMIT is acknowledged (cut, and with un-barriered writes lost) must hold everything. In the concurrent acknowledgement unit the device is slow at writing the journal's header block in three cases out of five (0.3-3 ms), so that unstable writes are acknowledged while a flush is under way.",
    "level_note": "As C01. The verifier-difference check compares instances within one case (restarts).",
    "rule": ("unit = one crash image of a write/commit-biased program. Non-trivial: at the crash point at least one UNSTABLE-acknowledged, state-changing operation is not yet covered by a stable acknowledgement. distinct = FNV hash of (program, k, variant)."),
    "assumptions": CRASH_ASSUMPTIONS,
    "required_classes": ["commit_windows_in_which_the_flush_was_held", "acknowledgements_verified_in_a_crash_image", "crash_images", "images_with_unstable_acked_ops_pending"],
    "units": [
        {"test": "^TestRegressC07$", "norapid": True, "quick": {"shards": 1}, "thorough": {"shards": 1}},
        {"test": "^TestC07Crash$", "quick": {"checks": 5, "shards": 2, "procs": 8, "timeout": 600},
         "thorough": {"checks": 16, "shards": 4, "procs": 4, "timeout": 7200}},
        {"test": "^TestC07CommitWindow$", "norapid": True, "quick": {"shards": 4}, "thorough": {"shards": 4}},
        {"test": "^TestC07ConcAck$", "quick": {"checks": 40, "shards": 4}, "thorough": {"checks": 1500, "shards": 8, "timeout": 7200}},
    ],
}

PROPS["C02"] = {
    "level": "exploration",
    "technique": "model-based stateful PBT (rapid state machine over all 22 procedures) against an in-memory reference file system; direct calls and the real XDR/RPC path",
    "level_text": "rapid state machine with one action per procedure (unsupported ones and exclusive CREATE included), arguments drawn model-aware (live/dead/forged/garbage handles, colliding/long/dot names, offsets dense at block and indirection boundaries up to and beyond the advertised maximum, counts 0..wtmax+), clean restarts; every reply is compared with the reference (success/failure, handle, type, size, file id, data, link target, listing, committed level, verifier) and the whole tree is compared every 16 steps, at the end, and after a final cold restart.",
    "level_note": "Sampled sequences (shrinks to minimal on failure). Space never binds by construction (budget). Error codes are not compared except NOTSUPP/STALE where the property says so. Renames of directories to other parents, over empty directories and into their own subtree (refused) are generated like any other rename (the former known findings KF2 and KF3 were repaired).",
    "rule": ("unit = one generated operation sequence (about 30 RPCs on average, more in thorough) on a fresh 14000-block disk, with Unstable on/off and direct/RPC adapter drawn per case. "
             "Non-trivial: >=1 successful mutation and at least one of {clean restart inside the sequence, a file growing past the direct blocks, shrink-then-grow of one file, a failed request followed by successful ones, RPC adapter}. distinct = FNV hash of the full history."),
    "assumptions": COMMON_ASSUMPTIONS,
    "required_classes": ["case_with_restart", "case_crossing_indirection", "case_via_rpc", "case_failed_op_then_more"],
    "units": [
        {"test": "^TestRegressC02$", "norapid": True, "quick": {"shards": 1}, "thorough": {"shards": 1}},
        {"test": "^TestC02Seq$", "quick": {"checks": 150, "shards": 12}, "thorough": {"checks": 1500, "shards": 12, "steps": 80}},
        {"test": "^TestC02Full$", "quick": {"checks": 40, "shards": 4, "steps": 40}, "thorough": {"checks": 500, "shards": 8, "steps": 60}},
    ],
}

PROPS["C04"] = {
    "level": "fault_enumeration",
    "technique": "generated histories and crash images (rapid + crash-point enumeration) judged by a structural checker (fsck) over the logical disk, built on the repository's own decoders",
    "level_text": "fsck (pointers in the data region, single ownership incl. indirect blocks and half-freed inodes, owned => marked, inode bitmap <=> kind, tree with exactly one name per live object, unique well-formed names, '.'/'..', sizes vs mapped blocks, allocators = bitmaps) runs (a) at every 8th step and at the end of generated sequential histories with deep trees, renames, removes, truncations, clean restarts and shrinker-interrupting stops, (b) on the recovered logical disk of every explored crash image of generated programs that create, truncate and remove files large enough for multi-transaction frees, (c) on nearly-full disks, (d) on disks with two and three block-bitmap blocks (33468-66436 blocks): files are written until allocation is well inside the later bitmap blocks, some are removed, the server restarts (cleanly or with the shrinker interrupted; the allocators are rebuilt from all bitmap blocks), more files are written; fsck (exact, allocators = bitmaps) and the bytes of every file are checked after every round. (e) at the quiescent point after each enumerated two-client case of the C03 check (one request held at each of its first lock/commit points while another client completes one or two conflicting requests on the same names, children numbered below their directory, half-freed start states, files used through their handles while their names change; quick: a seed-dependent quarter, thorough: all). (f) two directories that two clients try to move into each other (or into directories inside each other) at the same time, client 0 held at each of its first fourteen lock/commit/abort points: exactly one of the two renames succeeds and the directories still form a tree (60 enumerated cases). Renames of directories to other parents, over empty directories and - to be refused - into their own subtree are part of all sequential, nearly-full-disk and crash programs. A further window unit holds a COMMIT at its lock/commit points while another client removes, cuts, extends or replaces the same file: exact fsck and allocators = bitmaps after both returned and after a restart (a write-back of an inode image taken before the other request ran would leave a live inode without a name).",
    "level_note": "Sampled histories; crash points enumerated per trace (quick <=250, thorough all). The checker reads through the server's own journal object; it trusts super/inode/dirent decoders of the repository (format changes made consistently raise no alarm). Reply mismatches are C02's subject and only cut the case short here.",
    "rule": ("unit = one fsck run (quiescent state of a sequential history, or recovered crash image). Non-trivial: the state has >=3 directories and >=1 indirect block, or the crash image contains a half-freed inode. "
             "distinct = FNV hash of the history (sequential) or of (program, crash point, variant)."),
    "assumptions": CRASH_ASSUMPTIONS,
    "required_classes": ["pairs_of_directories_moved_into_each_other", "enumerated_two_client_cases_checked", "big_disk_case_allocating_beyond_the_first_bitmap_block", "quiescent_states_checked", "crash_images", "crash_images_with_half_freed_inode", "programs_ending_with_the_free_of_a_dense_file"],
    "units": [
        {"test": "^TestRegressC04$", "norapid": True, "quick": {"shards": 1}, "thorough": {"shards": 1}},
        {"test": "^TestC04RenameCycle$", "norapid": True, "quick": {"shards": 6}, "thorough": {"shards": 6}},
        {"test": "^TestC04CommitWindow$", "norapid": True, "quick": {"shards": 2}, "thorough": {"shards": 2}},
        {"test": "^TestC04Seq$", "quick": {"checks": 60, "shards": 4}, "thorough": {"checks": 800, "shards": 8, "steps": 60}},
        {"test": "^TestC04BigDisk$", "quick": {"checks": 4, "shards": 4}, "thorough": {"checks": 60, "shards": 8}},
        {"test": "^TestC04Full$", "quick": {"checks": 40, "shards": 4, "steps": 40}, "thorough": {"checks": 500, "shards": 8, "steps": 60}},
        {"test": "^TestC04Enum$", "norapid": True, "quick": {"shards": 16}, "thorough": {"shards": 16, "timeout": 3600}},
        {"test": "^TestC04Crash$", "quick": {"checks": 5, "shards": 2, "procs": 5, "timeout": 600},
         "thorough": {"checks": 12, "shards": 4, "procs": 4, "timeout": 7200}},
    ],
}

PROPS["C05"] = {
    "level": "fault_enumeration",
    "technique": "generated build-then-delete histories (rapid) with an exact accounting oracle (fsck: marked = reachable, allocators = bitmaps, counts back to initial, disk refillable); crash-point enumeration of multi-transaction frees with delete-everything-and-count on the recovered server",
    "level_text": "Sequential: histories build trees with files of every size class (dense files of 500-1400 blocks incl. sizes around one journal transaction, sparse files, holes filled by reads, symlinks, nested directories, renames over targets, failing requests), with clean restarts and, in about a third of the cases, stops that interrupt the background shrinker; then everything is deleted bottom-up, and after background freeing the on-disk bitmaps must mark exactly the reachable blocks/inodes (only the root), the allocators must agree with the bitmaps, free counts must equal those recorded after mkfs (modulo growth of the root directory), and filling the disk until NOSPC must leave no free block. Half-freed inodes are tolerated only when a free was interrupted, and then only until their numbers are reused. Crash: every explored crash image of programs that free large files is checked with fsck (marked = owned, half-freed allowed) and, for images with a half-freed inode and 1/8 of the others, emptied and counted the same way. Concurrent: 2-4 clients, each in a directory of its own, write, cut, replace by RENAME and remove files of every size class at the same time on data regions of 2000-7500 blocks (so that blocks freed by one client are handed to another while the background shrinker is still at work); when all have returned everything is removed and, after background freeing, every block and inode must be free again on disk and in the allocators, also after a restart.",
    "level_note": "Sampled histories; enumerated crash points (quick <=120 per program, thorough all). 'Touched' release of half-freed inodes is exercised through inode-number reuse after a restart.",
    "rule": ("unit = one build-then-delete history, or one recovered crash image. Non-trivial: the history freed at least one indirect block or contained a shrinker-interrupting stop; the crash image contains a half-freed inode. "
             "distinct = FNV hash of the history resp. (program, crash point, variant)."),
    "assumptions": CRASH_ASSUMPTIONS,
    "required_classes": ["concurrent_histories_with_frees_of_more_than_500_blocks", "history_that_freed_indirect_blocks", "crash_images_with_half_freed_inode", "recovered_images_with_followup_check", "removed_file_with_about_journal_size_blocks", "full_disk_history_emptied_and_counted"],
    "units": [
        {"test": "^TestRegressC05$", "norapid": True, "quick": {"shards": 1}, "thorough": {"shards": 1}},
        {"test": "^TestC05Seq$", "quick": {"checks": 40, "shards": 8}, "thorough": {"checks": 600, "shards": 12, "steps": 50}},
        {"test": "^TestC05Full$", "quick": {"checks": 40, "shards": 4, "steps": 40}, "thorough": {"checks": 600, "shards": 8, "steps": 60}},
        {"test": "^TestC05Conc$", "quick": {"checks": 150, "shards": 4}, "thorough": {"checks": 5000, "shards": 8}},
        {"test": "^TestC05Crash$", "quick": {"checks": 4, "shards": 2, "procs": 4, "timeout": 600},
         "thorough": {"checks": 20, "shards": 4, "procs": 4, "timeout": 7200}},
    ],
}

PROPS["C12"] = {
    "level": "fault_enumeration",
    "technique": "generated block-recycling histories (rapid) with tagged data against the reference model (oracle: only unexpected non-zero bytes count) plus a scan that every free block on the logical disk is zero; the same two oracles on enumerated crash images",
    "level_text": "Sequential: on a small data region (300-900 blocks, so freed blocks are soon handed out again; restarts reset the allocator cursor) files are filled with recognisable per-write patterns, removed, shrunk to aligned and unaligned sizes, grown again, poked with partial-block writes and writes beyond the end, and read back completely; a READ or whole-tree comparison that shows a non-zero byte where the reference has none (hole, gap, re-grown region, other file's data) is a violation, and every 6th step fsck checks that every block free in the bitmap is all-zero. Crash: every explored image of generated programs (incl. multi-transaction frees) gets the free-block scan, the matched reference state is compared byte-wise, and files are grown over positions that held data earlier in the run and must read zero. A directed action cuts a file too large for one transaction (mostly to exactly 0), stops the server with the shrinker interrupted, removes or renames over the file, and grows and reads new files that reuse the inode number. The nearly-full-disk unit also reads holes (incl. the first blocks under missing index blocks with 1-3 blocks free) and writes, in 1/5 of its writes, data that reads like an index block, so that a dangling index pointer shows other files' bytes instead of an invalid block number.",
    "level_note": "Lost data (zero where bytes were written) and status mismatches are other properties' subjects and only cut the case short. Sampled histories; crash points enumerated per trace (quick <=150, thorough all).",
    "rule": ("unit = one recycling history or one recovered crash image. Non-trivial: a block number freed earlier in the case is in use again (measured from successive fsck ownership sets), or an unaligned shrink was followed by growth of the same file; crash image: contains a half-freed inode or >=3 directories and an indirect block. "
             "distinct = FNV hash of the history resp. (program, crash point, variant)."),
    "assumptions": CRASH_ASSUMPTIONS,
    "required_classes": ["case_reusing_freed_blocks", "case_unaligned_shrink_then_growth", "fsck_free_block_scans", "crash_images"],
    "units": [
        {"test": "^TestRegressC12$", "norapid": True, "quick": {"shards": 1}, "thorough": {"shards": 1}},
        {"test": "^TestC12Seq$", "quick": {"checks": 80, "shards": 6}, "thorough": {"checks": 1200, "shards": 12, "steps": 60}},
        {"test": "^TestC12Full$", "quick": {"checks": 40, "shards": 4, "steps": 40}, "thorough": {"checks": 500, "shards": 8, "steps": 60}},
        {"test": "^TestC12Crash$", "quick": {"checks": 4, "shards": 2, "procs": 4, "timeout": 600},
         "thorough": {"checks": 20, "shards": 4, "procs": 4, "timeout": 7200}},
    ],
}

PROPS["C19"] = {
    "level": "exploration",
    "technique": "exhaustive enumeration of a boundary grid derived at run time from FSINFO/PATHCONF, every request judged by the sequential reference oracle (limit <=> accept, exact read-back, no effect beyond)",
    "level_text": "Limits are read from the running server, never hard-coded. Names of every length 1..name_max+2 and 200, 255, 256, 1000 go through CREATE, MKDIR, SYMLINK and as RENAME target; within the limit they must succeed and be found by LOOKUP and READDIR(PLUS) (also after a restart, when the name cache is rebuilt from disk), beyond it the request must fail and neither the name nor a truncation of it may exist. WRITEs of wtmax-4096..wtmax+4096 (dense at +-2) and wtpref+-1 at aligned and unaligned offsets in the direct, indirect and double-indirect ranges with all three stability levels must be accepted in full and read back, or refused without effect; READs up to and beyond rtmax; file ends at maxfilesize-4097..+4096, 2^32, 2^40, 2^63, 2^64-4096..2^64-1 through SETATTR and through WRITEs ending there, reads at the last byte, removal of maximum-size files with an exact space check, restarts in between. quick: one disk size, direct and RPC adapter; thorough: three disk sizes x both adapters x Unstable on/off.",
    "level_note": "Exhaustive over the stated grid only (exhaustive: true refers to that grid). Disks are large enough that space is not the limiting factor.",
    "rule": ("unit = one boundary request of the grid. Non-trivial: the request's name length / transfer size / file end is within 2 of an announced limit (name_max, wtmax, rtmax, maxfilesize) or above 2^62. "
             "distinct = FNV hash of (grid configuration, request kind, value)."),
    "assumptions": COMMON_ASSUMPTIONS,
    "required_classes": ["boundary_requests", "requests_within_2_of_a_limit"],
    "units": [
        {"test": "^TestRegressC19$", "norapid": True, "quick": {"shards": 1}, "thorough": {"shards": 1}},
        {"test": "^TestC19Grid$", "norapid": True, "quick": {"shards": 2}, "thorough": {"shards": 6}},
    ],
}

PROPS["C08"] = {
    "level": "exploration",
    "technique": "model-based stateful PBT (rapid) with a handle registry oracle: reuse-heavy histories with restarts and crash recovery, stale sweeps over every procedure and handle position, inode-table exhaustion",
    "level_text": "Histories of create/remove/mkdir/rmdir/rename-over-target cycles with frequent clean restarts (so inode numbers are reused within a few steps) and crash recoveries from a copy of the disk. Registry oracle: a handle issued for a new object was never issued before in the case; LOOKUP, READDIRPLUS and CREATE replies for a live object always carry its one handle, also after restart and recovery; a stale sweep presents a dead handle (preferring ones whose inode number is live again) to 25 procedure/argument positions incl. both directories of RENAME, FSINFO, PATHCONF, COMMIT - each must answer NFS3ERR_STALE and change nothing. Forged generations and garbage handles are mixed into all operations. One deterministic unit exhausts the inode table (32766 objects), frees everything, restarts, exhausts it again and checks that all 65k handles are distinct and the old ones stale. A concurrent crash unit cuts the disk off (writes block; the contents at that moment are the crash image) while 2-4 clients keep creating and looking up names for 3-15 ms: every handle a reply carried in that window must, after recovery from the image, either name the same object or be stale, and none of the next objects created may receive it. A window unit (enumerated: REMOVE/RENAME/LOOKUP through the directory handle or SETATTR of the child x the first five lock/commit points x write mode) holds one request between dropping and retaking its locks while another client moves the child out, removes the directory, creates a directory that receives the same inode number (the table is otherwise full) and moves the child in again: the held request must not act on the new directory, and the old handle answers STALE afterwards. The same window inside CREATE/MKDIR/SYMLINK (48 enumerated cases): the request is handed the number of a removed 600-block file whose free a server stop interrupted, drops its directory to finish that free in transactions of its own, and is held at each of its lock/commit/abort points while the other client removes the still empty directory and makes one that receives its number - 'made in /d' and '/d removed' cannot both succeed and the new directory stays empty. The reuse windows include RENAMEs between two directories (out of the directory whose handle goes stale, and into it), held at each of their first twelve lock/commit points. A further unit runs 2-6 clients that GETATTR 160 files through their handles on a cold cache, each starting at another file, next to writers: every reply must describe the object the handle was issued for (file id, type, size), during the run, afterwards and after a restart.",
    "level_note": "Unsupported procedures (MKNOD, LINK, FSSTAT, exclusive CREATE) answer NOTSUPP whatever the handle, and requests with '.'/'..' as a name are refused for the name: both are not counted as staleness failures. Sampled histories.",
    "rule": ("unit = one generated history (plus the exhaustion run and the enumerated window cases, non-trivial when the request was held and the number reused). Non-trivial: the history contains a stale sweep of a dead handle whose inode number (file id) belongs to a live object of another generation at that moment. "
             "distinct = FNV hash of the history."),
    "assumptions": COMMON_ASSUMPTIONS,
    "required_classes": ["program_with_a_working_set_larger_than_the_inode_cache", "stale_sweeps_of_a_reused_inode_number", "crash_recoveries", "inode_exhaustion_files_created", "handles_seen_while_the_disk_was_cut_off", "cases_where_the_new_directory_reused_the_inode_number", "create_cases_where_the_new_directory_reused_the_inode_number"],
    "units": [
        {"test": "^TestC08BigSet$", "quick": {"checks": 12, "shards": 8}, "thorough": {"checks": 300, "shards": 8}},
        {"test": "^TestRegressC08$", "norapid": True, "quick": {"shards": 1}, "thorough": {"shards": 1}},
        {"test": "^TestC08Handles$", "quick": {"checks": 100, "shards": 8, "steps": 40}, "thorough": {"checks": 1500, "shards": 12, "steps": 60}},
        {"test": "^TestC08Exhaust$", "norapid": True, "quick": {"shards": 1}, "thorough": {"shards": 1}},
        {"test": "^TestC08GateCrash$", "quick": {"checks": 60, "shards": 4}, "thorough": {"checks": 2000, "shards": 8}},
        {"test": "^TestC08Reuse$", "norapid": True, "quick": {"shards": 2}, "thorough": {"shards": 2}},
        {"test": "^TestC08ReuseCreate$", "norapid": True, "quick": {"shards": 3}, "thorough": {"shards": 3}},
    ],
}

PROPS["C11"] = {
    "level": "exploration",
    "technique": "structured hostile-argument generation (rapid) for all 22 NFS and 6 MOUNT procedures interleaved with model-checked histories; native coverage-guided fuzzing of [procedure | XDR argument bytes] against a server rebuilt from a fixed image per iteration; oracles: no panic, watchdog, per-request allocation bound, reference model / fsck still hold afterwards",
    "level_text": "Structured: in any state of a generated history (direct or through the XDR/RPC transport) raw calls hit every procedure with handles of length 0..64 and arbitrary content, valid handles with one field changed, dead handles, names of 0..5000 bytes, offsets/counts/sizes/cookies at 0, 2^31, 2^32-1, 2^63, 2^64-k and overflow pairs, out-of-range enum values; mutating requests with hostile values (count != data length, sizes up to 2^64-1, reads of 4 GB, oversized names and link targets) go through the reference oracle so that the model keeps tracking the state. Oracle per call: no panic (recover), reply within a 20 s watchdog, TotalAlloc growth <= 48 MB; every 12 steps and at the end the whole tree still equals the reference. Byte level: fuzz target rebuilt from a fixed populated image each iteration, seeded with valid encodings of every procedure plus hostile constants; same oracle plus GETATTR(root) and fsck afterwards. quick replays the corpus; thorough runs the coverage-guided campaign. Child processes: a fatal runtime error (out of memory) or a panic in a background goroutine kills the shard and is reported as a violation with the shard as replay. Raw calls through live handles include empty WRITEs (which cannot change the state) with stability words inside and outside the enumeration (3, 4, 7, 2^31, 2^32-1).",
    "level_note": "Not-well-formed messages (undecodable arguments) are outside the property and only counted. The 2 GB record-length allocation in go-rpcgen's framing is a dependency matter and not claimed. Wrong replies are other properties' subjects (they only cut a case short here).",
    "rule": ("unit = one hostile call. Non-trivial: the call carried at least one out-of-domain field and reached a handler (structured: by construction; fuzz: the arguments decoded). distinct = FNV hash of the call description resp. of the input bytes."),
    "assumptions": COMMON_ASSUMPTIONS,
    "required_classes": ["hostile_calls", "case_via_rpc"],
    "units": [
        {"test": "^TestRegressC11$", "norapid": True, "quick": {"shards": 1}, "thorough": {"shards": 1}},
        {"test": "^TestC11Full$", "quick": {"checks": 40, "shards": 4, "steps": 40}, "thorough": {"checks": 500, "shards": 8, "steps": 60}},
        {"test": "^TestC11Hostile$", "oom_is_violation": True, "quick": {"checks": 100, "shards": 8, "steps": 40}, "thorough": {"checks": 2500, "shards": 12, "steps": 60}},
        {"test": "^FuzzC11Args$", "fuzz": True, "oom_is_violation": True, "quick": {"shards": 1}, "thorough": {"shards": 1, "fuzztime": 600, "procs": 16, "timeout": 1500}},
    ],
}

PROPS["C13"] = {
    "level": "exploration",
    "technique": "generated directories and paging sessions (rapid) with an incarnation-set oracle (exactly-once for entries present throughout, validity of every returned entry against the reference, progress, termination, exact replay from earlier cookies); concurrent enumerate-while-mutating variant",
    "level_text": "Directories of 0..150 entries with names of 2..112 bytes, freed slots in the middle and slot reuse, optionally after a restart; sessions page READDIR or READDIRPLUS with count/dircount/maxcount from {0,1,10,64,100,200,300,512,1000,4096,65536}, always passing back the last cookie, with entries added and removed between pages in a third of the sessions. Oracle: every call returns an entry or eof; the session ends within slots+200 calls; every returned (name, file id[, handle, attributes]) is that of the object the name has at that moment in the reference; every entry that stays in the directory throughout is returned exactly once. Without mutations, resuming from three earlier cookies (with other size limits) must reproduce exactly the entries that followed. Concurrent unit: a READDIR client enumerates four times while a second client creates and removes other names (reusing freed slots); entries it never touches must each appear exactly once per enumeration. Directories of 520 and 700 names of 100-112 bytes (more than any reply or internal listing budget) are enumerated after a restart or cache eviction, and every listed entry is cross-checked with LOOKUP of its name (same file id). A further unit builds directories of 16 600-16 840 entries, which reach into the double-indirect range of the directory's inode, enumerates them completely with READDIR and (from slot 16 000 on) READDIRPLUS against a map of name -> (file id, handle), frees and re-takes slots at the range boundary and far out, restarts, and enumerates again. A last unit works on an inode table that is full but for 3-6 numbers, so that within one server uptime every new directory receives the number a directory or file had a few requests earlier (the old in-memory inode still cached): rounds of MKDIR, 0-5 entries, paged READDIR and READDIRPLUS against a map plus LOOKUP cross-check, removal, with files holding entry-like data taking the freed number and blocks in between. A window unit (60 enumerated cases) holds a READDIRPLUS at each of its first ten lock/commit points or device reads on a cold cache while another client removes a listed entry and makes a directory, file or symlink elsewhere that receives the freed inode number at once: every entry of the held listing must carry the handle, file id and attributes its name had in this directory. After every READDIRPLUS that returned entries a second, small READDIRPLUS of the same directory is served before the first reply is read: a reply belongs to its caller and must not change.",
    "level_note": "Not asserted: that a name appears only once when it was removed and re-created during the enumeration, or that a reply fits in count bytes. The concurrent unit uses READDIR only (READDIRPLUS under concurrency is known finding KF1).",
    "rule": ("unit = one paging session (or one concurrent enumeration). Non-trivial: the session took >=3 pages or had a mutation between pages; concurrent: always (mutator active). distinct = FNV hash of (history, session index)."),
    "assumptions": COMMON_ASSUMPTIONS,
    "required_classes": ["enumerations_of_a_directory_reaching_the_double_indirect_range", "directory_of_500_or_more_long_names", "session_of_3_or_more_pages", "session_with_mutations_between_pages", "session_readdirplus", "resumed_from_an_earlier_cookie", "enumerations_during_concurrent_updates", "directories_on_the_number_of_a_directory_removed_in_this_uptime", "plus_window_cases_where_the_removed_entrys_number_was_reused"],
    "units": [
        {"test": "^TestRegressC13$", "norapid": True, "quick": {"shards": 1}, "thorough": {"shards": 1}},
        {"test": "^TestC13Paging$", "quick": {"checks": 150, "shards": 8}, "thorough": {"checks": 1500, "shards": 12}},
        {"test": "^TestC13Concurrent$", "quick": {"checks": 100, "shards": 6}, "thorough": {"checks": 1000, "shards": 8}},
        {"test": "^TestC13Huge$", "quick": {"checks": 2, "shards": 3}, "thorough": {"checks": 20, "shards": 8}},
        {"test": "^TestC13Reuse$", "quick": {"checks": 12, "shards": 4}, "thorough": {"checks": 400, "shards": 8}},
        {"test": "^TestC13PlusWindow$", "norapid": True, "quick": {"shards": 4}, "thorough": {"shards": 4}},
    ],
}

PROPS["C17"] = {
    "level": "fault_enumeration",
    "technique": "model-based stateful PBT (rapid) against an executable version of the SimpleNFS specification with boundary-dense inode numbers, offsets and counts; porcupine linearizability oracle per file over generated concurrent programs; crash-point x lost-write enumeration with a prefix oracle, recovered through both entry points",
    "level_text": "Specification model: 30 files (inode 2..31) of <= 4096 bytes. Sequential state machine over GETATTR/SETATTR/READ/WRITE/LOOKUP/COMMIT and the twelve unsupported procedures with inode numbers {0,1,2,3,4,31,32,33,2^32,2^63,2^64-1}, offsets and sizes over 0..2^64-1 (dense at 0, the current size, 4095..4097, 2^31, 2^32, 2^63, 2^64-k) and counts incl. mismatches with the data length; every reply is compared with the specification (rejection of holes, mismatches and anything beyond 4096 bytes without effect; exact bytes; eof exactly when the read reaches the size; allocation bound for hostile sizes), full read-back after every step, restarts through both simple.Recover and simple.MakeNfs. A concurrent crash unit (one writer per file with strictly growing sizes, 1-3 readers per file, a device whose writes take 0-300 us) recovers the device image of the moment a GETATTR/READ reply arrived and requires the version the reply showed, or a later one. Concurrent clients on the same two files are checked with porcupine partitioned per file; in 2/3 of the programs one client is held at one of its first eight device accesses (before the access or after the data is fetched: a slow device) until the others have finished, and half of the programs are focused (client 0 only reads file 2, whose contents were installed beforehand, while the others rewrite and truncate it). Crash: every explored crash point x loss variant of generated programs is recovered with both entry points and must equal the state after a prefix containing every acknowledged request.",
    "level_note": "Sampled programs and schedules; crash points enumerated per trace (quick <=300, thorough all). Runs in child processes: a fatal runtime error (e.g. out of memory) is reported as a violation.",
    "rule": ("unit = one sequence / concurrent program / crash image. Non-trivial: sequence with >=1 successful mutation and >=1 rejected WRITE/SETATTR on a valid file; concurrent program in which operations of different clients overlap in time; crash image with a request in flight or lost writes. distinct = FNV hash of the history resp. (program, crash point, variant)."),
    "assumptions": COMMON_ASSUMPTIONS,
    "required_classes": ["read_replies_verified_in_a_crash_image", "conc_with_a_client_held_at_a_disk_access", "seq_with_rejected_write_or_setattr", "seq_with_restart", "conc_with_overlap", "crash_images"],
    "units": [
        {"test": "^TestRegressC17$", "norapid": True, "quick": {"shards": 1}, "thorough": {"shards": 1}},
        {"test": "^TestC17Seq$", "oom_is_violation": True, "quick": {"checks": 100, "shards": 8}, "thorough": {"checks": 1500, "shards": 12}},
        {"test": "^TestC17Conc$", "quick": {"checks": 150, "shards": 6}, "thorough": {"checks": 2500, "shards": 8}},
        {"test": "^TestC17ConcCrash$", "quick": {"checks": 30, "shards": 4}, "thorough": {"checks": 800, "shards": 8}},
        {"test": "^TestC17Crash$", "quick": {"checks": 8, "shards": 2, "procs": 4}, "thorough": {"checks": 150, "shards": 4, "procs": 4, "timeout": 7200}},
    ],
}

PROPS["C09"] = {
    "level": "exploration",
    "technique": "model-based stateful PBT (rapid) on nearly-full disks and a nearly-exhausted inode table with a before/after identity oracle for every failed request (allocators, on-disk bitmaps, cache-vs-disk coherence, whole tree), the reference model carried through the suffix and a restart, fsck at the end",
    "level_text": "Disks with 60-600 data blocks, and in 1/5 of the cases an image whose inode table is exhausted up to 0..3 inodes (32k prefilled files, built once per process). A fill action leaves exactly 0..3 free blocks (steered by the allocator's free count); requests are chosen to fail after they have started to modify state: RENAME to a name the directory layer refuses after the source entry is removed, RENAME/CREATE into a directory whose last block is exactly full, CREATE/MKDIR/SYMLINK without blocks or inodes, appends that obtain an indirect block but no data block, multi-block writes that run out half-way (short writes are followed), symlink targets and writes larger than the journal. After every request that returned an error: the allocators' free counts and the on-disk bitmaps are identical to before, every cached inode and name table equals the disk, and the whole tree equals the reference (which ignored the request); the history continues, and at the end the reference still matches, also after a restart, and fsck and the coherence check pass. Refused requests are also seen from other clients: in enumerated windows a RENAME or CREATE with a name beyond the limit (refused after it has changed cached state) is held at each of its lock, commit and abort points while a second client looks up, creates, removes or renames the same names and, in one family, a third client pushes the directory's inode out of the cache by looking at 130 other files; no reply and nothing in the final state may show a trace of the refused request (linearizability oracle). Directed SETATTRs that must be refused as a whole (a size for a directory or symbolic link, a size beyond the maximum) carry times, mode and owner along: all attributes are compared before and after.",
    "level_note": "Whether a feasible request fails for lack of resources is decided by the server's status (the reference does not model free space); a wrong status as such is C02's subject. Reads of holes on a full disk are not generated (they end early rather than fail).",
    "rule": ("unit = one history. Non-trivial (counted per failed request): the fstxn abort hook saw the aborted transaction with dirty buffers, i.e. the request failed after it had started to modify state. distinct = FNV hash of (request, disk size, position in the history)."),
    "assumptions": COMMON_ASSUMPTIONS,
    "required_classes": ["failed_requests_checked_for_traces", "aborted_transactions_that_had_modified_state", "requests_failed_for_lack_of_resources", "case_with_nearly_exhausted_inode_table"],
    "units": [
        {"test": "^TestC09Enum$", "norapid": True, "quick": {"shards": 8}, "thorough": {"shards": 16, "timeout": 3600}},
        {"test": "^TestC09Full$", "quick": {"checks": 40, "shards": 8, "steps": 40}, "thorough": {"checks": 700, "shards": 12, "steps": 60}},
    ],
}

PROPS["C10"] = {
    "level": "exploration",
    "technique": "differential PBT (rapid): at quiescent points of generated histories the running server is compared with a second server started on a copy of its disk (recovery) and with itself across a clean restart, on a dump of everything observable; white-box cache-vs-disk coherence check; codec round trips",
    "level_text": "Histories with failing requests, bulk creations of up to 120 objects (more live objects than the 100-slot inode cache; directories of >100 entries over several blocks, names of 97-112 bytes), writes in the direct/indirect/double-indirect ranges. Every 10th step and at the end, with no request in flight, shrinkers finished and the journal flushed: (1) a dump of everything a client can observe (listing order and cookies of READDIR and READDIRPLUS, handles, all attributes including times, LOOKUP/GETATTR replies, link targets, every byte of every file) is taken from the running server and from a fresh server started on a copy-on-write clone of the disk at that moment (so recovery runs on whatever the journal holds); the dumps must be identical; a separate action dumps, restarts cleanly, and dumps again; (2) every cached inode must re-encode to the 128 bytes on the logical disk, every cached name table must equal a scan of its directory, the name-cache hint must be slot-aligned, and the allocators must equal the bitmaps. Side properties: decode-then-encode is the identity on arbitrary inode images, directory entries and handles. A concurrent unit runs the programs of the C03 check (name and data operations of 2-4 clients on shared names and files, requests through handles of files that are removed meanwhile, in a third of the cases with a working set larger than the inode cache, in some on a full disk); when all clients have returned and background freeing has finished, the same three comparisons are made - whatever order the requests took effect in.",
    "level_note": "Unstable data not yet committed is flushed before the comparison (the property speaks of moments when all stable data is flushed; loss of uncommitted unstable data is C07's subject).",
    "rule": ("unit = one quiescent comparison (image recovery or clean restart) or codec triple. Non-trivial: the point is preceded (since the last one) by an abort of a transaction that had modified state, or more objects are live than the inode cache holds, or it is a clean-restart comparison (caches rebuilt from disk). distinct = FNV hash of (history so far, index)."),
    "assumptions": COMMON_ASSUMPTIONS,
    "required_classes": ["quiescent_points_compared_with_recovery_from_image", "clean_restarts_compared", "points_after_an_abort_of_a_modified_transaction", "points_with_more_objects_than_the_inode_cache", "quiescent_points_after_concurrent_programs"],
    "units": [
        {"test": "^TestC10Equiv$", "quick": {"checks": 50, "shards": 8, "steps": 40}, "thorough": {"checks": 800, "shards": 12, "steps": 80}},
        {"test": "^TestC10Full$", "quick": {"checks": 40, "shards": 4, "steps": 40}, "thorough": {"checks": 600, "shards": 8, "steps": 60}},
        {"test": "^TestC10Conc$", "quick": {"checks": 60, "shards": 4}, "thorough": {"checks": 1500, "shards": 8}},
        {"test": "^TestC10Codec$", "quick": {"checks": 3000}, "thorough": {"checks": 200000, "shards": 4}},
    ],
}

PROPS["C15"] = {
    "level": "exploration",
    "technique": "exhaustive enumeration of disk sizes over dense ranges; per size: layout algebra on the repository's own super-block accessors, fsck of the freshly formatted disk (bitmaps = non-data blocks + root, allocators = bitmaps), and for a sub-grid fill-until-NOSPC / delete-everything with exact counts",
    "level_text": "Every size in 1500..1960 (across the smallest accepted size), 32768+-300, 65536+-200, 98304+-200 (bitmap-block boundaries) and every size cmd/go-nfsd can produce (1500+256*MB, MB=1..400) is formatted with nfs.MakeNfs on a sparse in-memory disk. A refusal (panic 'configuration makes no sense') means the size is not accepted; sizes above an accepted one must be accepted. For accepted sizes: log, block bitmap, inode bitmap, inode table and data region are disjoint, large enough and inside the disk; fsck finds exactly the non-data blocks, the root directory's block and inodes 0/1/root in use, no block number beyond the disk allocatable, allocators equal to the bitmaps, and free + root blocks = size of the data region. For a sub-grid (quick: every 4th small size, 32767, 32768, 32773, some cmd sizes; thorough: all small sizes, every 8th around 32768, boundary sizes at 65536) the disk is filled through WRITEs until the server reports no space - no free block may remain, fsck must still pass - then emptied, and all counts must return.",
    "level_note": "Exhaustive over the stated ranges only. Larger disks (up to 98504 blocks) are checked for layout and bitmaps, not filled (400 MB each).",
    "rule": ("unit = one disk size. Non-trivial: the size is within 2 of a bitmap-block boundary (multiple of 32768) or of the smallest accepted size, or the disk was filled completely and emptied. distinct = the size (and whether it was filled)."),
    "assumptions": COMMON_ASSUMPTIONS,
    "required_classes": ["sizes_accepted", "sizes_refused", "sizes_filled_completely_and_emptied"],
    "units": [
        {"test": "^TestC15Sizes$", "norapid": True, "quick": {"shards": 16}, "thorough": {"shards": 16, "timeout": 3600}},
    ],
}

PROPS["C16"] = {
    "level": "exploration",
    "technique": "reflection-driven value generation (rapid) for every NFS/MOUNT argument and result type with round-trip, prefix-rejection and differential (go-rpcgen rfc1813, generated from the RFC's .x file) oracles; generated and mutated byte strings through both decoders; hand-derived golden byte vectors; exhaustive dispatch check over procedure numbers with a recording stub behind the repository's registration tables and the real RPC server; native fuzzing of the decoders (thorough)",
    "level_text": "Round trip: for each of 54 wire types a value is generated by reflection (every union arm incl. out-of-range discriminants, optional present/absent, lists of 0..3 elements, opaque/string lengths 0..67 and beyond the handle limit); its encoding must be a multiple of 4 bytes, decode+encode must reproduce the bytes, the rfc1813 codec must produce identical bytes for the field-wise copied value, and every strict prefix must be rejected. Bytes: arbitrary and mutated byte strings must be accepted/rejected alike by both decoders and re-encode identically. Golden: 24 messages whose bytes are built with an independent 20-line big-endian encoder from the RFC 1813/4506 layouts must be produced exactly and decode back. Dispatch: through rfc1057.Server over net.Pipe with the repository's *_regs tables and a recording handler, each of the 22 NFS and 6 MOUNT procedure numbers must reach the method RFC 1813 assigns to it, numbers 22..39 / 6..11 and other programs/versions must be refused. Thorough adds coverage-guided fuzzing of [type | bytes] with the differential oracle. Truncated requests at the dispatch layer: for generated argument values of every procedure that takes arguments, every strict prefix of the encoding is handed to the repository's dispatch table in front of a recording stub; the call must end in an error and the procedure must not have run. Half of the generated opaque values are windows onto a larger buffer whose non-zero bytes go on behind them: the encoding must not depend on anything beyond the length.",
    "level_note": "The repository's nfs_xdr.go is today textually the output of the same generator as rfc1813, so the differential oracle detects any edit of the repository's copy but shares generator bugs; golden vectors and the dispatch table are the generator-independent part. cmd/*/main.go itself (portmapper registration) cannot run offline; the harness registers the same tables the same way.",
    "rule": ("unit = one generated value / byte string / golden vector / procedure number. Non-trivial: a value whose encoding succeeded and passed through all four oracles (distinct by FNV hash of type and bytes); every golden vector; every assigned procedure number. Dispatch and golden units are exhaustive over their finite tables."),
    "assumptions": COMMON_ASSUMPTIONS,
    "required_classes": ["truncated_requests_offered_to_the_dispatch_table", "golden_vectors", "procedure_numbers_checked", "type_WRITE3args", "type_READDIRPLUS3res", "type_Mountres3"],
    "units": [
        {"test": "^TestC16RoundTrip$", "quick": {"checks": 15000, "shards": 8}, "thorough": {"checks": 100000, "shards": 8}},
        {"test": "^TestC16Bytes$", "quick": {"checks": 20000, "shards": 4}, "thorough": {"checks": 250000, "shards": 8}},
        {"test": "^TestC16Golden$", "norapid": True, "quick": {"shards": 1}},
        {"test": "^TestC16Dispatch$", "norapid": True, "quick": {"shards": 1}},
        {"test": "^TestC16Truncated$", "quick": {"checks": 4000, "shards": 8}, "thorough": {"checks": 40000, "shards": 8}},
        {"test": "^FuzzC16Decode$", "fuzz": True, "quick": {"shards": 1}, "thorough": {"shards": 1, "fuzztime": 300, "procs": 16, "timeout": 900}},
    ],
}

CONC_ASSUMPTIONS = COMMON_ASSUMPTIONS + [
    "goroutine schedules are sampled (yields injected at lock-acquisition and commit points from a drawn seed widen them); a failure is reported with the recorded history, which porcupine re-judges deterministically",
    "known findings excluded by construction and counted: READDIRPLUS of directories other than the root next to requests that lock those directories (KF1); only one file's attributes per listing are judged (KF4)",
]

PROPS["C03"] = {
    "level": "exploration",
    "technique": "generated concurrent programs (rapid) for 2-4 clients over a tiny shared namespace, executed with real goroutines (direct and over the RPC transport) with seeded yield injection at lock and commit points; linearizability decided by porcupine against a compact sequential model, with a final whole-state observation appended to every history",
    "level_text": "Programs of 3-8 operations per client over three shared directories with three file names and two directory names each, and two shared regular files: create/remove races on the same names, renames over existing targets within and across directories (files), directory renames within a parent, concurrent write/truncate/read/getattr of one file (incl. truncations large enough for the background shrinker), LOOKUP and READDIR during updates; in half of the cases the inode numbers are arranged so that children are numbered below their directories (retry paths). Every reply (status, handle, file id, type, size incl. post-operation attributes, data, listing) and a final observation of every name and file must be explained by one sequential order that respects real-time order. READDIRPLUS of the root (the one directory all of whose entries follow it in the lock order) is part of the programs: its names, the handles of the contended names and the size it reports for one shared file are judged by the model. The enumeration also starts from a state in which the lowest free inode number belongs to a removed 600-block file whose freeing was interrupted (the next CREATE/MKDIR has to finish it, dropping its directory lock meanwhile), with the first twelve lock/commit points as pause points. Further families of the enumeration: a file moved to another directory while the other client makes requests in both directories (among them creations refused after they started); a refused RENAME held at its abort point with a second client waiting for the directory and a third pushing its inode out of the cache; and READDIRPLUS of a directory against SETATTRs that set size and mtime of one of its entries together, the held client stopped at its lock/commit/abort points or, on a cold cache, at each of its first ten accesses to the device (the model tracks a client-set mtime; only requests on the file itself run next to the listing, because a request that locks the directory would meet known finding KF1). Further enumerated families: the shared file f0 cut from 600 blocks with the shrinker interrupted by a server stop, client 0's WRITE/SETATTR held at each lock/commit point of the detour in which it finishes the cut with the file unlocked, while client 1 refills, grows and cuts the file again (also with a third client evicting the inode; 180 cases, all in the quick tier); two clients moving two directories into each other with client 0 held at its first fourteen points (exactly one of the two requests succeeds in every sequential order).",
    "level_note": "Schedules are sampled, not enumerated. porcupine time-outs (none expected at this size) are counted, not judged. Hangs and panics are reported by the C06 and C11 checks. Known finding KF4 (the attributes of two different files in one READDIRPLUS listing are not a snapshot) is probed deterministically at the start and printed as KNOWN-FINDING; by construction the model judges the size of one file per listing only, the other file's sizes are counted (readdirplus_sizes_of_a_second_file_not_judged_KF4).",
    "rule": ("unit = one concurrent history. Non-trivial: at least two operations of different clients overlap in time and touch a common name or file (measured from the recorded stamps). distinct = FNV hash of the history."),
    "assumptions": CONC_ASSUMPTIONS,
    "required_classes": ["enumerated_cases_starting_with_a_half_freed_inode", "history_with_overlapping_conflicting_operations", "history_with_injected_yields", "history_with_children_numbered_below_parents", "history_with_shrinker_sized_truncations", "history_via_rpc",
                         "history_with_a_client_held_at_a_lock_or_commit_point", "window_history_with_conflict_while_a_client_is_held", "window_history_on_a_full_disk", "enumerated_cases_in_which_the_pause_point_was_reached"],
    "units": [
        {"test": "^TestC03Linearizable$", "quick": {"checks": 400, "shards": 8}, "thorough": {"checks": 20000, "shards": 8, "timeout": 7200}},
        {"test": "^TestC03Windows$", "quick": {"checks": 300, "shards": 8}, "thorough": {"checks": 25000, "shards": 8, "timeout": 7200}},
        {"test": "^TestC03BigSet$", "quick": {"checks": 100, "shards": 4}, "thorough": {"checks": 3000, "shards": 8}},
        {"test": "^TestC03Enum$", "norapid": True, "quick": {"shards": 16}, "thorough": {"shards": 16, "timeout": 7200}},
        {"test": "^TestC03RenameCycle$", "norapid": True, "quick": {"shards": 4}, "thorough": {"shards": 4}},
    ],
}

PROPS["C06"] = {
    "level": "exploration",
    "technique": "schedule-independent lock-order oracle on generated histories (transaction monitor behind the fstxn hooks: ascending order, self-acquire, locks leaked past the reply, retry bound), plus generated and small-scope-enumerated concurrent programs under a watchdog with lock-wait evidence",
    "level_text": "Order: sequential histories generated to vary inode-number geometry (delete/recreate cycles with restarts so that children are numbered below their parents, LOOKUP of '.'/'..' and of children on either side of the parent's number, cold caches after restart, RENAME with its four inode roles drawn from a pool of three directories and names incl. '.'/'..' and forged handles, listings) run under the monitor: every lock requested while others are held must be larger than all of them unless it was just allocated by the same transaction; requesting a lock already held panics in the hook (before the request would block) and is a violation; after every reply no transaction of the request may still hold a lock; an uncontended request may begin at most 8 transactions; a request that does not return within the watchdog with no other request running is a violation. Dynamic: the C03 programs (free-running, seeded yields, one client held at a lock/commit point) and a seed-dependent quarter (thorough: all) of the enumerated two-client cases run under a 10-20 s watchdog; a run that does not end is reported with the goroutine dump, the number of goroutines waiting in the lock table and the lock sets of unfinished transactions; the order rule and the leaked-lock rule apply there too. A directed action builds a 900-block file, cuts it, stops the server with the background shrinker interrupted, starts a new one and sends a WRITE, SETATTR or READ to that very file (which is still shrinking and must be finished by the request itself): the request must return, within a bounded number of transactions.",
    "level_note": "Liveness is checked through safety proxies (order, self-acquire, leaked locks, retry bound) and a watchdog; schedules of the dynamic part are sampled. Acquisitions from dir.Apply (READDIRPLUS) are exempt from the order rule: known finding KF1, printed by a probe that runs its listed input; READDIRPLUS is kept out of concurrent programs.",
    "rule": ("unit = one sequential history / concurrent program / enumerated case. Non-trivial: a transaction acquired a lock while holding another one that it had not just allocated (counted by the monitor); enumerated case: the pause point was reached. distinct = FNV hash of the history."),
    "assumptions": CONC_ASSUMPTIONS,
    "required_classes": ["acquisitions_while_holding_another_lock", "concurrent_acquisitions_while_holding_another_lock", "enumerated_cases_run"],
    "units": [
        {"test": "^TestC06Order$", "quick": {"checks": 150, "shards": 8, "steps": 50}, "thorough": {"checks": 4000, "shards": 12, "steps": 80}},
        {"test": "^TestC06Concurrent$", "quick": {"checks": 300, "shards": 6}, "thorough": {"checks": 15000, "shards": 8, "timeout": 7200}},
        {"test": "^TestC06Enum$", "norapid": True, "quick": {"shards": 16}, "thorough": {"shards": 16, "timeout": 7200}},
    ],
}

PROPS["C14"] = {
    "level": "exploration",
    "technique": "generated concurrent programs (rapid; the C03/C06 generators incl. seeded yields and pause points, direct and over the RPC transport) executed in a -race build of server and harness; the Go race detector is the oracle",
    "level_text": "The concurrent programs of C03 (create/remove/rename races, concurrent write/truncate/read/getattr of one file with post-operation attributes, listings during updates, truncations large enough to start background shrinkers) run in a binary built with -race, GORACE=halt_on_error=1; each run ends with a clean shutdown, a shutdown that interrupts the shrinker (nfs.Crash), or a restart while background work may still be running. Any report whose stacks are in go-nfsd or go-journal code is a violation (the report is the evidence); a report confined to harness code would be an inconclusive run. A second unit runs 2-6 clients that each look at 160 files (a working set larger than the inode cache, cold after a restart, every client starting at another file) next to clients that write, truncate and read the shared files, so that cache entries are evicted and re-filled while their inodes are locked by others. A third unit runs the enumerated two-client windows of C03 in the race build: every case in which a request is refused after it changed cached state (its transaction is aborted while the other client waits for one of its inodes, held at each lock/commit/abort point), the three-client cache-eviction family and the half-freed start states, plus a sample of the rest. In half of the programs of the first two units another goroutine writes out and resets the per-procedure statistics meanwhile (what cmd/go-nfsd does on a signal or timer).",
    "level_note": "Only schedules the detector observes; it reports races that happened, not ones that could. Race builds run 5-10x slower, hence fewer cases than C03.",
    "rule": ("unit = one concurrent program. Non-trivial: at least two operations of different clients overlap in time and touch the same name or file (so two goroutines locked the same inode). distinct = FNV hash of the history."),
    "assumptions": CONC_ASSUMPTIONS,
    "required_classes": ["program_with_a_working_set_larger_than_the_inode_cache", "program_with_overlapping_operations_on_one_object", "program_with_shrinker_sized_truncations", "stopped_with_shrinker_interrupted"],
    "units": [
        {"test": "^TestC14Race$", "race": True, "quick": {"checks": 60, "shards": 16}, "thorough": {"checks": 3000, "shards": 16, "timeout": 7200}},
        {"test": "^TestC14BigSet$", "race": True, "quick": {"checks": 10, "shards": 16}, "thorough": {"checks": 300, "shards": 16, "timeout": 7200}},
        {"test": "^TestC14Enum$", "race": True, "norapid": True, "quick": {"shards": 16}, "thorough": {"shards": 16, "timeout": 7200}},
    ],
}
