#!/usr/bin/env python3
# Validates MANIFEST.json and all evidence files against the schemas (needs jsonschema: run with python3-vt).
import json, sys, glob, jsonschema
ok = True
def check(path, schema):
    global ok
    try:
        jsonschema.validate(json.load(open(path)), json.load(open(schema)))
        print("valid  ", path)
    except Exception as e:
        ok = False
        print("INVALID", path, str(e)[:400])
check("/verif/MANIFEST.json", "/root/.vp/MANIFEST.schema.json")
for p in sorted(glob.glob("/verif/evidence/*.json")):
    check(p, "/root/.vp/EVIDENCE.schema.json")
sys.exit(0 if ok else 1)
