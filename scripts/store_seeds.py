#!/usr/bin/env python3
"""Copies confirmed seeded defects from <src>/out-<ID>/m<i> to /verif/seeded/<ID>-<tag>m<i>.  usage: store_seeds.py /tmp/seed2 r2"""
import json, glob, os, shutil, sys
src, tag = sys.argv[1], sys.argv[2]
n = 0
for d in sorted(glob.glob(src + '/out-C*/m[12]')):
    cf = d + '/confirm.json'
    if not os.path.exists(cf):
        continue
    c = json.load(open(cf))
    if not c.get('confirmed'):
        print('not confirmed:', d, c.get('error', ''), (c.get('apply') or {}).get('tail', '')[:200]); continue
    pid = d.split('out-')[1].split('/')[0]; m = os.path.basename(d)
    dst = f'/verif/seeded/{pid}-{tag}{m}'
    if os.path.exists(dst + '/patch.diff'):
        continue
    os.makedirs(dst, exist_ok=True)
    open(dst + '/patch.diff', 'w').write(c['patch_vs_head'])
    for f in glob.glob(d + '/*.go'):
        shutil.copy(f, dst)
    meta = json.load(open(d + '/meta.json'))
    meta['property'] = pid
    meta['confirmed_by_me'] = {"repo_head": c['repo_head'], "demo_cmd": c['demo_cmd'], "demo_without_patch": "passes (exit 0)",
        "demo_with_patch": "fails (exit %s)" % c['demo_with_patch']['rc'], "existing_suite_with_patch": "passes",
        "demo_failure_tail": c['demo_with_patch']['tail'][-500:], "how": "scripts/confirm_seed.py in a scratch worktree of /repo HEAD (removed afterwards)"}
    json.dump(meta, open(dst + '/meta.json', 'w'), indent=1)
    n += 1
print('stored', n)
