#!/bin/bash
# Runs every claimed check's quick tier at several VERIF_SEED values; prints one line per run.
# usage: stability.sh "1 2 3" [ids...]
SEEDS=${1:-"1 2 3"}; shift
IDS=${@:-$(python3 -c "
import sys; sys.path.insert(0,'/verif/scripts')
from propconf import PROPS; print(' '.join(sorted(PROPS)))")}
cd /verif
for s in $SEEDS; do for id in $IDS; do
  out=$(VERIF_SEED=$s ./check $id quick 2>&1); rc=$?
  echo "seed=$s $id rc=$rc $(echo "$out" | tail -1)"
  if [ $rc -ne 0 ]; then echo "$out" | grep -v "rapid\] draw" | grep -B2 -A12 "VIOLATION$\|INCONCLUSIVE\|VACUOUS" | head -40; fi
done; done
