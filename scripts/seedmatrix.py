#!/usr/bin/env python3
"""Runs the quick check of each seeded defect's property against a private copy of /repo with the
defect applied (never touches /repo's working tree).  usage: seedmatrix.py [seed-id ...]
Result: /verif/seeded/MATRIX.json  {seed: {property, exit, violations, wall_s}}"""
import json, os, subprocess, sys, shutil, glob, time
sys.path.insert(0, os.path.dirname(os.path.abspath(__file__)))
from propconf import PROPS
scratch = "/tmp/mx-%d" % os.getpid()
repo = scratch + "/repo"
env = dict(os.environ, GOFLAGS="-mod=mod", GOPROXY="off", GOSUMDB="off", GOTOOLCHAIN="local")
def sh(cmd, **kw):
    return subprocess.run(cmd, shell=True, env=env, stdout=subprocess.PIPE, stderr=subprocess.STDOUT, text=True, **kw)
os.makedirs(scratch)
r0 = sh(f"git -C /repo worktree add -q --detach {repo} HEAD")
if r0.returncode != 0:
    print("worktree:", r0.stdout); sys.exit(2)
shutil.copytree("/verif/harness", scratch + "/harness", ignore=shutil.ignore_patterns("bin"))
sh(f"go mod edit -replace=github.com/mit-pdos/go-nfsd={repo}", cwd=scratch + "/harness")
mpath = "/verif/seeded/MATRIX.json"
matrix = json.load(open(mpath)) if os.path.exists(mpath) and os.path.getsize(mpath) > 2 else {}
seeds = sys.argv[1:] or sorted(os.path.basename(d) for d in glob.glob("/verif/seeded/C*-m*"))
extra = json.load(open("/verif/seeded/EXTRA_CHECKS.json")) if os.path.exists("/verif/seeded/EXTRA_CHECKS.json") else {}
try:
    for sid in seeds:
        d = "/verif/seeded/" + sid
        pid = json.load(open(d + "/meta.json"))["property"]
        for prop in [pid] + extra.get(sid, []):
            if prop not in PROPS:
                matrix.setdefault(sid, {})[prop] = {"exit": None, "note": "check not built"}
                print(sid, prop, "check not built", flush=True)
                continue
            r = sh(f"git apply {d}/patch.diff", cwd=repo)
            if r.returncode != 0:
                matrix.setdefault(sid, {})[prop] = {"exit": None, "note": "patch does not apply: " + r.stdout[-200:]}
                print(sid, prop, "patch does not apply:", r.stdout[-300:], flush=True)
                continue
            t0 = time.time()
            e = dict(env, VERIF_HARNESS=scratch + "/harness", VERIF_WORK=scratch + "/work", VERIF_REPLAYS=scratch + "/replays",
                     VERIF_EVIDENCE=scratch + "/evidence", VERIF_REPO=repo)
            p = subprocess.run(["/verif/check", prop, "quick"], env=e, stdout=subprocess.PIPE, stderr=subprocess.STDOUT, text=True)
            sh("git checkout -- .", cwd=repo)
            nv = p.stdout.count("VIOLATION property=")
            first = next((l for l in p.stdout.splitlines() if l.startswith("---- ") and "VIOLATION" in l), "")
            msg = ""
            if first:
                i = p.stdout.index(first)
                msg = p.stdout[i:i + 600]
            matrix.setdefault(sid, {})[prop] = {"exit": p.returncode, "violations": nv, "wall_s": round(time.time() - t0, 1), "first": msg}
            print(sid, prop, "exit", p.returncode, "violations", nv, "%.0fs" % (time.time() - t0), flush=True)
            json.dump(matrix, open(mpath, "w"), indent=1, sort_keys=True)
finally:
    sh(f"git -C /repo worktree remove --force {repo}")
    shutil.rmtree(scratch, ignore_errors=True)
