#!/bin/bash
# Runs the repository's own test suite (guard OFF) the way BASELINE.json does,
# in the tree given as $1 (default /repo); prints the number of passing tests.
R=${1:-/repo}
export GOPROXY=off GOSUMDB=off GOTOOLCHAIN=local
cd "$R" || exit 2
out=$(go test -mod=mod -json -vet=off -count=1 -timeout 25m ./... 2>&1)
pass=$(echo "$out" | grep -c '"Action":"pass","Package":"[^"]*","Test":"Test[A-Za-z0-9_]*"')
fail=$(echo "$out" | grep '"Action":"fail"' | grep '"Test"' | sed 's/.*"Package":"\([^"]*\)","Test":"\([^"]*\)".*/\1::\2/')
echo "passed=$pass"
if [ -n "$fail" ]; then echo "FAILED:"; echo "$fail"; exit 1; fi
if echo "$out" | grep -q '"Action":"fail"'; then echo "package failure"; echo "$out" | grep -v '"Action":"output"' | tail -5; exit 1; fi
git -C "$R" status --short | grep -v '^??' | head
[ "$pass" -ge 34 ]
