#!/usr/bin/env python3
"""Confirm a seeded defect produced by a sub-agent: in a scratch worktree of /repo's HEAD
 (1) demo passes without the patch, (2) patch applies, builds, (3) full test suite passes with it,
 (4) demo fails with it.  Writes <outdir>/confirm.json.   usage: confirm_seed.py /tmp/seed/out-C01/m1"""
import json, os, subprocess, sys, shutil, glob, re, time
out = sys.argv[1].rstrip("/")
env = dict(os.environ, GOFLAGS="-mod=mod", GOPROXY="off", GOSUMDB="off", GOTOOLCHAIN="local")
wt = "/tmp/confirm-" + re.sub(r"[^A-Za-z0-9]", "_", out)
def sh(cmd, cwd=None, timeout=1500):
    try:
        p = subprocess.run(cmd, shell=True, cwd=cwd, env=env, stdout=subprocess.PIPE, stderr=subprocess.STDOUT, text=True, timeout=timeout)
        return p.returncode, p.stdout
    except subprocess.TimeoutExpired as e:
        return 124, (e.stdout or b"").decode() if isinstance(e.stdout, bytes) else (e.stdout or "")
subprocess.run(["git", "-C", "/repo", "worktree", "remove", "--force", wt], stderr=subprocess.DEVNULL)
shutil.rmtree(wt, ignore_errors=True)
rc, o = sh(f"git -C /repo worktree add -q --detach {wt} HEAD")
res = {"dir": out, "repo_head": sh("git -C /repo rev-parse --short HEAD")[1].strip()}
try:
    meta = json.load(open(out + "/meta.json"))
    demos = [f for f in glob.glob(out + "/*.go")]
    placement = {}
    for d in demos:
        src = open(d).read()
        m = re.search(r"^package\s+(\w+)", src, re.M)
        pkg = m.group(1)
        # place by package name
        sub = {"nfs": "nfs", "nfs_test": "nfs", "simple": "simple", "simple_test": "simple", "kvs": "kvs", "kvs_test": "kvs",
               "nfstypes": "nfstypes", "nfstypes_test": "nfstypes", "dir": "dir", "inode": "inode", "fstxn": "fstxn"}.get(pkg)
        if sub is None:
            sub = "nfs"
        placement[d] = os.path.join(wt, sub, os.path.basename(d))
    tags = "-tags verif" if any("go:build verif" in open(d).read() for d in demos) else ""
    race = "-race" if "-race" in (meta.get("demo_cmd", "") + json.dumps(meta)) else ""
    pkgs = sorted({"./" + os.path.relpath(os.path.dirname(p), wt) + "/" for p in placement.values()})
    runpat = "|".join(sorted(set(re.findall(r"^func (Test\w+)\(", "\n".join(open(d).read() for d in demos), re.M))))
    democmd = f"go test {tags} {race} -vet=off -count=1 -timeout 300s -run '^({runpat})$' " + " ".join(pkgs)
    res["demo_cmd"] = democmd
    for s, dst in placement.items():
        shutil.copy(s, dst)
    rc, o = sh(democmd, wt)
    res["demo_without_patch"] = {"rc": rc, "tail": o[-600:]}
    rc, o = sh(f"git apply --3way {out}/patch.diff || git apply {out}/patch.diff", wt)
    res["apply"] = {"rc": rc, "tail": o[-400:]}
    if rc == 0:
        rc, o = sh("go build ./... && go vet ./... 2>&1 | tail -3", wt)
        res["build"] = {"rc": rc, "tail": o[-400:]}
        rc, o = sh(democmd, wt)
        res["demo_with_patch"] = {"rc": rc, "tail": o[-1200:]}
        for s, dst in placement.items():
            os.remove(dst)
        # the suite's restart tests share one /dev/shm image name: a run that overlaps another one can fail spuriously
        for attempt in range(4):
            rc, o = sh("go test -vet=off -count=1 -timeout 20m ./... 2>&1 | tail -8", wt)
            if rc == 0 and "FAIL" not in o:
                break
            time.sleep(20)
        res["suite_with_patch"] = {"rc": rc, "tail": o[-600:], "attempts": attempt + 1}
        # regenerate a patch against current HEAD
        rc, o = sh("git diff HEAD", wt)
        res["patch_vs_head"] = o
    ok = (res.get("demo_without_patch", {}).get("rc") == 0 and res.get("apply", {}).get("rc") == 0 and res.get("build", {}).get("rc") == 0
          and res.get("demo_with_patch", {}).get("rc") not in (0, None) and res.get("suite_with_patch", {}).get("rc") == 0
          and "FAIL" not in res["suite_with_patch"]["tail"])
    res["confirmed"] = bool(ok)
except Exception as e:
    res["error"] = repr(e)
    res["confirmed"] = False
finally:
    subprocess.run(["git", "-C", "/repo", "worktree", "remove", "--force", wt], stderr=subprocess.DEVNULL)
    shutil.rmtree(wt, ignore_errors=True)
json.dump(res, open(out + "/confirm.json", "w"), indent=1)
print(out, "CONFIRMED" if res["confirmed"] else "NOT CONFIRMED", res.get("error", ""))
