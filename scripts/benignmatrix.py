#!/usr/bin/env python3
"""Runs the quick checks against private copies of /repo with a *property-preserving* change applied
(benign/<id>.diff): every check must stay silent (exit 0).  An exit 1 here is a false alarm of the machinery.
usage: benignmatrix.py [variant-id ...] [--props C01,C02]     Result: /verif/benign/MATRIX.json"""
import json, os, subprocess, sys, shutil, glob, time
sys.path.insert(0, os.path.dirname(os.path.abspath(__file__)))
from propconf import PROPS
scratch = "/tmp/bx-%d" % os.getpid()
repo = scratch + "/repo"
env = dict(os.environ, GOFLAGS="-mod=mod", GOPROXY="off", GOSUMDB="off", GOTOOLCHAIN="local")
def sh(cmd, **kw):
    return subprocess.run(cmd, shell=True, env=env, stdout=subprocess.PIPE, stderr=subprocess.STDOUT, text=True, **kw)
args = [a for a in sys.argv[1:] if not a.startswith("--")]
props = sorted(PROPS)
for a in sys.argv[1:]:
    if a.startswith("--props="):
        props = a.split("=", 1)[1].split(",")
os.makedirs(scratch)
r0 = sh(f"git -C /repo worktree add -q --detach {repo} HEAD")
if r0.returncode != 0:
    print("worktree:", r0.stdout); sys.exit(2)
shutil.copytree("/verif/harness", scratch + "/harness", ignore=shutil.ignore_patterns("bin"))
sh(f"go mod edit -replace=github.com/mit-pdos/go-nfsd={repo}", cwd=scratch + "/harness")
mpath = "/verif/benign/MATRIX.json"
matrix = json.load(open(mpath)) if os.path.exists(mpath) and os.path.getsize(mpath) > 2 else {}
variants = args or sorted(os.path.basename(f)[:-5] for f in glob.glob("/verif/benign/*.diff"))
try:
    for vid in variants:
        r = sh(f"git apply /verif/benign/{vid}.diff", cwd=repo)
        if r.returncode != 0:
            print(vid, "patch does not apply:", r.stdout[-300:], flush=True)
            matrix.setdefault(vid, {})["_apply"] = r.stdout[-300:]
            continue
        if "_suite" not in matrix.get(vid, {}):
            r = sh("go build ./... && go test -vet=off -count=1 -timeout 20m ./... 2>&1 | tail -8", cwd=repo)
            matrix.setdefault(vid, {})["_suite"] = "passes" if r.returncode == 0 and "FAIL" not in r.stdout else "FAILS: " + r.stdout[-300:]
            print(vid, "suite", matrix[vid]["_suite"][:60], flush=True)
        for prop in props:
            t0 = time.time()
            e = dict(env, VERIF_HARNESS=scratch + "/harness", VERIF_WORK=scratch + "/work", VERIF_REPLAYS=scratch + "/replays",
                     VERIF_EVIDENCE=scratch + "/evidence", VERIF_REPO=repo)
            p = subprocess.run(["/verif/check", prop, "quick"], env=e, stdout=subprocess.PIPE, stderr=subprocess.STDOUT, text=True)
            nv = p.stdout.count("VIOLATION property=")
            first = next((l for l in p.stdout.splitlines() if l.startswith("---- ") and "VIOLATION" in l), "")
            msg = ""
            if first:
                i = p.stdout.index(first)
                msg = p.stdout[i:i + 900]
            elif p.returncode != 0:
                msg = p.stdout[-900:]
            matrix.setdefault(vid, {})[prop] = {"exit": p.returncode, "violations": nv, "wall_s": round(time.time() - t0, 1), "first": msg}
            print(vid, prop, "exit", p.returncode, "violations", nv, "%.0fs" % (time.time() - t0), flush=True)
            json.dump(matrix, open(mpath, "w"), indent=1, sort_keys=True)
        sh("git checkout -- .", cwd=repo)
finally:
    sh(f"git -C /repo worktree remove --force {repo}")
    shutil.rmtree(scratch, ignore_errors=True)
