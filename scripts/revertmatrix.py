#!/usr/bin/env python3
"""For every repaired defect in KNOWN_FINDINGS.json: revert the fix in a private worktree of /repo,
run the quick check of the property it is recorded under, record whether the check notices.
Result: /verif/seeded/REVERT_MATRIX.json   usage: revertmatrix.py [commit ...]"""
import json, os, subprocess, sys, shutil, time
sys.path.insert(0, os.path.dirname(os.path.abspath(__file__)))
from propconf import PROPS
scratch = "/tmp/rv-%d" % os.getpid()
repo = scratch + "/repo"
env = dict(os.environ, GOFLAGS="-mod=mod", GOPROXY="off", GOSUMDB="off", GOTOOLCHAIN="local")
def sh(cmd, **kw):
    return subprocess.run(cmd, shell=True, env=env, stdout=subprocess.PIPE, stderr=subprocess.STDOUT, text=True, **kw)
os.makedirs(scratch)
r0 = sh(f"git -C /repo worktree add -q --detach {repo} HEAD")
if r0.returncode != 0:
    print(r0.stdout); sys.exit(2)
shutil.copytree("/verif/harness", scratch + "/harness", ignore=shutil.ignore_patterns("bin"))
sh(f"go mod edit -replace=github.com/mit-pdos/go-nfsd={repo}", cwd=scratch + "/harness")
mpath = "/verif/seeded/REVERT_MATRIX.json"
matrix = json.load(open(mpath)) if os.path.exists(mpath) and os.path.getsize(mpath) > 2 else {}
fixed = [f for f in json.load(open("/verif/KNOWN_FINDINGS.json"))["findings"] if f["status"] == "fixed"]
want = sys.argv[1:]
try:
    for f in fixed:
        c, prop = f["commit"], f["property"]
        if want and c not in want:
            continue
        r = sh(f"git revert --no-commit {c}", cwd=repo)
        if r.returncode != 0:
            sh("git revert --abort; git reset -q --hard HEAD", cwd=repo)
            matrix[c] = {"property": prop, "subject": f["subject"], "exit": None, "note": "revert conflicts with later fixes"}
            print(c, prop, "revert conflicts", flush=True)
            json.dump(matrix, open(mpath, "w"), indent=1, sort_keys=True)
            continue
        b = sh("go build ./... && go build -tags verif ./...", cwd=repo)
        if b.returncode != 0:
            sh("git reset -q --hard HEAD", cwd=repo)
            matrix[c] = {"property": prop, "subject": f["subject"], "exit": None, "note": "reverted tree does not build"}
            print(c, prop, "does not build", flush=True)
            continue
        t0 = time.time()
        e = dict(env, VERIF_HARNESS=scratch + "/harness", VERIF_WORK=scratch + "/work", VERIF_REPLAYS=scratch + "/replays",
                 VERIF_EVIDENCE=scratch + "/evidence", VERIF_REPO=repo)
        p = subprocess.run(["/verif/check", prop, "quick"], env=e, stdout=subprocess.PIPE, stderr=subprocess.STDOUT, text=True)
        sh("git reset -q --hard HEAD", cwd=repo)
        nv = p.stdout.count("VIOLATION property=")
        matrix[c] = {"property": prop, "subject": f["subject"], "exit": p.returncode, "violations": nv, "wall_s": round(time.time() - t0, 1)}
        print(c, prop, "exit", p.returncode, "violations", nv, "%.0fs" % (time.time() - t0), f["subject"][:60], flush=True)
        json.dump(matrix, open(mpath, "w"), indent=1, sort_keys=True)
finally:
    sh(f"git -C /repo worktree remove --force {repo}")
    shutil.rmtree(scratch, ignore_errors=True)
