#!/bin/bash
# Runs every thorough check once (sequentially) and prints one line each.  usage: thorough_all.sh [ids...]
IDS=${@:-"C19 C15 C16 C13 C17 C18 C08 C11 C10 C02 C09 C12 C04 C05 C06 C03 C14 C07 C01"}
cd "$(dirname "$0")/.."
for id in $IDS; do
  t0=$(date +%s)
  out=$(./check $id thorough 2>&1); rc=$?
  echo "$id rc=$rc $(( $(date +%s) - t0 ))s $(echo "$out" | tail -1)"
  if [ $rc -ne 0 ]; then echo "$out" | grep -v "rapid\] draw" | grep -B2 -A25 "VIOLATION$\|INCONCLUSIVE\|VACUOUS" | head -80; fi
done
