#!/bin/bash
# usage: seedround.sh <srcdir> <tag> <Cxx> [Cyy ...]  -- confirm, store and run the matrix for the seeds of the given properties
export GOFLAGS=-mod=mod GOPROXY=off GOSUMDB=off GOTOOLCHAIN=local
SRC=$1; TAG=$2; shift 2
ids=""
for p in "$@"; do
  for m in m1 m2; do python3 /verif/scripts/confirm_seed.py $SRC/out-$p/$m 2>&1 | grep -v conda; ids="$ids $p-$TAG$m"; done
done
python3 /verif/scripts/store_seeds.py $SRC $TAG | grep -v conda
# one matrix run at a time (they share MATRIX.json)
exec 9>/tmp/seedmatrix.lock; flock 9
python3 /verif/scripts/seedmatrix.py $ids 2>&1 | grep -v conda
