#!/bin/bash
# usage: trymut.sh <patch.diff> <ID> [quick|thorough]  -- apply a seeded defect to /repo, run a check, undo.
P=$1; ID=$2; TIER=${3:-quick}
cd /repo || exit 2
if [ -n "$(git status --porcelain | grep -v '^??')" ]; then echo "/repo is dirty"; exit 2; fi
git apply "$P" || { echo "patch does not apply"; exit 2; }
trap 'git -C /repo checkout -- . ' EXIT
cd /verif && timeout 1800 ./check $ID $TIER 2>&1 | grep -E "VIOLATION|KNOWN|evaluations|INCONCLUSIVE|VACUOUS|BUILD" | head -20
echo "exit=${PIPESTATUS[0]}"
