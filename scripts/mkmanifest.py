#!/usr/bin/env python3
# Generates /verif/MANIFEST.json from scripts/propconf.py (claimed checks) and the texts below.
import json, os, sys, subprocess
sys.path.insert(0, os.path.dirname(os.path.abspath(__file__)))
from propconf import PROPS

ALL = ["C%02d" % i for i in range(1, 20)]
hooks_commit = "65b6a2f"

checks = []
for pid in ALL:
    if pid not in PROPS:
        continue
    c = PROPS[pid]
    checks.append({
        "property_id": pid,
        "quick_cmd": "./check %s quick" % pid,
        "thorough_cmd": "./check %s thorough" % pid,
        "evidence_file": "evidence/%s.json" % pid,
        "replay_cmd_template": "./check %s --replay {path}" % pid,
        "engine": c.get("engine", "checks"),
        "level_claimed": {"category": c["level"], "text": c["level_text"], "design_ref": c.get("design_ref", "DESIGN.md section 5, " + pid)},
        "level_note": c["level_note"],
        "technique": c["technique"],
    })

na = [{"property_id": pid, "reason": "check not built yet at this commit (work in progress; see DESIGN.md section 5 for the planned generated-input check)"}
      for pid in ALL if pid not in PROPS]

manifest = {
    "version": 1,
    "setup_cmd": "./check --build --race",
    "hooks": {
        "guard": "verif",
        "enable": "go test -tags verif (the driver builds harness/checks against /repo with -tags verif on every call)",
        "baseline_off_cmd": "cd /repo && go test -mod=mod -json -vet=off -count=1 -timeout 25m ./...",
        "source_commits": [hooks_commit, "790dd41"],
        "add_only": True,
    },
    "engines": [
        {"name": "checks", "path": "harness/checks", "serves_properties": [p for p in ALL if p in PROPS],
         "kind_free_text": "one Go test package (pgregory.net/rapid v1.3.0 properties and state machines, porcupine v1.3.0 as linearizability oracle, native go fuzz targets) built against /repo with -tags verif; recording/crash-image disk, reference model, fsck, lock monitor"},
        {"name": "driver", "path": "check", "serves_properties": [p for p in ALL if p in PROPS],
         "kind_free_text": "python3 stdlib driver: rebuilds, shards by seed derived from VERIF_SEED, merges counters into evidence, maps failures to VIOLATION/replay, infra problems to exit 2"},
    ],
    "checks": checks,
    "not_applicable": na,
    "notes": "Family: property-based testing and fuzzing. Known findings and repaired defects: KNOWN_FINDINGS.json. Seeded-defect validation: seeded/ and DESIGN.md section 10; property-preserving variants (false-alarm search): benign/ and DESIGN.md section 12.",
}
if not na:
    del manifest["not_applicable"]
json.dump(manifest, open(os.path.join(os.path.dirname(os.path.abspath(__file__)), "..", "MANIFEST.json"), "w"), indent=1)
print("claimed:", [c["property_id"] for c in checks], "not claimed:", [n["property_id"] for n in na])
